"""C33 Decoding arbitrary bytes as DNS is total and terminates.

Monitor: each input is given to the four real entry points -- Message().fromStr, _EDNSMessage().fromStr,
DNSDatagramProtocol.datagramReceived (UDP, with a log observer) and DNSProtocol.dataReceived (TCP,
length-prefixed) -- and the outcome is observed: a return, or EOFError / ValueError (incl. subclasses),
is fine; any other exception, a logged "Unexpected decoding error" (UDP's catch-all) or an exceeded
step budget is a violation.  Termination is decided by a per-call budget of executed *lines of dns.py*
(sys.monitoring LINE events enabled only on dns.py's code objects), never by wall-clock time.  For an
n-octet input the budget is n^2 + 500n + 50000 lines: a terminating decode visits every label start at
most once per name, so it needs at most ~(n/4 labels) x (3n/32 names) x 14 lines = 0.33 n^2 plus a
linear term; the budget is 3x that.  (It must scale with n rather than be one large constant because
Name.decode re-copies the accumulated name on every label: a spinning decode gets quadratically slower.)
A compression loop without the visited-offset check spins forever and hits the budget.

Parts: (A, deciding, deterministic for a VERIF_SEED) a seeded structure-aware mutator over a corpus of
valid encodings from the C32 generator plus hand-made hostile packets (pointer self/mutual/long
cycles, bogus rdlength for every record type, truncation at every offset, count fields of 65535) and a
structured family of compression-pointer CHAINS (pointer -> pointer -> ... up to the 8190 hops that the
14-bit offset space allows, forward / backward / shuffled, with and without labels between hops, in
messages of up to 4 KiB / 16 KiB / 64 KiB, ending in a literal label or in a cycle): the iterative
reference reader says which name (or "loop") is right, the real decoder must return exactly that name
resp. refuse with ValueError/EOFError, within the line budget;
(B, additional) coverage-guided fuzzing with atheris/libFuzzer in a subprocess seeded with the same
corpus (-runs=N -max_len=4096); a crash input is saved as witness and re-judged by monitor A's oracle.
If atheris is not importable this is only noted (part A still decides).
"""
import os
import shutil
import struct
import subprocess
import sys
import tempfile
import traceback
import types

from vf.engines import refdns as RD
from vf.props import c32

LEVEL = "exploration"
ENGINE = "core"
TECHNIQUE = "runtime monitoring: exception-type oracle + per-call executed-line budget on dns.py; seeded mutator + atheris coverage-guided fuzzing"
RULE = ("corpus = valid encodings of random C32 specs (every record type) + hostile hand-made packets; each case "
        "= one corpus entry after 1..6 seeded mutations (bit flips, interesting bytes, rdlength / count / label-length "
        "edits located with the reference reader, pointer insertion and retargeting incl. cycles, splice, truncate, "
        "duplicate, insert random bytes), length <= 4096.  Distinct = the mutated bytes; non-trivial = not a byte-for-"
        "byte valid corpus entry.  Plus atheris executions (counted separately).")
ASSUMPTIONS = ["termination is decided by a budget of n^2+500n+50000 executed lines of dns.py per call on an n-octet input (n <= 4096)",
               "atheris part is additional evidence; the deciding part is the seeded mutator"]
SHARDS = {"quick": 4, "thorough": 16}
FLOORS = {"decode_calls": 100000, "outcome_returned": 10000, "outcome_EOFError": 5000, "outcome_ValueError": 500,
          "udp_datagrams": 25000, "tcp_messages": 25000, "inputs_with_pointer_cycle": 1000, "mutated_inputs": 25000,
          "pointer_chain_cases": 300, "long_pointer_chains": 100, "pointer_chains_of_8000_hops_or_more": 5,
          "pointer_chain_names_compared": 150, "pointer_chains_ending_in_cycle": 80,
          "atheris_or_noted": 1}
WATCHDOG_S = {"quick": 900, "thorough": 3600}
READY = True

MAXLEN = 4096


def budget_for(n):
    return n * n + 500 * n + 50000


class StepBudgetExceeded(BaseException):
    pass


class LineBudget:
    """sys.monitoring LINE counter scoped to the code objects of one module."""

    def __init__(self, module):
        self.mon = sys.monitoring
        self.tool = None
        self.n = 0
        self.limit = budget_for(MAXLEN)
        self.exceeded = False
        self.lines = set()
        self.file = module.__file__
        self.codes = self._codes(module)

    def _codes(self, mod):
        out = set()

        def add(c):
            if c in out or c.co_filename != mod.__file__:
                return
            out.add(c)
            for k in c.co_consts:
                if isinstance(k, types.CodeType):
                    add(k)

        def walk(ns, depth):
            for v in list(ns.values()):
                f = getattr(v, "__func__", v)
                if isinstance(v, property):
                    for g in (v.fget, v.fset, v.fdel):
                        if g is not None and hasattr(g, "__code__"):
                            add(g.__code__)
                elif isinstance(getattr(f, "__code__", None), types.CodeType):
                    add(f.__code__)
                elif isinstance(v, type) and v.__module__ == mod.__name__ and depth < 3:
                    walk(vars(v), depth + 1)

        walk(vars(mod), 0)
        return out

    def _cb(self, code, line):
        self.n += 1
        if self.n > self.limit:
            self.exceeded = True
            raise StepBudgetExceeded("more than %d lines of dns.py executed in one call" % self.limit)
        if self.n < 3000:
            self.lines.add(line)

    def __enter__(self):
        for tool in (4, 3, 5, 2, 1):
            try:
                self.mon.use_tool_id(tool, "vf-c33")
                self.tool = tool
                break
            except ValueError:
                continue
        if self.tool is None:
            raise RuntimeError("no free sys.monitoring tool id")
        self.mon.register_callback(self.tool, self.mon.events.LINE, self._cb)
        for c in self.codes:
            self.mon.set_local_events(self.tool, c, self.mon.events.LINE)
        return self

    def __exit__(self, *a):
        for c in self.codes:
            self.mon.set_local_events(self.tool, c, 0)
        self.mon.register_callback(self.tool, self.mon.events.LINE, None)
        self.mon.free_tool_id(self.tool)
        return False

    def start(self, input_len=MAXLEN):
        self.n = 0
        self.exceeded = False
        self.limit = budget_for(input_len)


# ---- corpus ---------------------------------------------------------------------------------------------------

def hdr(qd=0, an=0, ns=0, ar=0, mid=0x1234, flags=0x8180):
    return struct.pack("!HHHHHH", mid, flags, qd, an, ns, ar)


def rr(name, typ, rdata, cls=1, ttl=60, rdlen=None):
    return name + struct.pack("!HHIH", typ, cls, ttl, len(rdata) if rdlen is None else rdlen) + rdata


def hostile_corpus():
    ex = b"\x07example\x03com\x00"
    q = ex + b"\x00\x01\x00\x01"
    out = []
    # compression-pointer cycles: self, mutual, through labels, long chain ending in a cycle, forward, into the header
    out.append(hdr(1) + b"\xc0\x0c\x00\x01\x00\x01")
    out.append(hdr(1) + b"\xc0\x0e\xc0\x0c\x00\x01\x00\x01")
    out.append(hdr(1) + b"\x01a\xc0\x0c\x00\x01\x00\x01")
    out.append(hdr(1) + b"\x01a\x01b\xc0\x0e\x00\x01\x00\x01")
    chain = b"".join(struct.pack("!H", 0xC000 | (12 + 2 * (i + 1))) for i in range(60)) + b"\xc0\x0c"
    out.append(hdr(1) + chain + b"\x00\x01\x00\x01")
    out.append(hdr(1) + b"\xc0\x14\x00\x01\x00\x01\x00\x00\x01z\x00")
    out.append(hdr(1) + b"\xc0\x00\x00\x01\x00\x01")
    out.append(hdr(1, 1) + q + rr(b"\xc0\x0c", 5, b"\x03www\xc0\x1d"))  # rdata name pointing at itself
    out.append(hdr(1, 1) + q + rr(b"\xc0\x0c", 2, b"\xc0\x29"))
    out.append(hdr(0, 1) + rr(b"\x01a\xc0\x0c", 1, b"\x01\x02\x03\x04"))
    out.append(hdr(0, 2) + rr(b"\xc0\x1b", 1, b"\x01\x02\x03\x04") + rr(b"\xc0\x0c", 1, b"\x01\x02\x03\x04"))
    # long run of one-octet labels visited through many pointers
    run_ = b"\x01a" * 300 + b"\x00"
    out.append(hdr(0, 40) + rr(run_, 1, b"\x00" * 4) + b"".join(rr(struct.pack("!H", 0xC000 | (12 + 2 * i)), 2, struct.pack("!H", 0xC000 | (14 + 2 * i))) for i in range(39)))
    # every record type with rdlength 0, too short, too long, huge; and with valid minimal rdata
    rdatas = {1: b"\x01\x02\x03\x04", 2: ex, 5: ex, 6: ex + ex + b"\x00" * 20, 10: b"xyz", 11: b"\x7f\x00\x00\x01\x06\x01", 12: ex, 13: b"\x01a\x01b",
              14: ex + ex, 15: b"\x00\x05" + ex, 16: b"\x03abc\x00", 17: ex + ex, 18: b"\x00\x01" + ex, 28: b"\x00" * 16, 33: b"\x00\x01\x00\x02\x00\x03" + ex,
              35: b"\x00\x01\x00\x02\x01a\x01b\x01c" + ex, 38: b"\x40" + b"\x01" * 8 + ex, 39: ex, 41: b"\x00\x0a\x00\x02ab", 44: b"\x01\x02abc", 99: b"\x01x",
              250: b"\x04hmac\x00" + b"\x00" * 6 + b"\x01\x2c\x00\x02mm\x00\x01\x00\x00\x00\x02oo", 3: ex, 4: ex, 7: ex, 8: ex, 9: ex, 65280: b"\x01\x02"}
    for t, rd in rdatas.items():
        out.append(hdr(1, 1) + q + rr(b"\xc0\x0c", t, rd))
        for bad in (0, 1, max(0, len(rd) - 1), len(rd) + 1, 255, 65535):
            out.append(hdr(1, 1) + q + rr(b"\xc0\x0c", t, rd, rdlen=bad))
        out.append(hdr(1, 1) + q + rr(b"\xc0\x0c", t, rd + b"\xff" * 3))
    # A6 / WKS / SSHFP whose declared sizes go negative in naive arithmetic
    out.append(hdr(0, 1) + rr(b"\x00", 38, b"\xff" + b"\x01" * 20))
    out.append(hdr(0, 1) + rr(b"\x00", 38, b"\x81"))
    out.append(hdr(0, 1) + rr(b"\x00", 11, b"\x01\x02"))
    out.append(hdr(0, 1) + rr(b"\x00", 44, b"\x01"))
    out.append(hdr(0, 1) + rr(b"\x00", 16, b"\xff" + b"a" * 10))
    out.append(hdr(0, 1) + rr(b"\x00", 250, b"\x00" + b"\x00" * 8 + b"\xff\xff" + b"m" * 5))
    # OPT with broken options, two OPTs, OPT in the answer section
    out.append(hdr(0, 0, 0, 1) + rr(b"\x00", 41, b"\x00\x0a\xff\xff", cls=4096, ttl=0x8000))
    out.append(hdr(0, 0, 0, 1) + rr(b"\x00", 41, b"\x00\x0a\x00", cls=4096))
    out.append(hdr(0, 0, 0, 2) + rr(b"\x00", 41, b"", cls=512) + rr(b"\x00", 41, b"", cls=1024, ttl=0xFF000000))
    out.append(hdr(0, 1, 0, 0) + rr(b"\x00", 41, b"\x00\x01\x00\x00"))
    # counts far beyond the data, empty, header only, short header
    out.append(hdr(65535, 65535, 65535, 65535))
    out.append(hdr(65535, 65535, 65535, 65535) + q)
    out.append(hdr(0, 65535) + rr(b"\x00", 1, b"\x01\x02\x03\x04") * 20)
    out += [b"", b"\x00", hdr()[:11], hdr(), b"\xff" * 12, b"\xff" * 64, b"\xc0" * 64, b"\x3f" * 80, b"\x40" * 80]
    # reserved label types, 63/64-octet labels, name of 255+ octets
    out.append(hdr(1) + b"\x40abc\x00\x00\x01\x00\x01")
    out.append(hdr(1) + b"\x80abc\x00\x00\x01\x00\x01")
    out.append(hdr(1) + b"\x3f" + b"a" * 63 + b"\x00\x00\x01\x00\x01")
    out.append(hdr(1) + (b"\x3f" + b"a" * 63) * 6 + b"\x00\x00\x01\x00\x01")
    return out


def build_corpus(ctx, dns):
    """Deterministic for a seed, identical in every shard."""
    corpus = list(hostile_corpus())
    rng = ctx.case_rng("corpus")
    n = 0
    while n < 160:
        spec = c32.gen_spec(rng, odd_a6=rng.random() < 0.1, edns=rng.random() < 0.15)
        try:
            w = c32.build(dns, spec, 0).toStr()
        except Exception:
            continue
        if len(w) <= 1500:
            corpus.append(w)
            n += 1
    base = corpus[-1]
    for cut in range(0, len(base), max(1, len(base) // 60)):
        corpus.append(base[:cut])
    return corpus


# ---- structured family: compression-pointer chains ---------------------------------------------------------------

CHAIN_HOPS = (1, 2, 3, 10, 100, 127, 128, 129, 500, 900, 990, 1000, 1010, 1100, 1500, 2000, 2030, 3000, 5000, 8000, 8180)
CHAIN_LAYOUTS = ("forward", "backward", "shuffled", "labelled", "forward-cycle", "backward-cycle", "shuffled-cycle-mid")


def chain_message(rng, hops, layout, size):
    """A message of at most `size` octets whose question name, answer owner and NS RDATA all start a chain of
    `hops` compression pointers.  Returns bytes or None when it does not fit (offsets must stay < 0x4000)."""
    base = 12 + 2 + 4 + 2 + 10 + 2  # header, question (pointer, type, class), answer (pointer, fixed part, rdata pointer)
    labelled = layout == "labelled"
    slot = 4 if labelled else 2  # "\x01x" + pointer, or a bare pointer
    end = base + hops * slot
    lit = b"\x03end\x00"
    if end + len(lit) > min(size, 0x4000):
        return None
    order = list(range(hops))  # order[i] = slot index visited i-th
    if layout.startswith("backward"):
        order.reverse()
    elif layout.startswith("shuffled"):
        rng.shuffle(order)
    off = lambda slot_index: base + slot_index * slot
    region = bytearray(hops * slot)
    for i, sidx in enumerate(order):
        if i + 1 < hops:
            target = off(order[i + 1])
        elif layout == "forward-cycle" or layout == "backward-cycle":
            target = off(order[0])
        elif layout == "shuffled-cycle-mid":
            target = off(order[hops // 2])
        else:
            target = end
        cell = (b"\x01x" if labelled else b"") + struct.pack("!H", 0xC000 | target)
        region[sidx * slot:(sidx + 1) * slot] = cell
    start = struct.pack("!H", 0xC000 | off(order[0]))
    msg = hdr(1, 1) + start + b"\x00\x02\x00\x01" + start + struct.pack("!HHIH", 2, 1, 60, 2) + start + bytes(region) + lit
    if size > len(msg) + 11 and size > 4096:  # pad to the size class with one more (NULL) record
        pad = min(size, 65535) - len(msg) - 11
        msg = msg[:6] + struct.pack("!H", 2) + msg[8:] + rr(b"\x00", 10, bytes(pad))
    return msg


def check_chain(ctx, mon, dns, data, hops, layout):
    ctx.evaluated()
    ctx.distinct(data)
    ctx.count("pointer_chain_cases")
    ctx.maxi("pointer_chain_hops", hops)
    ctx.maxi("input_length", len(data))
    if hops >= 1000:
        ctx.count("long_pointer_chains")
    if hops >= 8000:
        ctx.count("pointer_chains_of_8000_hops_or_more")
    try:
        want = RD.read_name(data, 12, strict_len=False).labels
    except RD.WireError as e:
        want = e.reason
    mon.budget_len = min(len(data), MAXLEN)  # <= 3 names x 8190 hops x ~10 lines, far below budget_for(4096)
    try:
        mon.check(data, origin="pointer-chain:%s:%d" % (layout, hops))
    finally:
        mon.budget_len = None
    wit = {"input_hex": data.hex() if len(data) <= 6000 else data[:6000].hex(), "input_len": len(data), "layout": layout, "hops": hops,
           "reference_reader": want if isinstance(want, str) else b".".join(want)}
    mon.budget.start(min(len(data), MAXLEN))
    try:
        m = dns.Message()
        m.fromStr(data)
        got = [q.name.name for q in m.queries] + [a.name.name for a in m.answers] + [a.payload.name.name for a in m.answers[:1]]
    except (EOFError, ValueError) as e:
        got = type(e).__name__
    except BaseException as e:  # already reported by mon.check with its own key
        got = "raised " + type(e).__name__
    if isinstance(want, str):
        ctx.count("pointer_chains_ending_in_cycle")
        if want == "pointer-loop" and got not in ("ValueError", "EOFError") and not str(got).startswith("raised"):
            ctx.violation("pointer-chain-cycle-not-refused", "a pointer chain that ends in a cycle is decoded instead of refused",
                          dict(wit, decoded=got))
    elif not isinstance(got, str):
        ctx.count("pointer_chain_names_compared")
        name = b".".join(want)
        if got[:3] != [name, name, name]:
            ctx.violation("pointer-chain-name-differs", "the name reached through a pointer chain differs from the reference reader's",
                          dict(wit, decoded=got[:3]))
    elif not got.startswith("raised"):
        ctx.violation("pointer-chain-refused", "an acyclic pointer chain is refused with %s" % got, dict(wit, decoded=got))


def run_chains(ctx, mon, dns):
    k = 0
    for size in (4096, 16384, 65535):
        for hops in CHAIN_HOPS:
            for layout in CHAIN_LAYOUTS:
                k += 1
                if not ctx.owns(k) or mon.nonterm >= 3:
                    continue
                data = chain_message(ctx.case_rng("chain", size, hops, layout), hops, layout, size)
                if data is None:
                    ctx.count("pointer_chain_does_not_fit")
                    continue
                check_chain(ctx, mon, dns, data, hops, layout)


# ---- mutator ----------------------------------------------------------------------------------------------------

INTERESTING = [0x00, 0x01, 0x3F, 0x40, 0x7F, 0x80, 0xBF, 0xC0, 0xC1, 0xFF, 0x0C, 0x29, 0x26, 0x10]


def landmarks(data):
    """Offsets of rdlength fields, label-length octets and pointers found by the reference reader."""
    rdl, ptr, lab = [], [], []
    try:
        p = RD.parse_message(data, partial=True, strict_len=False, follow=False)
    except (RD.WireError, IndexError, struct.error):
        return rdl, ptr, lab
    traces = list(p["question_names"])
    for sec in ("an", "ns", "ar"):
        for r in p["sections"][sec]:
            rdl.append(r["end"] - r["rdlength"] - 2)
            traces.extend(r["names"])
    for t in traces:
        off = t.start
        for l in t.labels:
            lab.append(off)
            off += 1 + len(l)
        for loc, target, cnt in t.hops:
            ptr.append(loc)
    return rdl, ptr, lab


def mutate(rng, data, corpus):
    b = bytearray(data)
    for _ in range(rng.choice((1, 1, 2, 2, 3, 4, 6))):
        op = rng.random()
        n = len(b)
        if n == 0:
            b += bytes(rng.randrange(256) for _ in range(rng.randrange(1, 20)))
            continue
        if op < 0.12:
            i = rng.randrange(n)
            b[i] ^= 1 << rng.randrange(8)
        elif op < 0.24:
            b[rng.randrange(n)] = rng.choice(INTERESTING)
        elif op < 0.50:
            rdl, ptr, lab = landmarks(bytes(b))
            kind = rng.random()
            if kind < 0.3 and rdl:
                i = rng.choice(rdl)
                cur = struct.unpack("!H", b[i:i + 2])[0]
                b[i:i + 2] = struct.pack("!H", rng.choice((0, 1, max(0, cur - 1), (cur + 1) & 0xFFFF, cur + 2 & 0xFFFF, 4, 5, 255, 256, 65535, rng.randrange(65536))))
            elif kind < 0.65 and (ptr or lab):
                # make / retarget a pointer: to itself, to an earlier pointer, to a label, forward, anywhere
                spots = ptr + lab
                i = rng.choice(spots)
                if i + 2 <= n:
                    tgt = rng.choice([i, max(0, i - 2), 12, rng.choice(spots), rng.randrange(n), min(n - 1, i + 2), rng.randrange(0x4000)])
                    b[i:i + 2] = struct.pack("!H", 0xC000 | (tgt & 0x3FFF))
            elif kind < 0.85 and lab:
                i = rng.choice(lab)
                b[i] = rng.choice((0, 1, 63, 64, 127, 128, 191, 192, 255, (b[i] + 1) & 0xFF, max(0, b[i] - 1)))
            else:
                i = rng.choice((4, 6, 8, 10))
                if i + 2 <= n:
                    b[i:i + 2] = struct.pack("!H", rng.choice((0, 1, 2, 255, 65535, rng.randrange(1000))))
        elif op < 0.60:
            other = rng.choice(corpus)
            if other:
                i, j = rng.randrange(n + 1), rng.randrange(len(other))
                b[i:] = other[j:j + rng.randrange(1, 200)] if rng.random() < 0.5 else b[i:] + other[j:]
        elif op < 0.70:
            del b[rng.randrange(n):]
        elif op < 0.78:
            i = rng.randrange(n)
            del b[i:i + rng.randrange(1, 9)]
        elif op < 0.86:
            i = rng.randrange(n + 1)
            b[i:i] = bytes(rng.choice(INTERESTING) if rng.random() < 0.5 else rng.randrange(256) for _ in range(rng.randrange(1, 12)))
        elif op < 0.93:
            i = rng.randrange(n)
            j = min(n, i + rng.randrange(1, 40))
            b[j:j] = b[i:j] * rng.choice((1, 2, 8))
        else:
            i = rng.randrange(n)
            b[i:i + 2] = struct.pack("!H", rng.randrange(65536))
        if len(b) > MAXLEN:
            del b[MAXLEN:]
    return bytes(b)


def has_cycle(data):
    try:
        RD.parse_message(data, partial=True, strict_len=False)
    except RD.WireError as e:
        return e.reason == "pointer-loop"
    except (IndexError, struct.error):
        return False
    return False


# ---- the monitor ---------------------------------------------------------------------------------------------------

class Controller:
    def __init__(self):
        self.got = 0

    def messageReceived(self, m, proto, addr=None):
        self.got += 1

    def connectionMade(self, p):
        pass

    def connectionLost(self, p):
        pass


class NullTransport:
    def write(self, *a):
        pass

    def loseConnection(self):
        pass


class Monitor:
    def __init__(self, ctx, dns):
        self.ctx = ctx
        self.dns = dns
        self.budget = LineBudget(dns)
        self.events = []
        self.nonterm = 0
        self.ctl = Controller()
        self.udp = dns.DNSDatagramProtocol(self.ctl, reactor=object())
        self.udp.startProtocol()

    def observer(self, event):
        if event.get("log_failure") is not None or event.get("isError"):
            self.events.append(event)

    def _where(self, tb):
        fn = "?"
        while tb is not None:
            code = tb.tb_frame.f_code
            if code.co_filename == self.budget.file:
                fn = getattr(code, "co_qualname", code.co_name)
            tb = tb.tb_next
        return fn

    budget_len = None  # set by the pointer-chain family: its legitimate work is linear in the number of hops

    def call(self, name, fn, data, origin):
        """Run one entry point under the line budget; judge the outcome."""
        ctx, b = self.ctx, self.budget
        b.start(len(data) if self.budget_len is None else self.budget_len)
        ctx.count("decode_calls")
        outcome = "returned"
        try:
            fn()
        except (EOFError, ValueError) as e:
            outcome = type(e).__name__ if type(e) in (EOFError, ValueError) else "ValueError:" + type(e).__name__
        except StepBudgetExceeded:
            outcome = "budget"
        except Exception as e:
            outcome = "raised"
            if not b.exceeded:
                where = self._where(e.__traceback__)
                key = "decode-raises-%s-in-%s" % (type(e).__name__, where)
                first = key not in ctx.violations  # format the (possibly 1000-frame) traceback only for the kept witness
                ctx.violation(key, "%s raises %s (not EOFError/ValueError) from %s" % (name, type(e).__name__, where),
                              {"entry": name, "input_hex": data.hex(), "input_len": len(data), "exception": repr(e)[:300], "origin": origin,
                               "traceback": traceback.format_exception(type(e), e, e.__traceback__)[-3:]} if first else {})
        ctx.maxi("dns_lines_in_one_call", b.n)
        if b.exceeded:
            self.nonterm += 1
            ctx.violation("decode-does-not-terminate", "%s executed more than n^2+500n+50000 lines of dns.py on an n-octet input (compression loop?)" % name,
                          {"entry": name, "input_hex": data.hex(), "input_len": len(data), "line_budget": b.limit, "origin": origin,
                           "pointer_cycle_per_reference_reader": has_cycle(data)})
            outcome = "budget"
        ctx.count("outcome_" + outcome.split(":")[0])
        ctx.seen("outcomes", name + ":" + outcome)
        return outcome

    def check(self, data, origin="mutator"):
        dns = self.dns
        o1 = self.call("Message.fromStr", lambda: dns.Message().fromStr(data), data, origin)
        if o1 == "budget":
            return
        self.call("_EDNSMessage.fromStr", lambda: dns._EDNSMessage().fromStr(data), data, origin)
        # UDP: nothing may escape, and the catch-all "Unexpected decoding error" must never be needed
        del self.events[:]
        got0 = self.ctl.got
        o3 = self.call("DNSDatagramProtocol.datagramReceived", lambda: self.udp.datagramReceived(data, ("192.0.2.1", 53)), data, origin)
        self.ctx.count("udp_datagrams")
        if o3 not in ("returned", "budget"):
            self.ctx.violation("udp-datagramReceived-raises", "DNSDatagramProtocol.datagramReceived let %s escape" % o3,
                               {"input_hex": data.hex(), "origin": origin, "outcome": o3})
        for ev in self.events:
            f = ev.get("log_failure") or ev.get("failure")
            tname = f.type.__name__ if f is not None and getattr(f, "type", None) else "?"
            if tname == "StepBudgetExceeded":
                continue
            key = "udp-unexpected-decoding-error-%s" % tname
            self.ctx.violation(key, "datagramReceived logged a failure (%s): its catch-all was needed" % tname,
                               {"input_hex": data.hex(), "origin": origin, "why": str(ev.get("why") or ev.get("log_format"))[:200],
                                "failure": (f.getTraceback()[-600:] if f is not None else None)} if key not in self.ctx.violations else {})
        if (o1 == "returned") != (self.ctl.got == got0 + 1) and o3 == "returned":
            self.ctx.violation("udp-delivery-differs-from-decode", "datagramReceived delivered/dropped differently from Message.fromStr",
                               {"input_hex": data.hex(), "origin": origin, "fromStr": o1, "delivered": self.ctl.got - got0})
        # TCP: length-prefixed; decode errors propagate to the transport
        if len(data) <= 65535:
            tcp = dns.DNSProtocol(self.ctl, reactor=object())
            tcp.makeConnection(NullTransport())
            self.call("DNSProtocol.dataReceived", lambda: tcp.dataReceived(struct.pack("!H", len(data)) + data), data, origin)
            self.ctx.count("tcp_messages")


# ---- atheris (additional part) ---------------------------------------------------------------------------------------

DRIVER = r'''
import sys, atheris
# Instrument dns.py only: import it once so that all its dependencies are loaded uninstrumented
# (atheris would otherwise instrument every twisted module imported inside the block, ~40 s), then
# re-import just that module under instrumentation.
import twisted.names.dns
del sys.modules["twisted.names.dns"]
if hasattr(twisted.names, "dns"):
    del twisted.names.dns
with atheris.instrument_imports(include=["twisted.names.dns"]):
    from twisted.names import dns
sys.path.insert(0, %(home)r)
from vf.props import c33
lb = c33.LineBudget(dns)
lb.__enter__()
def TestOneInput(data):
    for cls in (dns.Message, dns._EDNSMessage):
        lb.start(len(data))
        try:
            cls().fromStr(data)
        except (EOFError, ValueError):
            pass
atheris.Setup([sys.argv[0]] + sys.argv[1:], TestOneInput)
atheris.Fuzz()
'''


def run_atheris(ctx, mon, corpus, runs):
    probe = subprocess.run([sys.executable, "-c", "import atheris"], capture_output=True, timeout=120)
    if probe.returncode != 0:
        ctx.count("atheris_unavailable")
        ctx.count("atheris_or_noted")
        ctx.seen("atheris", "not importable: " + probe.stderr.decode("utf-8", "replace")[-200:])
        return
    tmp = tempfile.mkdtemp(prefix="vf_c33_")
    try:
        cdir = os.path.join(tmp, "corpus")
        adir = os.path.join(tmp, "artifacts")
        os.mkdir(cdir)
        os.mkdir(adir)
        for i, c in enumerate(corpus):
            with open(os.path.join(cdir, "seed%04d" % i), "wb") as f:
                f.write(c[:MAXLEN])
        drv = os.path.join(tmp, "driver.py")
        with open(drv, "w") as f:
            f.write(DRIVER % {"home": os.environ.get("VERIF_HOME") or os.path.dirname(os.path.dirname(os.path.dirname(os.path.abspath(__file__))))})
        cmd = [sys.executable, drv, "-runs=%d" % runs, "-max_len=%d" % MAXLEN, "-seed=%d" % (1 + ctx.seed * 1000 + ctx.shard),
               "-artifact_prefix=" + adir + os.sep, "-print_final_stats=1", "-verbosity=1",
               # libFuzzer's own wall-clock / memory verdicts are switched off: termination is decided by the line
               # budget inside the driver, never by time (a loaded machine once produced a 'slow-unit' artifact)
               "-timeout=1000000", "-report_slow_units=1000000", "-rss_limit_mb=0", "-malloc_limit_mb=0", cdir]
        try:
            p = subprocess.run(cmd, capture_output=True, timeout=600 if ctx.quick else 3000, cwd=tmp)
        except subprocess.TimeoutExpired:
            ctx.inconclusive("atheris subprocess watchdog (shard %d)" % ctx.shard)
            return
        err = p.stderr.decode("utf-8", "replace")
        stats = {}
        for line in err.splitlines():
            if line.startswith("stat::"):
                k, _, v = line[6:].partition(":")
                stats[k.strip()] = v.strip()
            if line.startswith("#") and " cov: " in line:
                parts = line.split()
                for a, b in zip(parts, parts[1:]):
                    if a in ("cov:", "ft:", "corp:"):
                        stats[a[:-1]] = b
        execs = int(stats.get("number_of_executed_units", "0") or 0)
        ctx.count("atheris_executions", execs)
        ctx.count("atheris_or_noted")
        ctx.count("atheris_runs_requested", runs)
        ctx.maxi("atheris_edge_coverage", int(stats.get("cov", "0") or 0))
        ctx.maxi("atheris_features", int(stats.get("ft", "0") or 0))
        ctx.seen("atheris_corpus", stats.get("corp", "?"))
        arts = sorted(os.listdir(adir))
        crashes = [a for a in arts if a.startswith("crash-")]
        for a in arts:
            if a not in crashes:  # slow-unit-/timeout-/oom-/leak-: resource reports, not exception-type verdicts
                ctx.count("atheris_resource_artifacts_ignored")
                ctx.seen("atheris_other_artifacts", a.split("-")[0])
        if p.returncode != 0 and not crashes:
            ctx.inconclusive("atheris exited %d without a crash artifact (shard %d): %s" % (p.returncode, ctx.shard, err[-300:]))
        elif crashes:
            ctx.count("atheris_crashes", max(1, len(crashes)))
            before = sum(v["count"] for v in ctx.violations.values())
            for name in crashes[:5]:
                with open(os.path.join(adir, name), "rb") as f:
                    data = f.read()
                mon.check(data, origin="atheris:" + name)
            if sum(v["count"] for v in ctx.violations.values()) == before:
                ctx.violation("atheris-crash-not-reproduced-by-monitor", "atheris reported a crash that monitor A's oracle does not reproduce",
                              {"returncode": p.returncode, "artifacts": crashes, "stderr_tail": err[-1500:]})
        elif execs < runs // 2:
            ctx.inconclusive("atheris executed %d of %d requested runs: %s" % (execs, runs, err[-300:]))
    finally:
        shutil.rmtree(tmp, ignore_errors=True)


# ---- driver ------------------------------------------------------------------------------------------------------------

def run(ctx):
    from twisted.logger import globalLogPublisher
    from twisted.names import dns

    RD.selftest()
    corpus = build_corpus(ctx, dns)
    mon = Monitor(ctx, dns)
    ctx.count("corpus_entries", len(corpus) if ctx.shard == 0 else 0)
    valid = set(corpus)
    globalLogPublisher.addObserver(mon.observer)
    try:
        with mon.budget:
            for k, c in enumerate(corpus):
                if ctx.owns(k) and mon.nonterm < 3:
                    ctx.evaluated()
                    ctx.distinct(c)
                    if has_cycle(c):
                        ctx.count("inputs_with_pointer_cycle")
                    mon.check(c, origin="corpus")
            run_chains(ctx, mon, dns)
            for i in ctx.cases(40000, 1500000):
                if mon.nonterm >= 3:
                    ctx.count("stopped_after_nontermination")
                    break
                rng = ctx.case_rng(i)
                data = mutate(rng, rng.choice(corpus), corpus)
                ctx.evaluated()
                if data not in valid:
                    ctx.distinct(data)
                    ctx.count("mutated_inputs")
                if has_cycle(data):
                    ctx.count("inputs_with_pointer_cycle")
                ctx.maxi("input_length", len(data))
                mon.check(data)
                if i < 3 * ctx.nshards:
                    ctx.sample({"case": i, "input": data[:160], "length": len(data)})
            ctx.maxi("dns_lines_covered", len(mon.budget.lines))
    finally:
        try:
            globalLogPublisher.removeObserver(mon.observer)
        except ValueError:
            pass
    if mon.nonterm:
        ctx.count("atheris_or_noted")  # skipped: part A already found a non-terminating input
        ctx.count("atheris_skipped_after_nontermination")
    else:
        run_atheris(ctx, mon_for_replay(ctx, dns, mon), corpus, ctx.size(100000, 4000000) // ctx.nshards)


def mon_for_replay(ctx, dns, mon):
    """The atheris crash re-check runs outside the `with budget` block: give it its own armed monitor."""
    class Armed:
        def check(self, data, origin):
            from twisted.logger import globalLogPublisher
            globalLogPublisher.addObserver(mon.observer)
            try:
                with mon.budget:
                    mon.check(data, origin)
            finally:
                globalLogPublisher.removeObserver(mon.observer)
    return Armed()


def replay(ctx, w):
    from twisted.names import dns

    data = bytes.fromhex(w["witness"]["input_hex"])
    mon = Monitor(ctx, dns)
    mon_for_replay(ctx, dns, mon).check(data, "replay")
