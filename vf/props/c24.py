"""C24 _newclient.Request.writeTo serialisation — bytes written vs. two independent request parsers.

Monitored: everything Request.writeTo() writes to the transport (and whether anything is written
before a refusal), the result of the Deferred it returns.  Oracle: the bytes must parse as exactly
one HTTP/1.1 request with the given method, target, header set and body
  * with a lenient line reader written here (request line, header lines, Content-Length /
    chunked framing decoded by a local RFC 9112 chunk reader), and
  * with h11 0.16 as the server side (Request, Data*, EndOfMessage, no trailing data),
framed with Content-Length: n (known length), chunked (unknown length), Content-Length: 0 for
PUT/POST without body, nothing otherwise.  A method that is not an RFC 9110 token, or a target with
a byte outside %x21-7E, must be refused (ValueError / failed Deferred) with zero bytes written, at
construction and — after mutating the attribute — at writeTo.

Also generated (same oracle): the Deferred returned by startProducing is unfired / already .called with its
chain waiting on another Deferred / fired and pause()d when handed over (pieces are still written afterwards,
the request must not be finished before the chain runs); the transport pauses the producer from inside its
own write(); the producer writes from inside resumeProducing(); one caller-owned Headers object serves two
requests; 2-8 KB targets, 60+ headers, 1..200-byte methods.

Guards: header names compare case-insensitively and order is free; values compare after trimming
OWS and, for values given with CR/LF (which Headers sanitises), after collapsing whitespace — the
requirement there is "no extra lines"; the generator only produces RFC-valid field values (VCHAR,
SP, HT, obs-text) plus CR/LF, never CTLs that h11 refuses although framing is unaffected; exactly
one Host header and no user-supplied Connection/Content-Length/Transfer-Encoding; producers that
lie about their length are outside the statement (observed, not judged).
"""
import re

LEVEL = "exploration"
ENGINE = "E2-netsim"
TECHNIQUE = "runtime monitoring: lenient line reader + h11 (server role) re-parse of the bytes written by Request.writeTo"
RULE = ("methods: random RFC 9110 tokens and common methods; targets: random %x21-7E strings and common forms; "
        "invalid variants insert every class of forbidden byte (CTL, SP, DEL, delimiters, >=0x80, empty); "
        "0-8 headers with token names and field values incl. obs-text, inner blanks, empty, CR/LF; body "
        "none / known length (sync or driven asynchronously with pause/resume) / unknown length (chunked), "
        "0..100 KiB in random write sizes incl. empty writes; persistent or not.  Distinct by (method, "
        "target, headers, body kind, body length, write sizes); non-trivial = has a body producer, or "
        "headers, or an invalid method/target.")
ASSUMPTIONS = ["trusted base: h11 0.16 (server role) and the lenient request reader + chunk reader in this module",
               "body producers are well-behaved IBodyProducer implementations written here (they honour pause/resume and write exactly their data)"]
SHARDS = {"quick": 4, "thorough": 16}
FLOORS = {"valid_requests_parsed": 2000, "h11_parsed": 2000, "bodies_content_length": 300, "bodies_chunked": 300,
          "async_bodies": 200, "pauses": 100, "invalid_refused_at_construction": 300, "invalid_refused_at_writeTo": 300,
          "headers_compared": 3000, "crlf_values_checked": 100, "deferred_kind_called-waiting": 150, "deferred_kind_fired-paused": 150,
          "deferred_kind_unfired": 150, "reentrant_pauses": 300, "writes_from_resumeProducing": 100, "reused_headers_requests": 200, "edge_cases": 100}
READY = True

TCHAR = b"!#$%&'*+-.^_`|~0123456789ABCDEFGHIJKLMNOPQRSTUVWXYZabcdefghijklmnopqrstuvwxyz"
COMMON_METHODS = [b"GET", b"POST", b"PUT", b"DELETE", b"HEAD", b"OPTIONS", b"PATCH", b"M-SEARCH", b"get", b"PROPFIND", b"X", b"!#$%&'*+-.^_`|~"]
COMMON_TARGETS = [b"/", b"*", b"/a/b/c?x=y&z=%20", b"http://example.com/p?q", b"/%E2%9C%93", b"example.com:443", b"/a#frag", b"/;p=1", b"/~user/[1]{2}|\\^`\"<>"]


def is_token(b):
    return len(b) > 0 and all(c in TCHAR for c in b)


def is_target(b):
    return len(b) > 0 and all(0x21 <= c <= 0x7E for c in b)


# ------------------------------------------------------------------------------------ generator
def gen_method(rng, valid):
    if valid:
        if rng.random() < 0.6:
            return rng.choice(COMMON_METHODS)
        return bytes(rng.choice(TCHAR) for _ in range(rng.randint(1, 12)))
    m = bytearray(rng.choice(COMMON_METHODS)) if rng.random() < 0.7 else bytearray(rng.choice(TCHAR) for _ in range(rng.randint(0, 6)))
    r = rng.random()
    if r < 0.08:
        return b""
    bad_pool = list(range(0, 33)) + [127] + list(b'"(),/:;<=>?@[\\]{}') + list(range(128, 256))
    for _ in range(1 if r < 0.8 else 2):
        m.insert(rng.randint(0, len(m)), rng.choice(bad_pool))
    return bytes(m)


def gen_target(rng, valid):
    if valid:
        if rng.random() < 0.5:
            return rng.choice(COMMON_TARGETS)
        return bytes(rng.randint(0x21, 0x7E) for _ in range(rng.randint(1, 60)))
    t = bytearray(rng.choice(COMMON_TARGETS)) if rng.random() < 0.7 else bytearray(rng.randint(0x21, 0x7E) for _ in range(rng.randint(0, 10)))
    r = rng.random()
    if r < 0.08:
        return b""
    bad_pool = list(range(0, 33)) + [127] + list(range(128, 256))
    extra = rng.choice([None, None, b"\r\nX-Injected: 1", b" HTTP/1.1\r\nHost: evil\r\n\r\nGET /", b"\n"])
    if extra is not None and r < 0.3:
        pos = rng.randint(0, len(t))
        t[pos:pos] = extra
    else:
        for _ in range(1 if r < 0.8 else 2):
            t.insert(rng.randint(0, len(t)), rng.choice(bad_pool))
    return bytes(t)


HDR_NAMES = [b"Accept", b"User-Agent", b"X-Custom", b"Cookie", b"Authorization", b"accept-encoding", b"X-UPPER", b"etag", b"Content-Type",
             b"content-md5", b"If-None-Match", b"x-a.b_c~d", b"TE", b"Range", b"Expect", b"Trailer", b"Upgrade", b"X-1"]
VAL_BYTES = bytes(range(0x21, 0x7F)) + b"  \t" + bytes([0x80, 0xA0, 0xE9, 0xFF])


def gen_value(rng):
    r = rng.random()
    if r < 0.05:
        return b""
    v = bytearray(rng.choice(VAL_BYTES) for _ in range(rng.randint(1, 40)))
    if r < 0.25:  # CR/LF inside: must be sanitised, never produce an extra line
        for _ in range(rng.randint(1, 2)):
            pos = rng.randint(0, len(v))
            v[pos:pos] = rng.choice([b"\r\n", b"\n", b"\r", b"\r\nX-Injected: 1", b"\r\n\r\nGET /evil HTTP/1.1\r\n", b"\n\tfolded"])
    elif r < 0.35:
        v = bytearray(b" ") + v + bytearray(b"\t ")
    return bytes(v)


def gen_headers(rng):
    hs = [(rng.choice([b"Host", b"host", b"HOST"]), rng.choice([b"example.com", b"example.com:8080", b"[::1]:80", b"h"]))]
    for _ in range(rng.choice([0, 0, 1, 2, 3, 5, 8])):
        name = rng.choice(HDR_NAMES) if rng.random() < 0.8 else bytes(rng.choice(TCHAR) for _ in range(rng.randint(1, 10)))
        if name.lower() in (b"host", b"connection", b"content-length", b"transfer-encoding"):
            continue
        hs.append((name, gen_value(rng)))
    rng.shuffle(hs)
    return hs


def gen_pieces(rng, n):
    """Split n bytes worth of indices into write sizes (some empty writes)."""
    sizes = []
    left = n
    mode = rng.random()
    empties = rng.random() < 0.12  # empty write() calls are rare in practice (compressors, filters) and rare here
    while left > 0:
        if mode < 0.3:
            k = rng.randint(1, 7)
        elif mode < 0.7:
            k = rng.randint(1, max(1, min(left, 4096)))
        else:
            k = left if rng.random() < 0.5 else rng.randint(1, left)
        k = min(k, left)
        sizes.append(k)
        left -= k
        if empties and rng.random() < 0.1:
            sizes.append(0)
        if len(sizes) > 200:
            sizes.append(left)
            left = 0
    if n == 0 and empties:
        sizes.append(0)
    return sizes


def gen_case(rng):
    kind = rng.random()
    valid_m = valid_t = True
    if kind < 0.10:
        valid_m = False
    elif kind < 0.20:
        valid_t = False
    body = rng.choice(["none", "none", "known-sync", "known-async", "unknown-sync", "unknown-async"])
    r = rng.random()
    n = 0 if r < 0.1 else rng.randint(1, 40) if r < 0.5 else rng.randint(41, 3000) if r < 0.9 else rng.randint(3000, 102400)
    case = {"method": gen_method(rng, valid_m), "target": gen_target(rng, valid_t), "headers": gen_headers(rng), "body": body,
            "persistent": rng.random() < 0.4, "mutate": rng.random() < 0.5, "body_seed": rng.randrange(1 << 30)}
    case["length"] = 0 if body == "none" else n
    case["pieces"] = [] if body == "none" else gen_pieces(rng, n)
    case["pause_at"] = sorted(rng.sample(range(len(case["pieces"]) + 1), min(len(case["pieces"]) + 1, rng.choice([0, 0, 1, 2])))) if "async" in body else []
    # how the Deferred returned by startProducing looks when it is handed over
    case["dkind"] = "plain" if body == "none" or rng.random() < 0.6 else rng.choice(["called-waiting", "fired-paused", "unfired"])
    # the transport pauses the producer from inside its own write() (buffer full) at these write() call numbers
    case["reentrant_pause"] = sorted(rng.sample(range(1, 25), rng.choice([1, 2]))) if body != "none" and rng.random() < 0.25 else []
    case["write_in_resume"] = "async" in body and rng.random() < 0.3
    case["reuse_headers"] = valid_m and valid_t and rng.random() < 0.1
    if valid_m and valid_t and rng.random() < 0.04:
        e = rng.randrange(3)
        if e == 0:
            case["target"] = b"/" + bytes(rng.randint(0x21, 0x7E) for _ in range(rng.choice([2000, 8000])))
        elif e == 1:
            case["headers"] = case["headers"] + [(b"X-H%d" % i, b"v%d" % i) for i in range(60)]
        else:
            case["method"] = bytes(rng.choice(TCHAR) for _ in range(rng.choice([1, 40, 200])))
        case["edge"] = ["long-target", "many-headers", "method-length"][e]
    return case


def body_bytes(seed, n):
    import random

    r = random.Random(seed)
    blk = bytes(r.randrange(256) for _ in range(min(n, 997)))
    if not blk:
        return b""
    # make chunk-looking content likely: CRLF, "0\r\n\r\n" inside the body must not confuse framing
    blk = blk[:len(blk) // 2] + b"\r\n0\r\n\r\n"[:max(0, min(7, len(blk) - len(blk) // 2))] + blk[len(blk) // 2 + 7:]
    return (blk * (n // len(blk) + 1))[:n]


# ------------------------------------------------------------------------- reference parsing
def read_chunked(b):
    """-> (payload, end_offset) or raises ValueError.  RFC 9112 7.1, strict."""
    pos = 0
    out = bytearray()
    while True:
        i = b.find(b"\r\n", pos)
        if i < 0:
            raise ValueError("chunk size line not terminated")
        line = b[pos:i]
        size_part = line.split(b";", 1)[0]
        if not re.match(rb"\A[0-9A-Fa-f]+\Z", size_part):
            raise ValueError("bad chunk size %r" % (line[:20],))
        size = int(size_part, 16)
        pos = i + 2
        if size == 0:
            while True:
                j = b.find(b"\r\n", pos)
                if j < 0:
                    raise ValueError("last chunk/trailers not terminated")
                if j == pos:
                    return bytes(out), j + 2
                pos = j + 2
        if len(b) < pos + size + 2:
            raise ValueError("chunk data truncated")
        out += b[pos:pos + size]
        if b[pos + size:pos + size + 2] != b"\r\n":
            raise ValueError("chunk data not followed by CRLF")
        pos += size + 2


def lenient_parse(raw):
    """-> dict(method, target, version, headers=[(name, value)], body, rest) or raises ValueError."""
    i = raw.find(b"\r\n\r\n")
    if i < 0:
        raise ValueError("no end of header block")
    head, rest = raw[:i], raw[i + 4:]
    lines = head.split(b"\r\n")
    parts = lines[0].split(b" ")
    if len(parts) != 3:
        raise ValueError("request line does not have three parts: %r" % (lines[0][:80],))
    headers = []
    for l in lines[1:]:
        if b":" not in l or l[:1] in b" \t":
            raise ValueError("bad header line %r" % (l[:80],))
        n, v = l.split(b":", 1)
        if b"\r" in l or b"\n" in l:
            raise ValueError("bare CR/LF inside a header line %r" % (l[:80],))
        headers.append((n, v.strip(b" \t")))
    te = [v for n, v in headers if n.lower() == b"transfer-encoding"]
    cl = [v for n, v in headers if n.lower() == b"content-length"]
    if te and cl:
        raise ValueError("both Transfer-Encoding and Content-Length")
    if te:
        if [v.lower() for v in te] != [b"chunked"]:
            raise ValueError("unexpected transfer-encoding %r" % (te,))
        body, end = read_chunked(rest)
        framing = "chunked"
    elif cl:
        if len(cl) != 1 or not cl[0].isdigit():
            raise ValueError("bad content-length %r" % (cl,))
        n = int(cl[0])
        if len(rest) < n:
            raise ValueError("body shorter than Content-Length")
        body, end = rest[:n], n
        framing = "content-length"
    else:
        body, end, framing = b"", 0, "none"
    return {"method": parts[0], "target": parts[1], "version": parts[2], "headers": headers, "body": body, "rest": rest[end:], "framing": framing}


def h11_parse(raw):
    import h11

    c = h11.Connection(h11.SERVER, max_incomplete_event_size=1 << 20)
    c.receive_data(raw)
    req = None
    body = bytearray()
    done = False
    for _ in range(100000):
        e = c.next_event()
        if e is h11.NEED_DATA or e is h11.PAUSED:
            break
        if isinstance(e, h11.Request):
            req = e
        elif isinstance(e, h11.Data):
            body += e.data
        elif isinstance(e, h11.EndOfMessage):
            done = True
            break
        else:
            raise ValueError("unexpected h11 event %r" % (e,))
    if req is None or not done:
        raise ValueError("h11: incomplete message (request=%s, end=%s)" % (req is not None, done))
    trailing = c.trailing_data[0]
    return {"method": req.method, "target": req.target, "version": b"HTTP/" + req.http_version,
            "headers": [(n, v) for n, v in req.headers.raw_items()], "body": bytes(body), "rest": bytes(trailing)}


_WS = re.compile(rb"[ \t\r\n]+")


def collapse(v):
    return _WS.sub(b" ", v).strip()


def match_headers(expected, parsed):
    """expected: [(lower name, given value)], parsed: [(name, value)].  Values given with CR/LF only have to
    match after collapsing whitespace (Headers replaces each line break by a blank); all others exactly
    (modulo surrounding OWS).  -> (unmatched expected, unmatched parsed)"""
    left = list(expected)
    extra = []
    for n, v in parsed:
        n = n.lower()
        for i, (en, ev) in enumerate(left):
            if en != n:
                continue
            if (collapse(ev) == collapse(v)) if (b"\r" in ev or b"\n" in ev) else (ev.strip(b" \t") == v.strip(b" \t")):
                del left[i]
                break
        else:
            extra.append((n, v))
    return left, extra


def expected_headers(case):
    exp = [(n.lower(), v) for n, v in case["headers"]]
    if not case["persistent"]:
        exp.append((b"connection", b"close"))
    body = case["body"]
    if body == "none":
        if case["method"] in (b"PUT", b"POST"):
            exp.append((b"content-length", b"0"))
    elif body.startswith("known"):
        exp.append((b"content-length", b"%d" % case["length"]))
    else:
        exp.append((b"transfer-encoding", b"chunked"))
    return exp


# -------------------------------------------------------------------------------------- harness
def make_producer(case, data):
    from twisted.internet.defer import Deferred, succeed
    from twisted.web.iweb import UNKNOWN_LENGTH, IBodyProducer
    from zope.interface import implementer

    @implementer(IBodyProducer)
    class Producer:
        def __init__(self):
            self.length = case["length"] if case["body"].startswith("known") else UNKNOWN_LENGTH
            self.paused = False
            self.stopped = False
            self.pause_calls = self.resume_calls = 0
            self.sync = case["body"].endswith("sync") and not case["body"].endswith("async")
            self.consumer = None
            self.ps = []
            pos = 0
            for k in case["pieces"]:
                self.ps.append(data[pos:pos + k])
                pos += k
            self.i = 0
            self.write_errors = []
            self.writes_in_resume = 0
            self._release = None

        def write_next(self):
            if self.i < len(self.ps):
                p = self.ps[self.i]
                self.i += 1
                try:
                    self.consumer.write(p)
                except Exception as e:
                    self.write_errors.append(type(e).__name__)

        def startProducing(self, consumer):
            self.consumer = consumer
            if self.sync:
                while self.i < len(self.ps):
                    self.write_next()
            kind = case.get("dkind", "plain")
            if kind == "plain":
                if self.sync:
                    self._release = lambda: None
                    return succeed(None)
                kind = "unfired"
            if kind == "unfired":
                d = Deferred()
                self._release = lambda: d.callback(None)
                return d
            if kind == "called-waiting":  # .called is True, but the chain waits on an unfired Deferred
                inner = Deferred()
                d = succeed(None)
                d.addCallback(lambda _: inner)
                self._release = lambda: inner.callback(None)
                return d
            d = succeed(None)  # fired, then paused
            d.pause()
            self._release = d.unpause
            return d

        def release(self):
            r, self._release = self._release, None
            if r is not None:
                r()

        def pauseProducing(self):
            self.paused = True
            self.pause_calls += 1

        def resumeProducing(self):
            self.paused = False
            self.resume_calls += 1
            if case.get("write_in_resume") and not self.sync and not self.stopped and self.i < len(self.ps):
                self.writes_in_resume += 1
                self.write_next()  # re-entrant: write() from inside resumeProducing()

        def stopProducing(self):
            self.stopped = True

    return Producer()


def make_transport(case):
    from vf.engines.netsim import SimTransport

    class ReentrantPauseTransport(SimTransport):
        """Pauses a registered streaming producer from inside write() — what a TCP transport does when its buffer fills."""

        nwrites = 0
        reentrant_pauses = 0

        def write(self, data):
            SimTransport.write(self, data)
            self.nwrites += 1
            if self.nwrites in self.pause_on and self.producer is not None and self.streaming and not self.producer_paused:
                self.reentrant_pauses += 1
                self.producer_paused = True
                self.producer.pauseProducing()

    t = ReentrantPauseTransport()
    t.pause_on = set(case.get("reentrant_pause") or ())
    return t


def execute(ctx, case):
    from twisted.web._newclient import Request
    from twisted.web.http_headers import Headers
    data = body_bytes(case["body_seed"], case["length"])
    hdrs = Headers()
    for n, v in case["headers"]:
        hdrs.addRawHeader(n, v)
    valid = is_token(case["method"]) and is_target(case["target"])
    t = make_transport(case)
    out = {"constructed": True, "error": None, "fired": None, "written": b"", "data": data}
    prod = None if case["body"] == "none" else make_producer(case, data)
    if not valid and not case["mutate"]:
        try:
            Request(case["method"], case["target"], hdrs, prod, persistent=case["persistent"])
        except ValueError as e:
            out["constructed"] = False
            out["error"] = "ValueError"
        except Exception as e:
            out["constructed"] = False
            out["error"] = type(e).__name__
        if not out["constructed"]:
            return out
        # accepted although invalid: go on, to show in the witness what gets written
        req = Request(case["method"], case["target"], hdrs, prod, persistent=case["persistent"])
    elif not valid:
        req = Request(b"GET", b"/", hdrs, prod, persistent=case["persistent"])
        req.method = case["method"]
        req.uri = case["target"]
    else:
        try:
            req = Request(case["method"], case["target"], hdrs, prod, persistent=case["persistent"])
        except Exception as e:
            out["error"] = "%s at construction: %s" % (type(e).__name__, str(e)[:80])
            return out
    result = []
    try:
        d = req.writeTo(t)
        d.addBoth(result.append)
    except Exception as e:
        out["error"] = type(e).__name__
        out["written"] = bytes(t.written)
        return out
    if prod is not None and not result:
        pauses = set(case["pause_at"])
        steps = 0
        while not prod.sync and prod.i < len(prod.ps) and not prod.stopped and steps < 2000:
            steps += 1
            if prod.i in pauses and t.producer is not None and not prod.paused:
                pauses.discard(prod.i)
                t.sim_pause_producer()
                ctx.count("pauses")
                if not prod.paused:
                    out["pause_not_forwarded"] = True
            if prod.paused:
                if not t.sim_resume_producer():
                    break
                continue  # (a write made from inside resumeProducing may have been paused again)
            prod.write_next()
        if prod.paused and t.producer is not None:
            t.sim_resume_producer()
        out["written_before_release"] = len(t.written)
        if not prod.stopped:
            prod.release()
    if prod is not None:
        out["write_errors"] = prod.write_errors
        ctx.count("reentrant_pauses", t.reentrant_pauses)
        ctx.count("writes_from_resumeProducing", prod.writes_in_resume)
    from twisted.python.failure import Failure

    if result:
        out["fired"] = "failure:" + result[0].type.__name__ if isinstance(result[0], Failure) else "ok"
        if isinstance(result[0], Failure):
            out["failure_text"] = result[0].getErrorMessage()[:200]
    out["written"] = bytes(t.written)
    out["producer_left_registered"] = t.producer is not None
    if valid and case.get("reuse_headers"):
        # the caller-owned Headers object serves a second request: it must still describe the same header set
        t2 = make_transport({})
        r2 = []
        Request(case["method"], case["target"], hdrs, None, persistent=case["persistent"]).writeTo(t2).addBoth(r2.append)
        out["second"] = {"constructed": True, "error": None, "fired": "ok" if r2 == [None] else repr(r2)[:80], "written": bytes(t2.written), "data": b""}
    return out


def check(ctx, case, out):
    valid_m, valid_t = is_token(case["method"]), is_target(case["target"])
    l1 = lambda b: b.decode("latin-1")
    wit = {"case": {k: v for k, v in case.items() if k != "pieces"}, "pieces_head": case["pieces"][:20], "n_pieces": len(case["pieces"]),
           "replay": {"method": l1(case["method"]), "target": l1(case["target"]), "headers": [[l1(n), l1(v)] for n, v in case["headers"]],
                      "body": case["body"], "length": case["length"], "pieces": case["pieces"], "pause_at": case["pause_at"],
                      "persistent": case["persistent"], "mutate": case["mutate"], "body_seed": case["body_seed"],
                      "dkind": case.get("dkind", "plain"), "reentrant_pause": case.get("reentrant_pause", []),
                      "write_in_resume": case.get("write_in_resume", False), "reuse_headers": case.get("reuse_headers", False)},
           "written_head": out["written"][:400], "written_length": len(out["written"]), "fired": out["fired"], "error": out["error"]}

    def bad(key, what, **kw):
        w = dict(wit)
        w.update(kw)
        ctx.violation(key, what, w)

    if not (valid_m and valid_t):
        which = "method" if not valid_m else "target"
        refused = out["error"] is not None or (out["fired"] or "").startswith("failure")
        if out["written"]:
            return bad("invalid-%s-bytes-written" % which, "bytes were written for a request with an invalid %s" % which)
        if not refused:
            return bad("invalid-%s-accepted" % which, "an invalid %s was not refused" % which)
        ctx.seen("refusal_types", out["error"] or out["fired"])
        ctx.count("invalid_refused_at_writeTo" if case["mutate"] else "invalid_refused_at_construction")
        return
    if out["error"] is not None:
        return bad("valid-request-refused", "writeTo/constructor raised for a valid request")
    if out.get("write_errors"):
        return bad("producer-write-refused", "a write() of a well-behaved body producer (before its Deferred's chain had run) raised %s" % out["write_errors"][0],
                   dkind=case.get("dkind"))
    if out["fired"] != "ok":
        return bad("writeto-deferred-not-ok", "the writeTo Deferred did not fire with success for a well-behaved body", failure_text=out.get("failure_text"))
    raw = out["written"]
    exp_headers = expected_headers(case)
    exp_body = out["data"]
    parsed = {}
    for name, fn in (("lenient", lenient_parse), ("h11", h11_parse)):
        try:
            parsed[name] = fn(raw)
        except Exception as e:
            return bad("%s-rejects-request" % name, "the %s parser does not accept the bytes as one complete request: %s" % (name, str(e)[:200]))
    ctx.count("valid_requests_parsed")
    ctx.count("h11_parsed")
    for name, p in parsed.items():
        if p["method"] != case["method"] or p["target"] != case["target"]:
            return bad("request-line-mismatch", "%s: method/target differ from the request's" % name, parsed_method=p["method"], parsed_target=p["target"])
        if p["version"] != b"HTTP/1.1":
            return bad("request-line-mismatch", "%s: version is not HTTP/1.1" % name, version=p["version"])
        missing, extra = match_headers(exp_headers, p["headers"])
        if missing or extra:
            crlf_values = [v for _, v in case["headers"] if b"\r" in v or b"\n" in v]
            injected = [n for n, _ in extra if any(n.lower() in v.lower() for v in crlf_values) and n.lower() not in [en for en, _ in exp_headers]]
            key = "header-injection" if injected else "headers-mismatch"
            return bad(key, "%s: parsed header set differs from the given headers + Connection/framing" % name, extra=extra[:5], missing=missing[:5])
        ctx.count("headers_compared", len(p["headers"]))
        if case["body"].startswith("unknown") and 0 in case["pieces"] and (p["body"] != exp_body or p["rest"]):
            cut = sum(case["pieces"][:case["pieces"].index(0)])
            if p["body"] == exp_body[:cut] and p["rest"]:
                return bad("chunked-empty-write-terminates-body",
                           "an empty write() by a body producer of unknown length is encoded as the terminating zero-length chunk: "
                           "the request body ends there and the remaining chunks follow the request as garbage",
                           parser=name, parsed_length=len(p["body"]), expected_length=len(exp_body), first_empty_write_at_byte=cut, rest_head=p["rest"][:60])
        if p["body"] != exp_body:
            return bad("body-mismatch", "%s: parsed body differs from the bytes the producer wrote" % name, parsed_length=len(p["body"]), expected_length=len(exp_body))
        if p["rest"]:
            return bad("trailing-bytes", "%s: bytes after the end of the request" % name, rest=p["rest"][:100])
    if any(b"\r" in v or b"\n" in v for _, v in case["headers"]):
        ctx.count("crlf_values_checked")
    fr = parsed["lenient"]["framing"]
    want = "none" if (case["body"] == "none" and case["method"] not in (b"PUT", b"POST")) else "chunked" if case["body"].startswith("unknown") else "content-length"
    if fr != want:
        return bad("framing-mismatch", "framing is %s, expected %s" % (fr, want))
    if case["body"].startswith("known"):
        ctx.count("bodies_content_length")
    elif case["body"].startswith("unknown"):
        ctx.count("bodies_chunked")
    if "async" in case["body"]:
        ctx.count("async_bodies")
    if case.get("dkind", "plain") != "plain":
        ctx.count("deferred_kind_" + case["dkind"])
    if case.get("edge"):
        ctx.count("edge_cases")
    if out.get("second") is not None:
        ctx.count("reused_headers_requests")
        check(ctx, dict(case, body="none", length=0, pieces=[], pause_at=[], reuse_headers=False, dkind="plain", edge=None), out["second"])
    ctx.count("body_bytes_compared", len(exp_body))
    if out.get("pause_not_forwarded"):
        ctx.count("pause_not_forwarded")


def run_case(ctx, case, sample=False):
    out = execute(ctx, case)
    ctx.evaluated()
    if case["body"] != "none" or len(case["headers"]) > 1 or not (is_token(case["method"]) and is_target(case["target"])):
        ctx.distinct((case["method"], case["target"], tuple(case["headers"]), case["body"], case["length"], tuple(case["pieces"][:50]), case["mutate"], case["persistent"]))
    check(ctx, case, out)
    if sample:
        ctx.sample({"method": case["method"], "target": case["target"], "headers": case["headers"], "body": case["body"], "length": case["length"],
                    "written_head": out["written"][:300], "fired": out["fired"], "error": out["error"]})


def run(ctx):
    # self-test of the local readers
    assert read_chunked(b"3\r\nabc\r\n0\r\n\r\n") == (b"abc", 13)
    assert read_chunked(b"1;x=y\r\na\r\n0\r\nT: v\r\n\r\nrest") == (b"a", 21)
    for b in (b"3\r\nab", b"3\r\nabcXX0\r\n\r\n", b"g\r\n", b"0\r\n"):
        try:
            read_chunked(b)
            raise AssertionError(b)
        except ValueError:
            pass
    p = lenient_parse(b"POST /x HTTP/1.1\r\nHost: h\r\nContent-Length: 2\r\n\r\nabX")
    assert (p["method"], p["target"], p["body"], p["rest"]) == (b"POST", b"/x", b"ab", b"X")
    # directed: every single forbidden byte in method and target
    k = 0
    for c in range(256):
        for field in ("method", "target"):
            for mutate in (False, True):
                k += 1
                if not ctx.owns(k):
                    continue
                case = {"method": b"GET", "target": b"/p", "headers": [(b"Host", b"h")], "body": "none", "persistent": False, "mutate": mutate,
                        "body_seed": 0, "length": 0, "pieces": [], "pause_at": []}
                case[field] = case[field][:1] + bytes([c]) + case[field][1:]
                run_case(ctx, case)
    for i in ctx.cases(20000, 1000000):
        run_case(ctx, gen_case(ctx.case_rng(i)), sample=i < 2 * ctx.nshards)


def replay(ctx, w):
    c = dict(w["witness"]["replay"])
    e = lambda x: x.encode("latin-1")
    c["method"], c["target"] = e(c["method"]), e(c["target"])
    c["headers"] = [(e(n), e(v)) for n, v in c["headers"]]
    run_case(ctx, c, sample=True)
