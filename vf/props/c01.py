"""C01 Deferred callback chains compute what a sequential interpreter predicts.

Monitor: small programs (add callbacks / pause / unpause / fire, callbacks that return values,
raise, return Failures, pass their input through or return another Deferred) are executed twice:
first on `Model`, a recursive reference interpreter of the *documented* chaining rules that shares
no code with defer.py (it does not even import twisted), then on real `Deferred`s.  Every user
callback invocation is logged at the API boundary as (callback name, input) with unique ids on all
values/exceptions; after EVERY operation (each program prefix is itself a program) the real trace
and, per Deferred, `called`, `paused`, the current result and the ids of the user callbacks still
queued must equal the model's.  "At most once" and "in the order added" are also checked directly
on the real trace.

Oracle rules (Model): a callback's return value is the next input; raise / returned Failure
switches to the errback side; a missing side passes the result through; a returned Deferred that
has a result and is neither paused nor waiting hands its result over (and keeps None); otherwise
the outer Deferred is paused and a continuation is appended to the inner one; when the inner one
reaches the continuation it hands its result over (keeps None), un-pauses the outer one, which
runs *nested* (recursion), and then goes on with its own remaining callbacks.

Re-entrant family: callbacks may also ACT while they run - add a callback pair to their own (running)
Deferred (explicitly supported: the loop picks it up after the current callback returns) or to another
Deferred, pause / unpause / fire another Deferred (nested run, recursion on both sides); firing an
already fired Deferred - from a callback or from the top level - must raise AlreadyCalledError and
change nothing; `chainDeferred(e)` is the documented pair (e.callback, e.errback) whose result is
None, or a Failure(AlreadyCalledError) if e has already fired.  Guards for actions (decided on the
model run, replayed on the real run): an action may touch the running Deferred itself only with
addCallbacks, and other Deferreds only if they are not in the middle of their own chain at that
moment (the recursive and the iterative reading order the remaining callbacks differently there),
with one exception: a Deferred SUSPENDED in the chain stack below the running one (it handed its
result to a waiter, which is being dealt with, and may have callbacks left) may be paused - a paused
Deferred runs no callbacks until unpaused, and that is checked every time the loop returns to it -
and, as long as it stays paused (so that nothing can run at once), may be given callbacks or an
unpause that leaves it paused.  Unpausing it to zero or adding to it while un-paused stays unjudged.
Unpause without a matching program pause is skipped; pausing a Deferred from inside one of its own
callbacks is skipped (the docs do not say whether the rest of the current run stops).

Guards (documented misuse or undocumented corners, decided on the model run and replayed
identically on the real run by substituting a plain value for the returned Deferred):
  * a callback returning its own Deferred (never generated);
  * wait-cycles: the returned Deferred already waits, transitively, on the current one;
  * re-entrant returns of a Deferred that is at that moment EXECUTING one of its own callbacks -
    the docs do not say whether the waiter gets its momentary or its final result.  (A returned
    Deferred that is merely suspended in the chain stack - it has handed its result over and may
    have callbacks left - is judged: it has a result, so unless it is paused the result (None) is
    taken at once, whatever it still has queued; if paused, the returner waits behind the queue.)
  * unpause below the number of user pauses and double firing (C03) are never generated;
  * failures are compared by exception id, never by traceback; unhandled-error logging at GC is
    ignored.
A block of fresh random programs of every family also runs under defer.setDebugging(True) (the
statement does not depend on the flag; it is process-global and restored afterwards).

Classification: a divergence is keyed `paused-chainee-strands-inner-callbacks` only when, in the
operation where it first shows, the model handed a result to a Deferred that stayed paused (user
pause), the real events of that operation are a prefix of the model's, every missing event was
produced by work the model did *after and below* that hand-over, and every Deferred whose state
differs was touched only by such work.  Anything else is `trace-mismatch` / `state-mismatch` /
`callback-ran-twice` / `callback-order` / `unexpected-exception`.
"""
import gc
import os

LEVEL = "exploration"
ENGINE = "core"
TECHNIQUE = "runtime monitoring: recursive reference interpreter of the documented chaining rules, compared after every operation"
RULE = ("bounded-exhaustive: every canonical program (Deferreds named in order of first mention, last "
        "operation one that can run callbacks) over the success-only alphabet {addCallback(value | "
        "return d_j), pause, unpause, callback} and over the reduced full alphabet {addCallback/"
        "addErrback/addBoth x (value | Failure | return d_j), pause, unpause, callback, errback} up "
        "to the sizes in coverage.spaces; random: programs over 2..6 Deferreds and 6..22 operations "
        "from addCallback/addErrback/addBoth/addCallbacks x {value, raise, return Failure, pass "
        "through, return d_j}, pause/unpause, callback/errback anywhere, half of them followed by "
        "firing/unpausing everything in random order; re-entrant family (alphabets R and P - callbacks pausing / unpausing another, possibly suspended, "
        "Deferred - exhaustive + random over 2..5 "
        "Deferreds, 5..14 operations): callbacks that additionally add callbacks to their own running Deferred or to "
        "another one, pause/unpause/fire another Deferred (up to two levels of callbacks added by callbacks), "
        "chainDeferred, firing already fired Deferreds.  A case is one program; it is distinct by its "
        "operation list and counted as non-trivial only if at least one callback really returned a "
        "Deferred (waited on or result taken), or a re-entrant action ran a nested chain / added to the running "
        "Deferred / a chainDeferred pair fired, in the model run.")
ASSUMPTIONS = [
    "trusted base: the ~110-line recursive Model in this module is the oracle of the documented chaining rules",
    "re-entrant actions of callbacks are limited to the running Deferred (addCallbacks only), to Deferreds not in the middle of their own chain, and to pausing (or touching while paused) a Deferred suspended in the chain stack; cancel() is C03's",
    "returns of a Deferred that is its own, already waits on the current one, or is on the interpreter's stack are replaced by plain values (documented misuse / undocumented corner)",
    "remaining callbacks are read from Deferred.callbacks (ids of user callbacks only; continuation entries are ignored)",
]
SHARDS = {"quick": 4, "thorough": 16}
FLOORS = {"ops_compared": 20000, "callback_events_compared": 10000, "chain_waits": 2000, "chain_result_taken": 1000,
          "handovers": 1000, "errback_side_runs": 1000, "substituted_returns": 20, "exhaustive_programs": 100000,
          "random_programs": 5000, "model_handover_to_paused": 200,
          "reentrant_random_programs": 5000, "re_act_add_own": 5000, "re_act_add_other": 2000, "re_act_nested_runs": 3000,
          "re_act_ace": 3000, "re_act_pause": 1000, "re_chain_fired": 3000, "re_chain_ace": 3000, "re_top_ace": 5000,
          "re_act_suspended_pause": 2000, "re_act_suspended_add": 200, "re_act_suspended_unpause": 50,
          "reentrant_suspended_programs": 2000, "programs_with_debugging_on": 2000,
          "suspended_return_result_taken": 3000, "suspended_return_taken_with_callbacks_queued": 1000,
          "suspended_paused_return_waited_on": 100}
READY = True

KEY_STRAND = "paused-chainee-strands-inner-callbacks"
NORES = "NORESULT"


# ------------------------------------------------------------------------------------------------
# reference interpreter (no twisted)
# ------------------------------------------------------------------------------------------------
class _MD:
    __slots__ = ("i", "called", "paused", "result", "cbs", "inchain", "upause", "incb")

    def __init__(self, i):
        self.i = i
        self.called = False
        self.paused = 0
        self.result = NORES
        self.cbs = []  # ("cont", outer index) | (pid, cspec, espec); spec = None | (name, behaviour)
        self.inchain = 0
        self.upause = 0  # pauses made by the program (not by waiting)
        self.incb = False  # executing one of its callbacks right now (as opposed to: suspended in the
        #                    chain stack while a Deferred it handed its result to is being dealt with)


def _isfail(r):
    return type(r) is tuple and r[0] == "F"


def _isdef(r):
    return type(r) is tuple and r[0] == "D"


class Model:
    def __init__(self, nd):
        self.ds = [_MD(i) for i in range(nd)]
        self.trace = []      # (name, input)
        self.flags = []      # per event: produced after/below a hand-over to a still paused Deferred
        self.subs = {}       # callback name -> substituted plain value id
        self.stack = []      # activations [deferred, stranded]
        self.touch = set()   # Deferreds touched by stranded work in the current operation
        self.paused_handovers = 0
        self.skips = set()   # callback names whose re-entrant action is not performed (guards)
        self.st = {"waits": 0, "taken": 0, "handovers": 0, "eb_runs": 0, "sub_cycle": 0, "sub_inchain": 0, "depth": 0,
                   "act_add_own": 0, "act_add_other": 0, "act_pause": 0, "act_unpause": 0, "act_fire": 0, "act_ace": 0,
                   "act_skipped": 0, "act_nested_runs": 0, "act_suspended_pause": 0, "act_suspended_add": 0,
                   "act_suspended_unpause": 0, "taken_suspended": 0, "taken_suspended_with_queue": 0, "waits_suspended": 0, "chain_fired": 0, "chain_ace": 0, "top_ace": 0, "top_skipped": 0}

    # -- top-level operations -----------------------------------------------------------------
    def op(self, o):
        """Returns None, "ACE" (the call must raise AlreadyCalledError and change nothing) or "skip"
        (an unpause without a matching program pause: not performed on either side)."""
        self.touch = set()
        self.paused_handovers = 0
        k, d = o[0], self.ds[o[1]]
        if k == "add":
            self.do_add(d, o[5], False)
        elif k == "chain":
            self.do_add(d, (None, ("chain", o[2]), ("chain", o[2])), False)
        elif k == "pause":
            d.paused += 1
            d.upause += 1
        elif k == "unpause":
            if not d.upause:
                self.st["top_skipped"] += 1
                return "skip"
            self.do_unpause(d, False)
        else:
            if d.called:
                self.st["top_ace"] += 1
                return "ACE"
            self.do_fire(d, o[2], o[3], False)
        return None

    def do_add(self, d, item, stranded):
        d.cbs.append(item)
        if d.called:
            self.run(d, stranded)

    def do_unpause(self, d, stranded):
        d.paused -= 1
        d.upause -= 1
        if not d.paused and d.called:
            self.run(d, stranded)

    def do_fire(self, d, kind, vid, stranded):
        d.called = True
        d.result = ("V", vid) if kind == "v" else ("F", vid)
        self.run(d, stranded)

    def act(self, d, name, a, stranded):
        """A re-entrant action performed by the callback `name` running on d.  Guards: only the
        running Deferred itself (addCallbacks) or Deferreds that are not in the middle of their own
        chain may be touched; firing an already fired Deferred is always allowed (must raise)."""
        k, t = a[0], self.ds[a[1]]
        if k == "fire":
            if t.called:
                self.trace.append((name + "!", "ACE"))
                self.flags.append(stranded)
                self.st["act_ace"] += 1
            else:
                self.st["act_fire"] += 1
                self.st["act_nested_runs"] += 1
                self.do_fire(t, a[2], a[3], stranded)
            return
        if k == "add" and t is d:
            self.st["act_add_own"] += 1
            d.cbs.append(a[3])
            return
        if t.inchain and not t.incb:
            # t is suspended in the chain stack below the running Deferred (it handed its result to a
            # waiter and may have callbacks left).  pause() is well defined: a paused Deferred runs no
            # callbacks until unpaused, checked when the loop returns to it.  addCallbacks / unpause are
            # judged only while t stays paused (then nothing can run now); otherwise the docs do not say
            # whether t's remaining callbacks run at once or when the loop returns to t.
            ok = (k == "pause" or (k == "add" and t.paused > 0) or (k == "unpause" and t.upause and t.paused > 1))
            if not ok:
                self.skips.add(name)
                self.st["act_skipped"] += 1
                return
            self.st["act_suspended_" + k] += 1
            if stranded:
                self.touch.add(t.i)
        elif t.inchain or (k == "unpause" and not t.upause):
            self.skips.add(name)
            self.st["act_skipped"] += 1
            return
        if k == "add":
            self.st["act_add_other"] += 1
            if t.called and not t.paused:
                self.st["act_nested_runs"] += 1
            self.do_add(t, a[3], stranded)
        elif k == "pause":
            self.st["act_pause"] += 1
            t.paused += 1
            t.upause += 1
        else:
            self.st["act_unpause"] += 1
            self.do_unpause(t, stranded)

    def waits_on(self, r, d):
        seen = 0
        while _isdef(r.result) and seen < 64:
            r = self.ds[r.result[1]]
            if r is d:
                return True
            seen += 1
        return False

    def run(self, d, stranded):
        if not d.called or d.paused or d.inchain:
            return
        act = [d, stranded]
        self.stack.append(act)
        self.st["depth"] = max(self.st["depth"], len(self.stack))
        d.inchain += 1
        while d.cbs and not d.paused:
            item = d.cbs.pop(0)
            if item[0] == "cont":
                o = self.ds[item[1]]
                o.result = d.result
                d.result = None
                o.paused -= 1
                self.st["handovers"] += 1
                if act[1]:
                    self.touch.add(d.i)
                    self.touch.add(o.i)
                if o.paused:
                    # the waiter stays paused (user pause); everything the interpreter still does
                    # in this operation happens after/below this hand-over
                    self.paused_handovers += 1
                    for a in self.stack:
                        a[1] = True
                else:
                    self.run(o, act[1])
                continue
            if act[1]:
                self.touch.add(d.i)
            spec = item[2] if _isfail(d.result) else item[1]
            if spec is None:
                continue
            if spec[0] == "chain":
                # chainDeferred: the pair (e.callback, e.errback); both return None
                e = self.ds[spec[1]]
                if e.called:
                    self.st["chain_ace"] += 1
                    d.result = ("F", "ACE")
                else:
                    self.st["chain_fired"] += 1
                    e.called = True
                    e.result = d.result
                    if act[1]:
                        self.touch.add(e.i)
                    d.incb = True   # the pair is an ordinary callback of d
                    self.run(e, act[1])
                    d.incb = False
                    d.result = None
                continue
            name, beh, reent = spec
            self.trace.append((name, d.result))
            self.flags.append(act[1])
            if _isfail(d.result):
                self.st["eb_runs"] += 1
            if reent is not None:
                inp = d.result
                d.incb = True
                self.act(d, name, reent, act[1])
                d.incb = False
                d.result = inp
            if beh == "val":
                d.result = ("V", name)
            elif beh == "raise" or beh == "fail":
                d.result = ("F", name)
            elif beh == "pass":
                pass
            else:
                r = self.ds[beh[1]]
                if r is d or (r.inchain and r.incb) or self.waits_on(r, d):
                    self.st["sub_inchain" if r.inchain else "sub_cycle"] += 1
                    self.subs[name] = name + "s"
                    d.result = ("V", name + "s")
                elif r.called and not r.paused and not _isdef(r.result):
                    # also when r is suspended in the chain stack with callbacks left: "if a Deferred
                    # with a result is encountered, that result is taken and the loop proceeds"
                    d.result = r.result
                    r.result = None
                    self.st["taken"] += 1
                    if r.inchain:
                        self.st["taken_suspended"] += 1
                        if r.cbs:
                            self.st["taken_suspended_with_queue"] += 1
                    if act[1]:
                        self.touch.add(r.i)
                else:
                    d.result = ("D", r.i)
                    d.paused += 1
                    r.cbs.append(("cont", d.i))
                    self.st["waits"] += 1
                    if r.inchain:
                        self.st["waits_suspended"] += 1
                    if act[1]:
                        self.touch.add(r.i)
        d.inchain -= 1
        self.stack.pop()

    def snap(self):
        return [(d.called, d.paused, d.result, tuple(it[0] for it in d.cbs if it[0] not in ("cont", None))) for d in self.ds]


# ------------------------------------------------------------------------------------------------
# programs
# ------------------------------------------------------------------------------------------------
def _tup(x):
    return tuple(_tup(y) for y in x) if isinstance(x, (list, tuple)) else x


def _spec(name, b, pid_of, pid):
    """behaviour b = plain | ("do", plain, action); action = ("add", t, kind, bc, be) | ("pause", t) |
    ("unpause", t) | ("fire", t, "v"|"e").  Returns (name, plain, prepared action | None)."""
    pid_of[name] = pid
    if isinstance(b, tuple) and b[0] == "do":
        a = b[2]
        if a[0] == "add":
            a = ("add", a[1], a[2], _item(name + "/a", a[2], a[3], a[4], pid_of))
        elif a[0] == "fire":
            a = ("fire", a[1], a[2], name + "/f")
        return (name, b[1], a)
    return (name, b, None)


def _item(pid, kind, bc, be, pid_of):
    if kind == "cb":
        return (pid, _spec(pid, bc, pid_of, pid), None)
    if kind == "eb":
        return (pid, None, _spec(pid, be, pid_of, pid))
    if kind == "both":
        sp = _spec(pid, bc, pid_of, pid)
        return (pid, sp, sp)
    return (pid, _spec(pid + ".c", bc, pid_of, pid), _spec(pid + ".e", be, pid_of, pid))


def prepare(nd, ops):
    """Attach ids: returns (internal ops, callback name -> pair id)
    add: ("add", d, kind, behc, behe, item) with item = (pid, cspec, espec), spec = (name, behaviour, action);
    fire: ("fire", d, "v"|"e", id); chain: ("chain", d, e)."""
    out = []
    pid_of = {}
    for n, o in enumerate(ops):
        o = _tup(o)
        if o[0] == "add":
            _, d, kind, bc, be = o
            out.append(("add", d, kind, bc, be, _item("c%d" % n, kind, bc, be, pid_of)))
        elif o[0] == "fire":
            out.append(("fire", o[1], o[2], "f%d" % n))
        elif o[0] == "chain":
            out.append(("chain", o[1], o[2]))
        else:
            out.append((o[0], o[1]))
    return out, pid_of


class _Real:
    """The same program on real Deferreds; observations only."""

    def __init__(self, nd, subs, skips=()):
        from twisted.internet.defer import AlreadyCalledError, Deferred
        from twisted.python.failure import Failure

        self.ACE = AlreadyCalledError
        self.skips = skips
        self.add_order = {}   # pair id -> (deferred index, position among the adds to that Deferred)
        self.nadds = [0] * nd
        self.Failure = Failure
        self.Deferred = Deferred
        self.ds = [Deferred() for _ in range(nd)]
        self.idx = {id(d): i for i, d in enumerate(self.ds)}
        self.subs = subs
        self.trace = []

    def rr(self, x):
        if x is None:
            return None
        if type(x) is _V:
            return ("V", x.k)
        if isinstance(x, self.Failure):
            v = x.value
            if type(v) is _E:
                return ("F", v.k)
            return ("F", "ACE") if type(v) is self.ACE else ("F?", repr(v)[:80])
        if isinstance(x, self.Deferred):
            return ("D", self.idx.get(id(x), "?"))
        if x is NORES:
            return NORES
        return ("?", repr(x)[:80])

    def mk(self, pid, name, beh, reent=None):
        trace, rr, subs, ds, Failure = self.trace, self.rr, self.subs, self.ds, self.Failure

        def f(x):
            trace.append((name, rr(x)))
            if reent is not None and name not in self.skips:
                k, t = reent[0], ds[reent[1]]
                if k == "add":
                    self.add(reent[1], reent[2], reent[3])
                elif k == "pause":
                    t.pause()
                elif k == "unpause":
                    t.unpause()
                else:
                    try:
                        if reent[2] == "v":
                            t.callback(_V(reent[3]))
                        else:
                            t.errback(_E(reent[3]))
                    except self.ACE:
                        trace.append((name + "!", "ACE"))
            if name in subs:
                return _V(subs[name])
            if beh == "val":
                return _V(name)
            if beh == "raise":
                raise _E(name)
            if beh == "fail":
                return Failure(_E(name))
            if beh == "pass":
                return x
            return ds[beh[1]]

        f._vf_pid = pid
        return f

    def add(self, di, kind, item):
        d = self.ds[di]
        pid, cs, es = item
        self.add_order[pid] = (di, self.nadds[di])
        self.nadds[di] += 1
        if kind == "cb":
            d.addCallback(self.mk(pid, *cs))
        elif kind == "eb":
            d.addErrback(self.mk(pid, *es))
        elif kind == "both":
            d.addBoth(self.mk(pid, *cs))
        else:
            d.addCallbacks(self.mk(pid, *cs), self.mk(pid, *es))

    def op(self, o):
        k, d = o[0], self.ds[o[1]]
        if k == "add":
            self.add(o[1], o[2], o[5])
        elif k == "chain":
            d.chainDeferred(self.ds[o[2]])
        elif k == "pause":
            d.pause()
        elif k == "unpause":
            d.unpause()
        elif o[2] == "v":
            d.callback(_V(o[3]))
        else:
            d.errback(_E(o[3]))

    def snap(self):
        out = []
        for d in self.ds:
            rest = []
            for it in d.callbacks:
                p = getattr(it[0][0], "_vf_pid", None) or getattr(it[1][0], "_vf_pid", None)
                if p is not None:
                    rest.append(p)
            out.append((d.called, d.paused, self.rr(getattr(d, "result", NORES)), tuple(rest)))
        return out


class _V:
    __slots__ = ("k",)

    def __init__(self, k):
        self.k = k

    def __repr__(self):
        return "V(%s)" % self.k


class _E(Exception):
    def __init__(self, k):
        Exception.__init__(self, k)
        self.k = k


def check_program(ctx, nd, ops, origin):
    """Run one program on model and real; report at most one violation.  Returns model stats."""
    prog, pid_of = prepare(nd, ops)
    m = Model(nd)
    msnaps, mlens, mtouch, mph, mexp = [], [], [], [], []
    for o in prog:
        mexp.append(m.op(o))
        msnaps.append(m.snap())
        mlens.append(len(m.trace))
        mtouch.append(m.touch)
        mph.append(m.paused_handovers)
    st = m.st
    real = _Real(nd, m.subs, m.skips)
    ctx.evaluated()
    ctx.count("callback_events_compared", len(m.trace))
    ctx.count("chain_waits", st["waits"])
    ctx.count("chain_result_taken", st["taken"])
    ctx.count("handovers", st["handovers"])
    ctx.count("errback_side_runs", st["eb_runs"])
    ctx.count("substituted_returns", len(m.subs))
    ctx.count("substituted_wait_cycle", st["sub_cycle"])
    ctx.count("substituted_reentrant", st["sub_inchain"])
    ctx.count("model_handover_to_paused", sum(mph))
    ctx.maxi("model_nesting_depth", st["depth"])
    if st["taken_suspended"]:
        ctx.count("suspended_return_result_taken", st["taken_suspended"])
        ctx.count("suspended_return_taken_with_callbacks_queued", st["taken_suspended_with_queue"])
    if st["waits_suspended"]:
        ctx.count("suspended_paused_return_waited_on", st["waits_suspended"])
    if origin[0] == "r" and origin[1] == "e":  # the re-entrant family
        for k in ("act_add_own", "act_add_other", "act_pause", "act_unpause", "act_fire", "act_ace", "act_skipped",
                  "act_nested_runs", "chain_fired", "chain_ace", "top_ace", "top_skipped", "act_suspended_pause",
                  "act_suspended_add", "act_suspended_unpause"):
            if st[k]:
                ctx.count("re_" + k, st[k])
    if st["waits"] or st["taken"] or st["act_nested_runs"] or st["act_add_own"] or st["chain_fired"]:
        ctx.count("nontrivial_programs")
        # enumerated programs are distinct by construction; only the first 30000 per shard are also
        # hashed into the distinct set (16 shards x millions of hashes would not fit the parent)
        if "exhaustive" not in origin or ctx.counters["nontrivial_programs"] <= 30000:
            ctx.distinct((nd, ops))

    def witness(t, **kw):
        w = {"nd": nd, "ops": ops, "origin": origin, "debugging": "debugging-on" in origin, "diverged_at_op": t, "op": ops[t] if t is not None else None,
             "substituted": m.subs, "model_trace": m.trace, "real_trace": list(real.trace)}
        w.update(kw)
        return w

    prev = 0
    for t, o in enumerate(prog):
        raised = None
        try:
            if mexp[t] != "skip":
                real.op(o)
        except BaseException as e:  # noqa: B036 - anything escaping an API call is a finding
            if isinstance(e, (KeyboardInterrupt, SystemExit)):
                raise
            raised = e
        if (mexp[t] == "ACE") != isinstance(raised, real.ACE) or (raised is not None and not isinstance(raised, real.ACE)):
            if mexp[t] == "ACE" and raised is None:
                ctx.violation("second-result-accepted", "callback/errback on an already fired Deferred did not raise AlreadyCalledError",
                              witness(t))
            else:
                ctx.violation("unexpected-exception", "an operation on a Deferred raised %s" % type(raised).__name__,
                              witness(t, exception=repr(raised)[:300]))
            return st
        ctx.count("ops_compared")
        rtr = real.trace
        mev = m.trace[prev:mlens[t]]
        rev = rtr[prev:]
        rsnap = real.snap()
        if rev == mev and rsnap == msnaps[t]:
            prev = mlens[t]
            continue
        # ---- divergence: direct statement checks first, then classification
        pids = [pid_of.get(n, n) for n, _ in rtr if not n.endswith("!")]
        if len(set(pids)) != len(pids):
            ctx.violation("callback-ran-twice", "a callback pair ran more than once", witness(t))
            return st
        last = {}
        for p in pids:
            dno, n = real.add_order.get(p, (None, 0))
            if last.get(dno, -1) > n:
                ctx.violation("callback-order", "callbacks of one Deferred ran out of the order they were added", witness(t))
                return st
            last[dno] = n
        diff = [i for i in range(nd) if rsnap[i] != msnaps[t][i]]
        missing_flags = m.flags[prev + len(rev):mlens[t]]
        if (mph[t] > 0 and rev == mev[:len(rev)] and all(missing_flags) and all(i in mtouch[t] for i in diff)
                and (missing_flags or diff)):
            ctx.violation(KEY_STRAND,
                          "a fired, un-paused Deferred keeps callbacks queued: its result was handed to a waiting "
                          "Deferred that is still paused and the whole chain walk stopped there",
                          witness(t, expected_events_this_op=mev, real_events_this_op=rev,
                                  expected_state=msnaps[t], real_state=rsnap, deferreds_differing=diff))
            return st
        if rev != mev:
            ctx.violation("trace-mismatch", "callback invocations (name, input) differ from the reference interpreter",
                          witness(t, expected_events_this_op=mev, real_events_this_op=rev,
                                  expected_state=msnaps[t], real_state=rsnap))
        else:
            ctx.violation("state-mismatch", "called/paused/result/remaining callbacks of a Deferred differ from the "
                          "reference interpreter after an operation",
                          witness(t, expected_state=msnaps[t], real_state=rsnap, deferreds_differing=diff))
        return st
    return st


# ------------------------------------------------------------------------------------------------
# generators
# ------------------------------------------------------------------------------------------------
ALPHA_S = {"kinds": ("cb",), "behs": ("val", "ret"), "fires": ("v",)}
ALPHA_F = {"kinds": ("cb", "eb", "both"), "behs": ("val", "fail", "ret"), "fires": ("v", "e")}
# re-entrant alphabet: callbacks that add a callback to their own (running) Deferred or to another one, or fire
# another Deferred (possibly already fired -> AlreadyCalledError inside the callback); chainDeferred; firing an
# already fired Deferred from the top level
# pause alphabet: success-only plus callbacks that pause / unpause ANOTHER Deferred while they run (which may be
# suspended in the chain stack below them); top-level unpause is always generated (skipped when unmatched)
ALPHA_P = {"kinds": ("cb",), "behs": ("val", "ret", "do-pause", "do-unpause"), "fires": ("v",), "anyunpause": True}
ALPHA_R = {"kinds": ("cb",), "behs": ("val", "ret", "do-addown", "do-addother", "do-fire"), "fires": ("v",), "reent": True}


def enum_programs(nd, nops, alpha, owns, shard_depth=4):
    """All canonical programs of exactly `nops` operations (shorter ones are their prefixes)."""
    ops = []
    fired = [False] * nd
    upause = [0] * nd
    counter = [0]
    shard_depth = min(shard_depth, nops - 1)

    def rec(m):
        depth = len(ops)
        if depth == nops:
            yield list(ops)
            return
        if depth == shard_depth:
            counter[0] += 1
            if not owns(counter[0]):
                return
        lastop = depth == nops - 1 and not alpha.get("reent")
        top = min(m, nd - 1)
        for t in range(top + 1):
            m1 = max(m, t + 1)
            # add
            if not lastop or fired[t]:
                for kind in alpha["kinds"]:
                    for beh in alpha["behs"]:
                        if beh == "do-addown":
                            ops.append(("add", t, kind, ("do", "val", ("add", t, "cb", "val", None)), None))
                            yield from rec(m1)
                            ops.pop()
                        elif beh in ("ret", "do-addother", "do-fire", "do-pause", "do-unpause"):
                            for j in range(min(m1, nd - 1) + 1):
                                if j == t:
                                    continue
                                b = (("ret", j) if beh == "ret" else ("do", "val", ("fire", j, "v")) if beh == "do-fire"
                                     else ("do", "val", ("pause", j)) if beh == "do-pause"
                                     else ("do", "val", ("unpause", j)) if beh == "do-unpause"
                                     else ("do", "val", ("add", j, "cb", "val", None)))
                                ops.append(("add", t, kind, b if kind != "eb" else None, b if kind == "eb" else None))
                                yield from rec(max(m1, j + 1))
                                ops.pop()
                        else:
                            ops.append(("add", t, kind, beh if kind != "eb" else None, beh if kind == "eb" else None))
                            yield from rec(m1)
                            ops.pop()
            if not lastop:
                upause[t] += 1
                ops.append(("pause", t))
                yield from rec(m1)
                ops.pop()
                upause[t] -= 1
            if upause[t] or alpha.get("anyunpause"):
                upause[t] -= 1
                ops.append(("unpause", t))
                yield from rec(m1)
                ops.pop()
                upause[t] += 1
            if not fired[t] or alpha.get("reent"):
                was = fired[t]
                fired[t] = True
                for fk in alpha["fires"]:
                    ops.append(("fire", t, fk))
                    yield from rec(m1)
                    ops.pop()
                fired[t] = was
            if alpha.get("reent"):
                for j in range(min(m1, nd - 1) + 1):
                    if j != t:
                        ops.append(("chain", t, j))
                        yield from rec(max(m1, j + 1))
                        ops.pop()

    yield from rec(0)


def random_program(rng, big):
    nd = rng.choice((2, 3, 3, 4, 4, 5, 6))
    nops = rng.randint(6, 22 if big else 16)
    fired = [False] * nd
    upause = [0] * nd
    ops = []
    pret = rng.choice((0.25, 0.4, 0.6))
    pfail = rng.choice((0.1, 0.25, 0.4))

    def beh(t):
        x = rng.random()
        if x < pret:
            j = rng.randrange(nd - 1)
            return ("ret", j if j < t else j + 1)
        x = rng.random()
        if x < pfail:
            return rng.choice(("raise", "fail"))
        return "pass" if x > 0.85 else "val"

    for _ in range(nops):
        t = rng.randrange(nd)
        x = rng.random()
        if x < 0.5:
            kind = rng.choice(("cb", "cb", "eb", "both", "both", "cbs"))
            if kind == "cb":
                ops.append(("add", t, kind, beh(t), None))
            elif kind == "eb":
                ops.append(("add", t, kind, None, beh(t)))
            elif kind == "both":
                ops.append(("add", t, kind, beh(t), None))
            else:
                ops.append(("add", t, kind, beh(t), beh(t)))
        elif x < 0.62:
            upause[t] += 1
            ops.append(("pause", t))
        elif x < 0.74:
            c = [i for i in range(nd) if upause[i]]
            if c:
                t = rng.choice(c)
                upause[t] -= 1
                ops.append(("unpause", t))
        else:
            c = [i for i in range(nd) if not fired[i]]
            if c:
                t = rng.choice(c)
                fired[t] = True
                ops.append(("fire", t, "e" if rng.random() < 0.3 else "v"))
    if rng.random() < 0.5:
        tail = [("fire", i, "e" if rng.random() < 0.3 else "v") for i in range(nd) if not fired[i]]
        tail += [("unpause", i) for i in range(nd) for _ in range(upause[i])]
        rng.shuffle(tail)
        ops.extend(tail)
    return nd, ops


def random_reentrant(rng):
    """Programs whose callbacks also act: addCallbacks on their own running Deferred or on another one,
    pause/unpause/fire another Deferred; plus chainDeferred and firing already fired Deferreds."""
    nd = rng.choice((2, 3, 3, 4, 5))
    nops = rng.randint(5, 14)
    pret = rng.choice((0.15, 0.3, 0.45))
    pact = rng.choice((0.3, 0.5, 0.7))

    def plain(t):
        x = rng.random()
        if x < pret:
            j = rng.randrange(nd - 1)
            return ("ret", j if j < t else j + 1)
        x = rng.random()
        if x < 0.25:
            return rng.choice(("raise", "fail"))
        return "pass" if x > 0.85 else "val"

    def pair(t, depth):
        kind = rng.choice(("cb", "cb", "eb", "both", "both", "cbs"))
        if kind == "cb" or kind == "both":
            return kind, beh(t, depth), None
        if kind == "eb":
            return kind, None, beh(t, depth)
        return kind, beh(t, depth), beh(t, depth)

    def action(t, depth):
        x = rng.random()
        if x < 0.45:
            tt = t if rng.random() < 0.55 else rng.randrange(nd)
            kind, bc, be = pair(tt, depth + 1)
            return ("add", tt, kind, bc, be)
        if x < 0.57:
            return ("pause", rng.randrange(nd))
        if x < 0.69:
            return ("unpause", rng.randrange(nd))
        return ("fire", rng.randrange(nd), "e" if rng.random() < 0.3 else "v")

    def beh(t, depth):
        b = plain(t)
        if depth < 2 and rng.random() < pact:
            return ("do", b, action(t, depth))
        return b

    fired = [False] * nd
    ops = []
    for _ in range(nops):
        t = rng.randrange(nd)
        x = rng.random()
        if x < 0.45:
            kind, bc, be = pair(t, 0)
            ops.append(("add", t, kind, bc, be))
        elif x < 0.53:
            ops.append(("pause", t))
        elif x < 0.61:
            ops.append(("unpause", t))
        elif x < 0.72 and nd > 1:
            j = rng.randrange(nd - 1)
            ops.append(("chain", t, j if j < t else j + 1))
        else:
            c = [i for i in range(nd) if not fired[i]]
            if c and rng.random() < 0.85:
                t = rng.choice(c)
            fired[t] = True
            ops.append(("fire", t, "e" if rng.random() < 0.3 else "v"))
    if rng.random() < 0.4:
        tail = [("fire", i, "v") for i in range(nd) if not fired[i]] + [("unpause", i) for i in range(nd)]
        rng.shuffle(tail)
        ops.extend(tail)
    return nd, ops


def random_suspended(rng):
    """Programs aimed at Deferreds suspended in the chain stack: o waits on i, i gets callbacks behind o's
    continuation, and the callbacks o runs after the hand-over pause / unpause / add to i (or fire others)."""
    nd = rng.choice((2, 3, 3, 4))
    o, i = rng.sample(range(nd), 2)
    others = [x for x in range(nd) if x not in (o, i)]

    def plain():
        return rng.choice(("val", "val", "pass", "fail", "raise"))

    def pair(beh):
        kind = rng.choice(("cb", "both", "both", "eb"))
        return (kind, None, beh) if kind == "eb" else (kind, beh, None)

    ops = [("add", o, "cb", ("ret", i), None)]
    for _ in range(rng.randint(1, 4)):
        x = rng.random()
        if x < 0.45:
            a = ("pause", i)
        elif x < 0.6:
            a = ("unpause", i)
        elif x < 0.8:
            a = ("add", i) + pair(plain())
        elif others and x < 0.9:
            a = ("fire", rng.choice(others), "v")
        else:
            a = ("pause", i)
        x = rng.random()
        if x < 0.25:
            # a later callback of o returns i again: i is then suspended in the chain stack, fired
            ops.append(("add", o, "both", ("ret", i), None))
        else:
            ops.append(("add", o, "both", ("do", ("ret", i) if x < 0.4 else rng.choice(("val", "pass")), a), None))
    if others and rng.random() < 0.4:
        w = rng.choice(others)
        ops.append(("add", w, "cb", ("ret", i), None))
        ops.append(("fire", w, "v"))
    ops.append(("fire", o, "e" if rng.random() < 0.15 else "v"))
    if ops[-1][2] == "e":
        ops[0] = ("add", o, "both", ("ret", i), None)
    for _ in range(rng.randint(1, 3)):
        ops.append(("add", i) + pair(plain() if rng.random() < 0.8 else ("ret", o)))
    for _ in range(rng.randint(0, 2)):
        t = rng.randrange(nd)
        ops.insert(rng.randint(1, len(ops)), rng.choice((("pause", t), ("unpause", t), ("add", t, "cb", "val", None))))
    ops.append(("fire", i, "e" if rng.random() < 0.25 else "v"))
    for _ in range(rng.randint(0, 4)):
        x = rng.random()
        if x < 0.5:
            ops.append(("unpause", i))
        elif x < 0.7:
            ops.append(("add", i) + pair(plain()))
        elif x < 0.85:
            ops.append(("add", o) + pair(plain()))
        else:
            ops.append(("unpause", rng.randrange(nd)))
    return nd, ops


def _tolists(x):
    return [_tolists(y) for y in x] if isinstance(x, (list, tuple)) else x


_LOGGED = {}


def _begin_logging():
    """Unhandled failures (provoked on purpose by most programs) are logged at GC; by default twisted
    prints each to stderr.  Route them to a counting observer for the life of this process."""
    if "on" in _LOGGED:
        return
    _LOGGED["on"] = True
    from twisted.logger import globalLogBeginner

    def obs(event):
        f = event.get("log_failure")
        if f is None:
            return
        k = getattr(getattr(f, "type", None), "__name__", "no-failure")
        _LOGGED[k] = _LOGGED.get(k, 0) + 1

    globalLogBeginner.beginLoggingTo([obs], discardBuffer=True, redirectStandardIO=False)


def run(ctx):
    from twisted.internet import defer

    _begin_logging()

    was_debugging = defer.getDebugging()
    defer.setDebugging(False)
    # (nd, nops, alphabet name) - complete spaces per tier
    if ctx.quick or float(os.environ.get("VERIF_SCALE", "1")) < 1:  # smoke runs use the quick spaces
        spaces = [(2, 6, "S"), (3, 5, "S"), (4, 5, "S"), (2, 4, "F"), (3, 4, "F"), (2, 4, "R"), (3, 3, "R"), (2, 5, "P"), (3, 4, "P")]
    else:
        spaces = [(2, 8, "S"), (3, 6, "S"), (4, 6, "S"), (2, 5, "F"), (3, 4, "F"), (4, 4, "F"), (2, 5, "R"), (3, 4, "R"), (2, 6, "P"), (3, 5, "P")]
    ctx.extra["spaces"] = ["%d Deferreds, %d ops, alphabet %s" % s for s in spaces]
    gc_every = 2000
    n = 0
    for nd, nops, an in spaces:
        alpha = {"S": ALPHA_S, "F": ALPHA_F, "R": ALPHA_R, "P": ALPHA_P}[an]
        cnt = 0
        origin = ("re-entrant exhaustive " + an + " %d/%d" if an in "RP" else "exhaustive " + an + " %d/%d") % (nd, nops)
        for ops in enum_programs(nd, nops, alpha, ctx.owns):
            check_program(ctx, nd, ops, origin)
            cnt += 1
            n += 1
            if n % gc_every == 0:
                gc.collect()
            if cnt <= 1 and an != "F":
                ctx.sample({"space": (nd, nops, an), "ops": _tolists(ops)})
        ctx.count("exhaustive_programs", cnt)
        ctx.count("exhaustive_%s_%dd_%dops" % (an, nd, nops), cnt)
    if ctx.exhaustive is None:
        ctx.exhaustive = True
    for i in ctx.cases(30000, 600000):
        rng = ctx.case_rng("rand", i)
        nd, ops = random_program(rng, big=(i % 2 == 0))
        st = check_program(ctx, nd, ops, "random case %d" % i)
        ctx.count("random_programs")
        ctx.maxi("random_ops", len(ops))
        n += 1
        if n % gc_every == 0:
            gc.collect()
        if i < ctx.nshards:
            ctx.sample({"case": i, "nd": nd, "ops": _tolists(ops), "model_stats": st})
    for i in ctx.cases(24000, 400000):
        rng = ctx.case_rng("reent", i)
        nd, ops = random_reentrant(rng)
        st = check_program(ctx, nd, ops, "re-entrant random case %d" % i)
        ctx.count("reentrant_random_programs")
        n += 1
        if n % gc_every == 0:
            gc.collect()
        if i < ctx.nshards:
            ctx.sample({"reentrant_case": i, "nd": nd, "ops": _tolists(ops), "model_stats": {k: v for k, v in st.items() if v}})
    for i in ctx.cases(8000, 150000):
        rng = ctx.case_rng("susp", i)
        nd, ops = random_suspended(rng)
        check_program(ctx, nd, ops, "re-entrant suspended case %d" % i)
        ctx.count("reentrant_suspended_programs")
        n += 1
        if n % gc_every == 0:
            gc.collect()
        if i < 2 and ctx.shard == 0:
            ctx.sample({"suspended_case": i, "nd": nd, "ops": _tolists(ops)})
    # the statement does not depend on Deferred.debug: a block of fresh random programs of each family under
    # defer.setDebugging(True) (process-global, restored afterwards), same oracle
    defer.setDebugging(True)
    try:
        for i in ctx.cases(6000, 60000):
            rng = ctx.case_rng("debug", i)
            fam = i % 3
            nd, ops = random_program(rng, False) if fam == 0 else random_reentrant(rng) if fam == 1 else random_suspended(rng)
            check_program(ctx, nd, ops, ("", "re-entrant ", "re-entrant suspended ")[fam] + "debugging-on case %d" % i)
            ctx.count("programs_with_debugging_on")
            n += 1
            if n % gc_every == 0:
                gc.collect()
        gc.collect()
    finally:
        defer.setDebugging(was_debugging)
    for k, v in _LOGGED.items():
        if k != "on":
            ctx.count("gc_logged_unhandled_" + k, v)  # whitelisted: only _E is provoked on purpose
            ctx.seen("logged_failure_types", k)


def replay(ctx, w):
    x = w["witness"]
    ops = [_tup(o) for o in x["ops"]]
    _begin_logging()
    from twisted.internet import defer

    was = defer.getDebugging()
    defer.setDebugging(bool(x.get("debugging")))
    try:
        check_program(ctx, x["nd"], ops, "replay debugging-on" if x.get("debugging") else "replay")
    finally:
        defer.setDebugging(was)
