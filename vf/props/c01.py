"""C01 Deferred callback chains compute what a sequential interpreter predicts.

Monitor: small programs (add callbacks / pause / unpause / fire, callbacks that return values,
raise, return Failures, pass their input through or return another Deferred) are executed twice:
first on `Model`, a recursive reference interpreter of the *documented* chaining rules that shares
no code with defer.py (it does not even import twisted), then on real `Deferred`s.  Every user
callback invocation is logged at the API boundary as (callback name, input) with unique ids on all
values/exceptions; after EVERY operation (each program prefix is itself a program) the real trace
and, per Deferred, `called`, `paused`, the current result and the ids of the user callbacks still
queued must equal the model's.  "At most once" and "in the order added" are also checked directly
on the real trace.

Oracle rules (Model): a callback's return value is the next input; raise / returned Failure
switches to the errback side; a missing side passes the result through; a returned Deferred that
has a result and is neither paused nor waiting hands its result over (and keeps None); otherwise
the outer Deferred is paused and a continuation is appended to the inner one; when the inner one
reaches the continuation it hands its result over (keeps None), un-pauses the outer one, which
runs *nested* (recursion), and then goes on with its own remaining callbacks.

Guards (documented misuse or undocumented corners, decided on the model run and replayed
identically on the real run by substituting a plain value for the returned Deferred):
  * a callback returning its own Deferred (never generated);
  * wait-cycles: the returned Deferred already waits, transitively, on the current one;
  * re-entrant returns: the returned Deferred is at that moment on the interpreter's stack (in the
    middle of running its own chain) - the docs do not say whether the waiter gets its momentary or
    its final result;
  * unpause below the number of user pauses and double firing (C03) are never generated;
  * failures are compared by exception id, never by traceback; unhandled-error logging at GC is
    ignored.

Classification: a divergence is keyed `paused-chainee-strands-inner-callbacks` only when, in the
operation where it first shows, the model handed a result to a Deferred that stayed paused (user
pause), the real events of that operation are a prefix of the model's, every missing event was
produced by work the model did *after and below* that hand-over, and every Deferred whose state
differs was touched only by such work.  Anything else is `trace-mismatch` / `state-mismatch` /
`callback-ran-twice` / `callback-order` / `unexpected-exception`.
"""
import gc
import os

LEVEL = "exploration"
ENGINE = "core"
TECHNIQUE = "runtime monitoring: recursive reference interpreter of the documented chaining rules, compared after every operation"
RULE = ("bounded-exhaustive: every canonical program (Deferreds named in order of first mention, last "
        "operation one that can run callbacks) over the success-only alphabet {addCallback(value | "
        "return d_j), pause, unpause, callback} and over the reduced full alphabet {addCallback/"
        "addErrback/addBoth x (value | Failure | return d_j), pause, unpause, callback, errback} up "
        "to the sizes in coverage.spaces; random: programs over 2..6 Deferreds and 6..22 operations "
        "from addCallback/addErrback/addBoth/addCallbacks x {value, raise, return Failure, pass "
        "through, return d_j}, pause/unpause, callback/errback anywhere, half of them followed by "
        "firing/unpausing everything in random order.  A case is one program; it is distinct by its "
        "operation list and counted as non-trivial only if at least one callback really returned a "
        "Deferred (waited on or result taken) in the model run.")
ASSUMPTIONS = [
    "trusted base: the ~110-line recursive Model in this module is the oracle of the documented chaining rules",
    "callbacks do not themselves fire, pause or add callbacks to Deferreds (re-entrant mutation is out of scope)",
    "returns of a Deferred that is its own, already waits on the current one, or is on the interpreter's stack are replaced by plain values (documented misuse / undocumented corner)",
    "remaining callbacks are read from Deferred.callbacks (ids of user callbacks only; continuation entries are ignored)",
]
SHARDS = {"quick": 4, "thorough": 16}
FLOORS = {"ops_compared": 20000, "callback_events_compared": 10000, "chain_waits": 2000, "chain_result_taken": 1000,
          "handovers": 1000, "errback_side_runs": 1000, "substituted_returns": 20, "exhaustive_programs": 100000,
          "random_programs": 5000, "model_handover_to_paused": 200}
READY = True

KEY_STRAND = "paused-chainee-strands-inner-callbacks"
NORES = "NORESULT"


# ------------------------------------------------------------------------------------------------
# reference interpreter (no twisted)
# ------------------------------------------------------------------------------------------------
class _MD:
    __slots__ = ("i", "called", "paused", "result", "cbs", "inchain")

    def __init__(self, i):
        self.i = i
        self.called = False
        self.paused = 0
        self.result = NORES
        self.cbs = []  # ("cont", outer index) | (pid, cspec, espec); spec = None | (name, behaviour)
        self.inchain = 0


def _isfail(r):
    return type(r) is tuple and r[0] == "F"


def _isdef(r):
    return type(r) is tuple and r[0] == "D"


class Model:
    def __init__(self, nd):
        self.ds = [_MD(i) for i in range(nd)]
        self.trace = []      # (name, input)
        self.flags = []      # per event: produced after/below a hand-over to a still paused Deferred
        self.subs = {}       # callback name -> substituted plain value id
        self.stack = []      # activations [deferred, stranded]
        self.touch = set()   # Deferreds touched by stranded work in the current operation
        self.paused_handovers = 0
        self.st = {"waits": 0, "taken": 0, "handovers": 0, "eb_runs": 0, "sub_cycle": 0, "sub_inchain": 0, "depth": 0}

    # -- top-level operations -----------------------------------------------------------------
    def op(self, o):
        self.touch = set()
        self.paused_handovers = 0
        k, d = o[0], self.ds[o[1]]
        if k == "add":
            d.cbs.append(o[5])
            if d.called:
                self.run(d, False)
        elif k == "pause":
            d.paused += 1
        elif k == "unpause":
            d.paused -= 1
            if not d.paused and d.called:
                self.run(d, False)
        else:
            d.called = True
            d.result = (("V", o[3]) if o[2] == "v" else ("F", o[3]))
            self.run(d, False)

    def waits_on(self, r, d):
        seen = 0
        while _isdef(r.result) and seen < 64:
            r = self.ds[r.result[1]]
            if r is d:
                return True
            seen += 1
        return False

    def run(self, d, stranded):
        if not d.called or d.paused or d.inchain:
            return
        act = [d, stranded]
        self.stack.append(act)
        self.st["depth"] = max(self.st["depth"], len(self.stack))
        d.inchain += 1
        while d.cbs and not d.paused:
            item = d.cbs.pop(0)
            if item[0] == "cont":
                o = self.ds[item[1]]
                o.result = d.result
                d.result = None
                o.paused -= 1
                self.st["handovers"] += 1
                if act[1]:
                    self.touch.add(d.i)
                    self.touch.add(o.i)
                if o.paused:
                    # the waiter stays paused (user pause); everything the interpreter still does
                    # in this operation happens after/below this hand-over
                    self.paused_handovers += 1
                    for a in self.stack:
                        a[1] = True
                else:
                    self.run(o, act[1])
                continue
            if act[1]:
                self.touch.add(d.i)
            spec = item[2] if _isfail(d.result) else item[1]
            if spec is None:
                continue
            name, beh = spec
            self.trace.append((name, d.result))
            self.flags.append(act[1])
            if _isfail(d.result):
                self.st["eb_runs"] += 1
            if beh == "val":
                d.result = ("V", name)
            elif beh == "raise" or beh == "fail":
                d.result = ("F", name)
            elif beh == "pass":
                pass
            else:
                r = self.ds[beh[1]]
                if r is d or r.inchain or self.waits_on(r, d):
                    self.st["sub_inchain" if r.inchain else "sub_cycle"] += 1
                    self.subs[name] = name + "s"
                    d.result = ("V", name + "s")
                elif r.called and not r.paused and not _isdef(r.result):
                    d.result = r.result
                    r.result = None
                    self.st["taken"] += 1
                    if act[1]:
                        self.touch.add(r.i)
                else:
                    d.result = ("D", r.i)
                    d.paused += 1
                    r.cbs.append(("cont", d.i))
                    self.st["waits"] += 1
                    if act[1]:
                        self.touch.add(r.i)
        d.inchain -= 1
        self.stack.pop()

    def snap(self):
        return [(d.called, d.paused, d.result, tuple(it[0] for it in d.cbs if it[0] != "cont")) for d in self.ds]


# ------------------------------------------------------------------------------------------------
# programs
# ------------------------------------------------------------------------------------------------
def prepare(nd, ops):
    """Attach ids: returns internal ops
    add: ("add", d, kind, behc, behe, item) with item = (pid, cspec, espec); fire: ("fire", d, "v"|"e", id)."""
    out = []
    for n, o in enumerate(ops):
        if o[0] == "add":
            _, d, kind, bc, be = o
            bc = tuple(bc) if isinstance(bc, list) else bc
            be = tuple(be) if isinstance(be, list) else be
            pid = "c%d" % n
            if kind == "cb":
                item = (pid, (pid, bc), None)
            elif kind == "eb":
                item = (pid, None, (pid, be))
            elif kind == "both":
                item = (pid, (pid, bc), (pid, bc))
            else:
                item = (pid, (pid + ".c", bc), (pid + ".e", be))
            out.append(("add", d, kind, bc, be, item))
        elif o[0] == "fire":
            out.append(("fire", o[1], o[2], "f%d" % n))
        else:
            out.append((o[0], o[1]))
    return out


class _Real:
    """The same program on real Deferreds; observations only."""

    def __init__(self, nd, subs):
        from twisted.internet.defer import Deferred
        from twisted.python.failure import Failure

        self.Failure = Failure
        self.Deferred = Deferred
        self.ds = [Deferred() for _ in range(nd)]
        self.idx = {id(d): i for i, d in enumerate(self.ds)}
        self.subs = subs
        self.trace = []

    def rr(self, x):
        if x is None:
            return None
        if type(x) is _V:
            return ("V", x.k)
        if isinstance(x, self.Failure):
            v = x.value
            return ("F", v.k) if type(v) is _E else ("F?", repr(v)[:80])
        if isinstance(x, self.Deferred):
            return ("D", self.idx.get(id(x), "?"))
        if x is NORES:
            return NORES
        return ("?", repr(x)[:80])

    def mk(self, pid, name, beh):
        trace, rr, subs, ds, Failure = self.trace, self.rr, self.subs, self.ds, self.Failure

        def f(x):
            trace.append((name, rr(x)))
            if name in subs:
                return _V(subs[name])
            if beh == "val":
                return _V(name)
            if beh == "raise":
                raise _E(name)
            if beh == "fail":
                return Failure(_E(name))
            if beh == "pass":
                return x
            return ds[beh[1]]

        f._vf_pid = pid
        return f

    def op(self, o):
        k, d = o[0], self.ds[o[1]]
        if k == "add":
            kind, (pid, cs, es) = o[2], o[5]
            if kind == "cb":
                d.addCallback(self.mk(pid, *cs))
            elif kind == "eb":
                d.addErrback(self.mk(pid, *es))
            elif kind == "both":
                d.addBoth(self.mk(pid, *cs))
            else:
                d.addCallbacks(self.mk(pid, *cs), self.mk(pid, *es))
        elif k == "pause":
            d.pause()
        elif k == "unpause":
            d.unpause()
        elif o[2] == "v":
            d.callback(_V(o[3]))
        else:
            d.errback(_E(o[3]))

    def snap(self):
        out = []
        for d in self.ds:
            rest = []
            for it in d.callbacks:
                p = getattr(it[0][0], "_vf_pid", None) or getattr(it[1][0], "_vf_pid", None)
                if p is not None:
                    rest.append(p)
            out.append((d.called, d.paused, self.rr(getattr(d, "result", NORES)), tuple(rest)))
        return out


class _V:
    __slots__ = ("k",)

    def __init__(self, k):
        self.k = k

    def __repr__(self):
        return "V(%s)" % self.k


class _E(Exception):
    def __init__(self, k):
        Exception.__init__(self, k)
        self.k = k


def check_program(ctx, nd, ops, origin):
    """Run one program on model and real; report at most one violation.  Returns model stats."""
    prog = prepare(nd, ops)
    m = Model(nd)
    msnaps, mlens, mtouch, mph = [], [], [], []
    for o in prog:
        m.op(o)
        msnaps.append(m.snap())
        mlens.append(len(m.trace))
        mtouch.append(m.touch)
        mph.append(m.paused_handovers)
    st = m.st
    real = _Real(nd, m.subs)
    ctx.evaluated()
    ctx.count("callback_events_compared", len(m.trace))
    ctx.count("chain_waits", st["waits"])
    ctx.count("chain_result_taken", st["taken"])
    ctx.count("handovers", st["handovers"])
    ctx.count("errback_side_runs", st["eb_runs"])
    ctx.count("substituted_returns", len(m.subs))
    ctx.count("substituted_wait_cycle", st["sub_cycle"])
    ctx.count("substituted_reentrant", st["sub_inchain"])
    ctx.count("model_handover_to_paused", sum(mph))
    ctx.maxi("model_nesting_depth", st["depth"])
    if st["waits"] or st["taken"]:
        ctx.count("nontrivial_programs")
        # enumerated programs are distinct by construction; only the first 30000 per shard are also
        # hashed into the distinct set (16 shards x millions of hashes would not fit the parent)
        if not origin.startswith("exh") or ctx.counters["nontrivial_programs"] <= 30000:
            ctx.distinct((nd, ops))

    def witness(t, **kw):
        w = {"nd": nd, "ops": ops, "origin": origin, "diverged_at_op": t, "op": ops[t] if t is not None else None,
             "substituted": m.subs, "model_trace": m.trace, "real_trace": list(real.trace)}
        w.update(kw)
        return w

    prev = 0
    for t, o in enumerate(prog):
        try:
            real.op(o)
        except BaseException as e:  # noqa: B036 - anything escaping an API call is a finding
            if isinstance(e, (KeyboardInterrupt, SystemExit)):
                raise
            ctx.violation("unexpected-exception", "an operation on a Deferred raised %s" % type(e).__name__,
                          witness(t, exception=repr(e)[:300]))
            return st
        ctx.count("ops_compared")
        rtr = real.trace
        mev = m.trace[prev:mlens[t]]
        rev = rtr[prev:]
        rsnap = real.snap()
        if rev == mev and rsnap == msnaps[t]:
            prev = mlens[t]
            continue
        # ---- divergence: direct statement checks first, then classification
        names = [n for n, _ in rtr]
        pids = [n.split(".")[0] for n in names]
        if len(set(pids)) != len(pids):
            ctx.violation("callback-ran-twice", "a callback pair ran more than once", witness(t))
            return st
        owner = {p[5][0]: p[1] for p in prog if p[0] == "add"}
        last = {}
        for p in pids:
            dno, n = owner.get(p), int(p[1:])
            if last.get(dno, -1) > n:
                ctx.violation("callback-order", "callbacks of one Deferred ran out of the order they were added", witness(t))
                return st
            last[dno] = n
        diff = [i for i in range(nd) if rsnap[i] != msnaps[t][i]]
        missing_flags = m.flags[prev + len(rev):mlens[t]]
        if (mph[t] > 0 and rev == mev[:len(rev)] and all(missing_flags) and all(i in mtouch[t] for i in diff)
                and (missing_flags or diff)):
            ctx.violation(KEY_STRAND,
                          "a fired, un-paused Deferred keeps callbacks queued: its result was handed to a waiting "
                          "Deferred that is still paused and the whole chain walk stopped there",
                          witness(t, expected_events_this_op=mev, real_events_this_op=rev,
                                  expected_state=msnaps[t], real_state=rsnap, deferreds_differing=diff))
            return st
        if rev != mev:
            ctx.violation("trace-mismatch", "callback invocations (name, input) differ from the reference interpreter",
                          witness(t, expected_events_this_op=mev, real_events_this_op=rev,
                                  expected_state=msnaps[t], real_state=rsnap))
        else:
            ctx.violation("state-mismatch", "called/paused/result/remaining callbacks of a Deferred differ from the "
                          "reference interpreter after an operation",
                          witness(t, expected_state=msnaps[t], real_state=rsnap, deferreds_differing=diff))
        return st
    return st


# ------------------------------------------------------------------------------------------------
# generators
# ------------------------------------------------------------------------------------------------
ALPHA_S = {"kinds": ("cb",), "behs": ("val", "ret"), "fires": ("v",)}
ALPHA_F = {"kinds": ("cb", "eb", "both"), "behs": ("val", "fail", "ret"), "fires": ("v", "e")}


def enum_programs(nd, nops, alpha, owns, shard_depth=4):
    """All canonical programs of exactly `nops` operations (shorter ones are their prefixes)."""
    ops = []
    fired = [False] * nd
    upause = [0] * nd
    counter = [0]
    shard_depth = min(shard_depth, nops - 1)

    def rec(m):
        depth = len(ops)
        if depth == nops:
            yield list(ops)
            return
        if depth == shard_depth:
            counter[0] += 1
            if not owns(counter[0]):
                return
        lastop = depth == nops - 1
        top = min(m, nd - 1)
        for t in range(top + 1):
            m1 = max(m, t + 1)
            # add
            if not lastop or fired[t]:
                for kind in alpha["kinds"]:
                    for beh in alpha["behs"]:
                        if beh == "ret":
                            for j in range(min(m1, nd - 1) + 1):
                                if j == t:
                                    continue
                                b = ("ret", j)
                                ops.append(("add", t, kind, b if kind != "eb" else None, b if kind == "eb" else None))
                                yield from rec(max(m1, j + 1))
                                ops.pop()
                        else:
                            ops.append(("add", t, kind, beh if kind != "eb" else None, beh if kind == "eb" else None))
                            yield from rec(m1)
                            ops.pop()
            if not lastop:
                upause[t] += 1
                ops.append(("pause", t))
                yield from rec(m1)
                ops.pop()
                upause[t] -= 1
            if upause[t]:
                upause[t] -= 1
                ops.append(("unpause", t))
                yield from rec(m1)
                ops.pop()
                upause[t] += 1
            if not fired[t]:
                fired[t] = True
                for fk in alpha["fires"]:
                    ops.append(("fire", t, fk))
                    yield from rec(m1)
                    ops.pop()
                fired[t] = False

    yield from rec(0)


def random_program(rng, big):
    nd = rng.choice((2, 3, 3, 4, 4, 5, 6))
    nops = rng.randint(6, 22 if big else 16)
    fired = [False] * nd
    upause = [0] * nd
    ops = []
    pret = rng.choice((0.25, 0.4, 0.6))
    pfail = rng.choice((0.1, 0.25, 0.4))

    def beh(t):
        x = rng.random()
        if x < pret:
            j = rng.randrange(nd - 1)
            return ("ret", j if j < t else j + 1)
        x = rng.random()
        if x < pfail:
            return rng.choice(("raise", "fail"))
        return "pass" if x > 0.85 else "val"

    for _ in range(nops):
        t = rng.randrange(nd)
        x = rng.random()
        if x < 0.5:
            kind = rng.choice(("cb", "cb", "eb", "both", "both", "cbs"))
            if kind == "cb":
                ops.append(("add", t, kind, beh(t), None))
            elif kind == "eb":
                ops.append(("add", t, kind, None, beh(t)))
            elif kind == "both":
                ops.append(("add", t, kind, beh(t), None))
            else:
                ops.append(("add", t, kind, beh(t), beh(t)))
        elif x < 0.62:
            upause[t] += 1
            ops.append(("pause", t))
        elif x < 0.74:
            c = [i for i in range(nd) if upause[i]]
            if c:
                t = rng.choice(c)
                upause[t] -= 1
                ops.append(("unpause", t))
        else:
            c = [i for i in range(nd) if not fired[i]]
            if c:
                t = rng.choice(c)
                fired[t] = True
                ops.append(("fire", t, "e" if rng.random() < 0.3 else "v"))
    if rng.random() < 0.5:
        tail = [("fire", i, "e" if rng.random() < 0.3 else "v") for i in range(nd) if not fired[i]]
        tail += [("unpause", i) for i in range(nd) for _ in range(upause[i])]
        rng.shuffle(tail)
        ops.extend(tail)
    return nd, ops


def _tolists(ops):
    return [[list(x) if isinstance(x, tuple) else x for x in o] for o in ops]


_LOGGED = {}


def _begin_logging():
    """Unhandled failures (provoked on purpose by most programs) are logged at GC; by default twisted
    prints each to stderr.  Route them to a counting observer for the life of this process."""
    if "on" in _LOGGED:
        return
    _LOGGED["on"] = True
    from twisted.logger import globalLogBeginner

    def obs(event):
        f = event.get("log_failure")
        if f is None:
            return
        k = getattr(getattr(f, "type", None), "__name__", "no-failure")
        _LOGGED[k] = _LOGGED.get(k, 0) + 1

    globalLogBeginner.beginLoggingTo([obs], discardBuffer=True, redirectStandardIO=False)


def run(ctx):
    from twisted.internet import defer

    _begin_logging()

    if defer.Deferred.debug:
        ctx.inconclusive("Deferred.debug is on; the check expects the default (off)")
        return
    # (nd, nops, alphabet name) - complete spaces per tier
    if ctx.quick:
        spaces = [(2, 6, "S"), (3, 5, "S"), (4, 5, "S"), (2, 4, "F"), (3, 4, "F")]
    else:
        spaces = [(2, 8, "S"), (3, 6, "S"), (4, 6, "S"), (2, 5, "F"), (3, 4, "F"), (4, 4, "F")]
    if float(os.environ.get("VERIF_SCALE", "1")) < 1:  # smoke runs only
        spaces = [(2, 4, "S"), (2, 3, "F")]
        ctx.exhaustive = False
    ctx.extra["spaces"] = ["%d Deferreds, %d ops, alphabet %s" % s for s in spaces]
    gc_every = 2000
    n = 0
    for nd, nops, an in spaces:
        alpha = ALPHA_S if an == "S" else ALPHA_F
        cnt = 0
        for ops in enum_programs(nd, nops, alpha, ctx.owns):
            check_program(ctx, nd, ops, "exhaustive %s %d/%d" % (an, nd, nops))
            cnt += 1
            n += 1
            if n % gc_every == 0:
                gc.collect()
            if cnt <= 1:
                ctx.sample({"space": (nd, nops, an), "ops": _tolists(ops)})
        ctx.count("exhaustive_programs", cnt)
        ctx.count("exhaustive_%s_%dd_%dops" % (an, nd, nops), cnt)
    if ctx.exhaustive is None:
        ctx.exhaustive = True
    for i in ctx.cases(40000, 1000000):
        rng = ctx.case_rng("rand", i)
        nd, ops = random_program(rng, big=(i % 2 == 0))
        st = check_program(ctx, nd, ops, "random case %d" % i)
        ctx.count("random_programs")
        ctx.maxi("random_ops", len(ops))
        n += 1
        if n % gc_every == 0:
            gc.collect()
        if i < ctx.nshards:
            ctx.sample({"case": i, "nd": nd, "ops": _tolists(ops), "model_stats": st})
    gc.collect()
    for k, v in _LOGGED.items():
        if k != "on":
            ctx.count("gc_logged_unhandled_" + k, v)  # whitelisted: only _E is provoked on purpose
            ctx.seen("logged_failure_types", k)


def replay(ctx, w):
    x = w["witness"]
    ops = [tuple(tuple(a) if isinstance(a, list) else a for a in o) for o in x["ops"]]
    _begin_logging()
    check_program(ctx, x["nd"], ops, "replay")
