"""C44 Banana encoding round-trips and enforces its limits.

Monitored: two real twisted.spread.banana.Banana instances (server + client, handshake done through
the wire) per case, dialects `none` and `pb`.  The sender's sendEncoded() output is delivered to the
receiver whole and under every/random segmentation; expressionReceived() calls are recorded.

Oracle: received expressions == sent ones with tuples as lists, ints exact (type int), floats bit
for bit (struct '!d': -0.0, inf, subnormals, quiet NaNs with payload), byte strings equal (pb
vocabulary words travel as VOCAB in `pb`, as STRING in `none`).  Refusal when encoding: ints beyond
+-(2**448 - 1), strings/lists longer than SIZE_LIMIT, unsupported types (also nested, after part of
the expression was already encoded) -> BananaError, nothing written, following expression intact.
Refusal when decoding: prefix longer than 64 bytes (whole or byte by byte), STRING/LIST length >
SIZE_LIMIT -> BananaError; unknown type byte, VOCAB in dialect `none`, unknown VOCAB id -> some
exception; in all cases nothing beyond the valid expressions before it is delivered.

Re-entrant use: for a quarter of the streams the receiver echoes every expression with sendEncoded()
from inside expressionReceived and the echo is decoded and compared again.  The prefix-limit cases
(64 bytes accepted, 65 refused, typed and untyped) are also delivered split at every offset.

Guards: bool is not generated (it is an int subclass and decodes as int); signalling NaNs are not
generated (platform may quiet them); empty deliveries are not made (Banana asserts on them).
"""
import struct

from vf.engines.netsim import random_split

LEVEL = "exploration"
ENGINE = "E2-netsim"
TECHNIQUE = "runtime monitoring: encode -> real decoder under every/random segmentation, structural bit-exact comparison; refusal and stream-integrity checks"
RULE = ("random nested structures (depth <= 6) of boundary/random ints (0, +-1, 127/128, +-2**31 and neighbours, "
        "+-2**63, +-(2**448-1), random widths), floats (specials, random bit patterns, quiet NaNs), byte strings "
        "(0/1/127/128 bytes, pb vocabulary words, SIZE_LIMIT once per shard) and lists/tuples; 1..3 expressions "
        "per connection; both dialects, both directions; every 1-cut split <= 200 bytes, every 2-cut split <= 28 "
        "bytes, random splits otherwise.  Refusal cases: 10 kinds of unencodable values, 9 kinds of malformed "
        "streams.  Distinct by (dialect, wire bytes); non-trivial = wire longer than 2 bytes.")
ASSUMPTIONS = ["floats are compared through struct.pack('!d'), the same primitive the wire format is defined with",
               "the pb/none handshake is performed through the real code (server offers, client selects)"]
SHARDS = {"quick": 4, "thorough": 16}
FLOORS = {"roundtrip_streams": 1000, "decoder_runs": 20000, "expressions_compared": 20000, "boundary_ints": 500, "float_specials": 300,
          "vocab_words_pb": 100, "encode_refusals": 200, "decode_refusals": 300, "prefix_64_accepted": 20, "depth_ge_4": 50,
          "bytewise_overlong_prefix": 10, "prefix_boundary_split_runs": 5000, "echo_roundtrips": 200}
READY = True

LIMIT = 2 ** 448 - 1
BOUNDARY_INTS = [0, 1, -1, 127, 128, -127, -128, 255, 16383, 16384, 2 ** 31 - 1, 2 ** 31, -2 ** 31, -2 ** 31 - 1, -2 ** 31 + 1,
                 2 ** 32, 2 ** 63, -2 ** 63, 2 ** 64, LIMIT, -LIMIT, LIMIT - 1, -LIMIT + 1, 2 ** 441, -(2 ** 441)]
FLOAT_SPECIALS = [0.0, -0.0, float("inf"), float("-inf"), float("nan"), 5e-324, -5e-324, 2.2250738585072014e-308, 1.7976931348623157e308, 1.5, -2.25, 1e-300]


def qnan(rng):
    bits = (rng.getrandbits(1) << 63) | (0x7FF << 52) | (1 << 51) | rng.getrandbits(51)
    return struct.unpack("!d", bits.to_bytes(8, "big"))[0]


class Gen:
    def __init__(self, ctx, rng, vocab):
        self.ctx, self.rng, self.vocab = ctx, rng, vocab
        self.maxdepth = 0
        self.vocab_used = False

    def atom(self):
        rng, ctx = self.rng, self.ctx
        r = rng.random()
        if r < 0.2:
            ctx.count("boundary_ints")
            return rng.choice(BOUNDARY_INTS)
        if r < 0.4:
            return rng.choice([1, -1]) * min(LIMIT, rng.getrandbits(rng.choice([7, 8, 14, 31, 32, 33, 64, 200, 447, 448])))
        if r < 0.5:
            ctx.count("float_specials")
            return rng.choice(FLOAT_SPECIALS) if rng.random() < 0.7 else qnan(rng)
        if r < 0.6:
            return struct.unpack("!d", rng.getrandbits(64).to_bytes(8, "big"))[0] if rng.random() < 0.5 else rng.uniform(-1e9, 1e9)
        if r < 0.7:
            self.vocab_used = True
            return rng.choice(self.vocab)
        n = rng.choice([0, 1, 2, 127, 128, 129]) if rng.random() < 0.4 else rng.randint(0, 20)
        alpha = b"\x00\x7f\x80\x81\x82\x87\xffab" if rng.random() < 0.5 else bytes(range(256))
        return bytes(rng.choice(alpha) for _ in range(n))

    def expr(self, depth=0):
        rng = self.rng
        self.maxdepth = max(self.maxdepth, depth)
        if depth >= 6 or rng.random() < (0.35 if depth else 0.15):
            v = self.atom()
            if isinstance(v, float) and v != v and struct.pack("!d", v)[1] & 0x08 == 0:
                v = float("nan")  # never a signalling NaN
            return v
        n = rng.choice([0, 1, 1, 2, 3, 4]) if depth else rng.choice([0, 1, 2, 3, 5])
        items = [self.expr(depth + 1) for _ in range(n)]
        return tuple(items) if rng.random() < 0.25 else items


def norm(x):
    if isinstance(x, (list, tuple)):
        return [norm(e) for e in x]
    return x


def same(a, b):
    """a: expected (normalised), b: received."""
    if isinstance(a, list):
        return type(b) is list and len(a) == len(b) and all(same(x, y) for x, y in zip(a, b))
    if isinstance(a, float):
        return type(b) is float and struct.pack("!d", a) == struct.pack("!d", b)
    return type(a) is type(b) and a == b


def show(x, depth=0):
    if isinstance(x, (list, tuple)):
        return [show(e, depth + 1) for e in x][:30]
    if isinstance(x, float):
        return "float:%s:%s" % (x, struct.pack("!d", x).hex())
    if isinstance(x, bytes) and len(x) > 64:
        return "bytes[%d]" % len(x)
    if isinstance(x, int) and abs(x) > 2 ** 64:
        return "int:%x" % x
    return x


class T:
    disconnecting = False

    def __init__(self):
        self.out = []
        self.closed = False

    def write(self, data):
        self.out.append(bytes(data))

    def loseConnection(self):
        self.closed = True

    def take(self):
        d = b"".join(self.out)
        del self.out[:]
        return d


_cls = {}


def banana_cls():
    if not _cls:
        from twisted.spread import banana

        class B(banana.Banana):
            def connectionReady(self):
                self.ready = True

            echo = False

            def expressionReceived(self, obj):
                self.got.append(obj)
                if self.echo:  # application code sending from inside the delivery callback
                    self.sendEncoded(obj)

        _cls["B"] = B
        _cls["mod"] = banana
    return _cls["B"], _cls["mod"]


def connect(dialect):
    """-> (server, client) with the dialect negotiated through the wire."""
    B, _ = banana_cls()
    s, c = B(isClient=0), B(isClient=1)
    if dialect == "none":
        c.knownDialects = [b"none"]
    for p in (s, c):
        p.got = []
        p.ready = False
        p.makeConnection(T())
    c.dataReceived(s.transport.take())
    s.dataReceived(c.transport.take())
    if not (s.ready and c.ready and s.currentDialect == c.currentDialect == dialect.encode()):
        raise RuntimeError("banana handshake failed: %r %r" % (s.currentDialect, c.currentDialect))
    return s, c


_hello = {}


def fresh_receiver(dialect, to_server):
    """A new negotiated receiver: the peer's recorded handshake bytes are replayed into a fresh
    instance, so the dialect is still selected by the real code (half the cost of connect())."""
    key = (dialect, to_server)
    if key not in _hello:
        B, _ = banana_cls()
        s, c = B(isClient=0), B(isClient=1)
        if dialect == "none":
            c.knownDialects = [b"none"]
        for p in (s, c):
            p.got, p.ready = [], False
            p.makeConnection(T())
        offer = s.transport.take()
        c.dataReceived(offer)
        _hello[key] = c.transport.take() if to_server else offer
    B, _ = banana_cls()
    rx = B(isClient=0 if to_server else 1)
    if dialect == "none" and not to_server:
        rx.knownDialects = [b"none"]
    rx.got, rx.ready = [], False
    rx.makeConnection(T())
    rx.dataReceived(_hello[key])
    if not rx.ready or rx.currentDialect != dialect.encode():
        raise RuntimeError("banana handshake replay failed: %r" % (rx.currentDialect,))
    return rx


def cuts_for(rng, wire, quick):
    n = len(wire)
    seen = set()
    if n <= 200:
        for p in range(1, n):
            seen.add((p,))
            yield (p,)
    if n <= (24 if quick else 28):
        for a in range(1, n):
            for b in range(a + 1, n):
                yield (a, b)
    for _ in range(4 if n < 5000 else 2):
        if n >= 5000:
            c = tuple(sorted(set(rng.randrange(1, n) for _ in range(rng.randint(1, 5)))))
        else:
            pos, acc = [], 0
            for pc in random_split(rng, wire, 24)[:-1]:
                acc += len(pc)
                pos.append(acc)
            c = tuple(pos)
        if c and c not in seen:
            seen.add(c)
            yield c


def pieces_of(wire, cuts):
    prev, out = 0, []
    for c in cuts:
        out.append(wire[prev:c])
        prev = c
    out.append(wire[prev:])
    return [p for p in out if p]


def decode(dialect, to_server, pieces):
    """Deliver pieces to a fresh, negotiated receiver.  -> (expressions, error or None)"""
    rx = fresh_receiver(dialect, to_server)
    try:
        for p in pieces:
            rx.dataReceived(p)
    except Exception as e:
        return rx.got, e
    return rx.got, None


def check_roundtrip(ctx, rng, case, exprs=None, dialect=None, to_server=None):
    _, banana = banana_cls()
    dialect = dialect or rng.choice(["none", "pb"])
    to_server = rng.random() < 0.5 if to_server is None else to_server
    vocab = sorted(banana.Banana.outgoingVocabulary)
    if exprs is None:
        g = Gen(ctx, rng, vocab)
        exprs = [g.expr() for _ in range(rng.choice([1, 1, 2, 3]))]
        if g.maxdepth >= 4:
            ctx.count("depth_ge_4")
        if g.vocab_used and dialect == "pb":
            ctx.count("vocab_words_pb")
    s, c = connect(dialect)
    tx = c if to_server else s
    try:
        for e in exprs:
            tx.sendEncoded(e)
    except Exception as e:
        ctx.violation("encodable-value-refused", "sendEncoded raised %s for a structure within the limits" % type(e).__name__,
                      {"case": case, "dialect": dialect, "expressions": show(exprs), "error": "%s: %s" % (type(e).__name__, e)})
        return None
    wire = tx.transport.take()
    expected = [norm(e) for e in exprs]
    ctx.count("roundtrip_streams")
    ctx.evaluated()
    if len(wire) > 2:
        ctx.distinct((dialect, wire))
    nruns = 0
    for cuts in [()] + list(cuts_for(rng, wire, ctx.quick)):
        got, err = decode(dialect, to_server, pieces_of(wire, cuts))
        nruns += 1
        ctx.count("decoder_runs")
        ctx.count("expressions_compared", len(expected))
        if err is not None or len(got) != len(expected) or not all(same(a, b) for a, b in zip(expected, got)):
            key = "decoder-raises-on-valid-stream" if err is not None else "roundtrip-mismatch"
            ctx.violation(key, "decoded expressions differ from the encoded ones" + (" (%s: %s)" % (type(err).__name__, err) if err is not None else ""),
                          {"case": case, "dialect": dialect, "to_server": to_server, "sent": show(exprs), "wire_hex": wire.hex() if len(wire) < 3000 else None,
                           "wire_len": len(wire), "cuts": list(cuts), "received": show(got)})
            break
    ctx.evaluated(nruns - 1)
    if rng.random() < 0.25 and len(wire) < 4000:
        check_echo(ctx, rng, case, dialect, to_server, exprs, expected, wire)
    return exprs, wire, nruns


def check_echo(ctx, rng, case, dialect, to_server, exprs, expected, wire):
    """Re-entrant use: the receiver sends every expression back from inside expressionReceived (the
    decoded values are re-encoded while dataReceived is still running); the echo must decode to the
    same expressions again."""
    rx = fresh_receiver(dialect, to_server)
    rx.transport.take()
    rx.echo = True
    err = None
    try:
        for p in (random_split(rng, wire, 12) if rng.random() < 0.5 else [wire]):
            rx.dataReceived(p)
    except Exception as e:
        err = e
    back = rx.transport.take()
    got2, err2 = (None, None) if err is not None else decode(dialect, not to_server, [back] if back else [])
    ctx.count("echo_roundtrips")
    ctx.evaluated()
    if err is not None or err2 is not None or len(got2) != len(expected) or not all(same(a, b) for a, b in zip(expected, got2)):
        ctx.violation("echo-from-expressionreceived-mismatch", "expressions re-sent from inside expressionReceived do not decode to the original ones",
                      {"case": case, "dialect": dialect, "sent": show(exprs), "error": repr(err or err2), "echo_decoded": show(got2) if got2 is not None else None})


class Unsupported:
    pass


def check_encode_refusal(ctx, rng, case):
    _, banana = banana_cls()
    dialect = rng.choice(["none", "pb"])
    kind = rng.choice(["int-over", "int-under", "int-far", "str", "none", "dict", "set", "object", "bytearray", "complex"] + (["bytes-over", "list-over"] if rng.random() < 0.15 else ["int-over"]))
    bad = {"int-over": LIMIT + 1, "int-under": -LIMIT - 1, "int-far": rng.choice([1, -1]) * (LIMIT + rng.getrandbits(500) + 2), "str": "text", "none": None,
           "dict": {b"a": 1}, "set": {1}, "object": Unsupported(), "bytearray": bytearray(b"ab"), "complex": 1j}.get(kind)
    if kind == "bytes-over":
        bad = b"x" * (banana.SIZE_LIMIT + 1)
    elif kind == "list-over":
        bad = [0] * (banana.SIZE_LIMIT + 1)
    nest = rng.choice([0, 0, 1, 2])
    val = bad
    for _ in range(nest):
        val = [b"before", 5, val, b"after"]
    s, c = connect(dialect)
    s.sendEncoded([b"first", 1])
    mark = len(s.transport.out)
    raised = None
    try:
        s.sendEncoded(val)
    except banana.BananaError as e:
        raised = "BananaError"
    except Exception as e:
        raised = type(e).__name__
    wrote = b"".join(s.transport.out[mark:])
    s.sendEncoded([b"last", 2.5])
    wire = s.transport.take()
    ctx.count("encode_refusal_cases")
    ctx.evaluated()
    ctx.distinct(("enc-refusal", kind, nest, dialect))
    ctx.seen("encode_refusal_kinds", "%s -> %s" % (kind, raised))
    w = {"case": case, "kind": kind, "nesting": nest, "dialect": dialect, "raised": raised, "written": wrote[:40]}
    if raised != "BananaError":
        ctx.violation("unencodable-value-accepted-" + kind if raised is None else "unencodable-value-wrong-exception-" + kind,
                      "sendEncoded of a value outside the limits %s" % ("did not raise" if raised is None else "raised %s instead of BananaError" % raised), w)
        return
    ctx.count("encode_refusals")
    if wrote:
        ctx.violation("refused-value-partially-written", "sendEncoded raised BananaError but wrote bytes", w)
        return
    got, err = decode(dialect, False, random_split(rng, wire, 8))
    if err is not None or not (len(got) == 2 and same([b"first", 1], got[0]) and same([b"last", 2.5], got[1])):
        ctx.violation("stream-corrupted-after-encode-refusal", "expressions around a refused one are not received intact", dict(w, received=show(got), error=repr(err)))


def b128(n):
    out = bytearray()
    if n == 0:
        return b"\x00"
    while n:
        out.append(n & 0x7F)
        n >>= 7
    return bytes(out)


def check_decode_refusal(ctx, rng, case):
    _, banana = banana_cls()
    kind = rng.choice(["prefix-65-typed", "prefix-long-typed", "prefix-65-untyped", "prefix-64-ok", "string-over", "list-over", "bad-type", "vocab-none", "vocab-unknown"])
    dialect = {"vocab-none": "none", "vocab-unknown": "pb"}.get(kind) or rng.choice(["none", "pb"])
    must_banana = True
    good = [b"ok", 7]
    s, c = connect(dialect)
    s.sendEncoded(good)
    head = s.transport.take() if rng.random() < 0.6 else b""
    in_list = rng.random() < 0.3
    lead = b"\x03\x80" if in_list else b""
    if kind == "prefix-65-typed":
        body = bytes(rng.randint(0, 127) for _ in range(65)) + rng.choice([b"\x81", b"\x85", b"\x83", b"\x86", b"\x82", b"\x80"])
    elif kind == "prefix-long-typed":
        body = bytes(rng.randint(1, 127) for _ in range(rng.choice([66, 100, 500]))) + rng.choice([b"\x81", b"\x85", b"\x86"])
    elif kind == "prefix-65-untyped":
        body = bytes(rng.randint(0, 127) for _ in range(rng.choice([65, 66, 130])))
    elif kind == "prefix-64-ok":
        body = bytes(rng.randint(0, 127) for _ in range(63)) + bytes([rng.randint(1, 127)]) + rng.choice([b"\x85", b"\x86", b"\x81"])
        must_banana = None  # positive control: accepted
    elif kind == "string-over":
        body = b128(banana.SIZE_LIMIT + rng.choice([1, 2, 1000, 2 ** 40])) + b"\x82" + b"xx"
    elif kind == "list-over":
        body = b128(banana.SIZE_LIMIT + rng.choice([1, 2, 1000, 2 ** 40])) + b"\x80" + b"\x01\x81"
    elif kind == "bad-type":
        body = b128(rng.randint(0, 300)) + bytes([rng.randint(0x88, 0xFF)]) + b"\x01\x81"
        must_banana = False
    elif kind == "vocab-none":
        body = b128(rng.randint(1, 31)) + b"\x87"
        must_banana = False
    else:
        body = b128(rng.choice([0, 32, 33, 1000])) + b"\x87"
        must_banana = False
    wire = head + lead + body
    bytewise = kind == "prefix-65-untyped" and rng.random() < 0.5
    pieces = [wire[i:i + 1] for i in range(len(wire))] if bytewise else (random_split(rng, wire, 16) if rng.random() < 0.6 else [wire])
    ctx.count("decode_refusal_cases")
    ctx.evaluated()
    ctx.distinct(("dec-refusal", kind, dialect, wire))
    exp_before = [good] if head else []
    exp_val = None
    if must_banana is None:
        n = 0
        for i, ch in enumerate(body[:64]):
            n += ch << (7 * i)
        exp_val = -n if body[64:65] == b"\x86" else n

    def judge(pieces, main):
        got, err = decode(dialect, False, pieces)
        w = {"case": case, "kind": kind, "dialect": dialect, "wire_hex": wire.hex() if len(wire) < 1500 else None, "piece_lengths": [len(p) for p in pieces][:70],
             "in_list": in_list, "error": repr(err), "received": show(got)}
        if main:
            ctx.seen("decode_refusal_kinds", "%s -> %s" % (kind, type(err).__name__ if err is not None else "accepted"))
        if must_banana is None:
            ctx.count("prefix_64_accepted")
            if err is not None or (not in_list and (len(got) != len(exp_before) + 1 or got[-1] != exp_val)):
                ctx.violation("max-prefix-rejected", "a 64-byte prefix (the documented maximum) was not decoded", w)
            return
        if err is None:
            ctx.violation("malformed-stream-accepted-" + kind, "no exception for a stream that must be refused", w)
            return
        if must_banana and not isinstance(err, banana.BananaError):
            ctx.violation("limit-violation-wrong-exception-" + kind, "oversized prefix/length raised %s instead of BananaError" % type(err).__name__, w)
            return
        ctx.count("decode_refusals")
        if main and bytewise:
            ctx.count("bytewise_overlong_prefix")
        if not (len(got) == len(exp_before) and all(same(norm(a), b) for a, b in zip(exp_before, got))):
            ctx.violation("mis-decoding-before-refusal", "expressions delivered before the refusal are not exactly the valid ones", dict(w, expected=show(exp_before)))

    judge(pieces, True)
    if kind.startswith("prefix-") and len(wire) <= 160:
        # the prefix limit delivered split at every offset
        for cut in range(1, len(wire)):
            judge([wire[:cut], wire[cut:]], False)
            ctx.count("prefix_boundary_split_runs")
        ctx.evaluated(len(wire) - 1)


def check_size_limit_values(ctx):
    """Byte string and list of exactly SIZE_LIMIT elements are inside the limits (once per shard)."""
    _, banana = banana_cls()
    rng = ctx.case_rng("sizelimit", ctx.shard)
    big = bytes(rng.getrandbits(8) for _ in range(1024)) * (banana.SIZE_LIMIT // 1024)
    assert len(big) == banana.SIZE_LIMIT
    check_roundtrip(ctx, rng, ["sizelimit-bytes", ctx.shard], exprs=[[b"a", big, 1]], dialect="pb" if ctx.shard % 2 else "none")
    ctx.count("size_limit_strings")
    if not ctx.quick and ctx.shard == 0:
        check_roundtrip(ctx, rng, ["sizelimit-list", 0], exprs=[[1] * banana.SIZE_LIMIT], dialect="none")
        ctx.count("size_limit_lists")


def do_case(ctx, kind, i):
    if kind == "rt":
        return check_roundtrip(ctx, ctx.case_rng("rt", i), ["rt", i])
    if kind == "enc":
        return check_encode_refusal(ctx, ctx.case_rng("enc", i), ["enc", i])
    return check_decode_refusal(ctx, ctx.case_rng("dec", i), ["dec", i])


def run(ctx):
    banana_cls()
    check_size_limit_values(ctx)
    samples = 0
    for i in ctx.cases(3200, 150000):
        r = do_case(ctx, "rt", i)
        if r and samples < 3 and 6 < len(r[1]) < 50:
            samples += 1
            ctx.sample({"sent": show(r[0]), "wire": r[1], "deliveries_run": r[2], "result": "every delivery decoded to the sent expressions"})
        if i % 4 == 0:
            do_case(ctx, "enc", i)
        if i % 3 == 0:
            do_case(ctx, "dec", i)


def replay(ctx, w):
    """Cases are pure functions of (seed, kind, index)."""
    banana_cls()
    case = w["witness"].get("case")
    if not case or case[0] not in ("rt", "enc", "dec"):
        print("replay: re-run with VERIF_SEED=%s (case %r)" % (w.get("seed"), case))
        return
    do_case(ctx, case[0], case[1])
    for k, v in ctx.violations.items():
        print("replayed %s: %s: %s" % (case, k, v["what"]))
