"""C46 Endpoint description quoting round-trips.

Monitored: the real `quoteStringArgument`, `_parse`, `serverFromString` and `clientFromString` of
twisted.internet.endpoints.  For a text t the quoted form is inserted at one argument position of
a description template (first / middle / last positional, keyword value first / middle / last) and
the description is parsed.

Oracle (exactly the statement): the parsed args/kwargs equal the template's other arguments
unchanged with t at the chosen position.  End to end, `serverFromString`/`clientFromString` on a
recording reactor must hand exactly t to listenUNIX(address) / listenTCP(interface=) /
connectTCP(host, bindAddress) / connectUNIX(path).

Multi-argument family: two or three quoted texts in one description (positional and keyword mixed, empty
texts and equal texts in different positions, every triple over the hot alphabet up to length 2) — each must
come back at its own position, so state carried by the tokenizer/parser from one argument to the next shows.

Guards: only `str` descriptions (quoteStringArgument is documented for str); keyword *names* are
never generated from the text (the statement is about argument values); plugin-based endpoint types
are not used (getPlugins may write a dropin cache under /repo); ssl descriptions are not used (need
pyOpenSSL and key files).

Classification: a failure is `quote-equals-positional` only when (a) the position is positional,
(b) the text contains '=', and (c) the *same* description with every '=' of the quoted text
additionally backslash-escaped parses to the expected result — i.e. the only thing wrong is that
quoteStringArgument leaves '=' unescaped.  Everything else is `parse-mismatch` /
`endpoint-mismatch` / `quote-raises`.
"""
import itertools

LEVEL = "exploration"
ENGINE = "core"
TECHNIQUE = "runtime monitoring: round-trip oracle on parsed args/kwargs and on reactor calls made by the constructed endpoints"
RULE = ("exhaustive: every string over {':','=','\\\\','a'} up to length 5 (quick) / 6 (thorough) in every "
        "template position; random: texts of length 0..14 over an alphabet rich in ':', '=', '\\\\', "
        "non-ASCII, control characters and structured shapes (trailing backslash, Windows paths, IPv6 "
        "literals, key=value look-alikes).  Every text is run in all 7 _parse template positions and "
        "(every 4th random text, every short exhaustive text) in 9 server/client endpoint templates.  "
        "Distinct = distinct texts; non-trivial = the text contains a character the grammar treats "
        "specially (':', '=', '\\\\') or is empty / non-ASCII.")
ASSUMPTIONS = ["trusted base: the expected (args, kwargs) of each template is written by hand next to the template",
               "the recording reactor stands for IReactorTCP/IReactorUNIX; only the arguments it receives are compared"]
SHARDS = {"quick": 4, "thorough": 16}
FLOORS = {"multi_slot_roundtrips": 10000, "multi_slot_with_empty_text": 2000, "multi_slot_with_equal_texts": 1000, "multi_slot_endpoint_roundtrips": 200,
          "parse_roundtrips": 2000, "endpoint_roundtrips": 300, "positional_positions": 500,
          "keyword_positions": 500, "texts_with_colon": 100, "texts_with_backslash": 100,
          "texts_with_equals": 100, "texts_trailing_backslash": 20}
READY = True

SLOT = object()

# (name, pieces, expected args, expected kwargs); SLOT marks where the quoted text / the text goes.
PARSE_TEMPLATES = [
    ("pos-first", ["tcp:", SLOT, ":8080:interface=10.0.0.1"], ["tcp", SLOT, "8080"], {"interface": "10.0.0.1"}),
    ("pos-middle", ["x:first:", SLOT, ":last"], ["x", "first", SLOT, "last"], {}),
    ("pos-last", ["unix:k=v:", SLOT], ["unix", SLOT], {"k": "v"}),
    ("pos-only", [SLOT], [SLOT], {}),
    ("kw-first", ["ssl:443:privateKey=", SLOT, ":certKey=c.pem"], ["ssl", "443"], {"privateKey": SLOT, "certKey": "c.pem"}),
    ("kw-middle", ["tcp:80:a=1:path=", SLOT, ":z=26:tail"], ["tcp", "80", "tail"], {"a": "1", "path": SLOT, "z": "26"}),
    ("kw-last", ["unix:/s:mode=660:name=", SLOT], ["unix", "/s"], {"mode": "660", "name": SLOT}),
]


def build(pieces, q):
    return "".join(q if p is SLOT else p for p in pieces)


def fill(x, t):
    if isinstance(x, list):
        return [t if v is SLOT else v for v in x]
    return {k: (t if v is SLOT else v) for k, v in x.items()}


class RecReactor:
    """Records what the endpoints ask the reactor for."""

    def __init__(self):
        self.calls = []

    def listenTCP(self, port, factory, backlog=50, interface=""):
        self.calls.append(("listenTCP", port, backlog, interface))
        return object()

    def listenUNIX(self, address, factory, backlog=50, mode=0o666, wantPID=0):
        self.calls.append(("listenUNIX", address, backlog, mode, bool(wantPID)))
        return object()

    def connectTCP(self, host, port, factory, timeout=30, bindAddress=None):
        self.calls.append(("connectTCP", host, port, timeout, bindAddress))
        return object()

    def connectUNIX(self, address, factory, timeout=30, checkPID=0):
        self.calls.append(("connectUNIX", address, timeout, bool(checkPID)))
        return object()


# (name, kind, positional?, pieces, expected reactor call)
ENDPOINT_TEMPLATES = [
    ("srv-unix-pos", "server", True, ["unix:", SLOT, ":mode=660:backlog=7:lockfile=0"], ("listenUNIX", SLOT, 7, 0o660, False)),
    ("srv-unix-kw", "server", False, ["unix:address=", SLOT, ":mode=600"], ("listenUNIX", SLOT, 50, 0o600, True)),
    ("srv-tcp-kw", "server", False, ["tcp:8080:interface=", SLOT, ":backlog=9"], ("listenTCP", 8080, 9, SLOT)),
    ("srv-tcp-pos", "server", True, ["tcp:8081:", SLOT], ("listenTCP", 8081, 50, SLOT)),
    ("cli-tcp-pos", "client", True, ["tcp:", SLOT, ":80:timeout=5"], ("connectTCP", SLOT, 80, 5, None)),
    ("cli-tcp-kw", "client", False, ["tcp:host=", SLOT, ":port=81"], ("connectTCP", SLOT, 81, 30, None)),
    ("cli-tcp-bind", "client", False, ["tcp:example.com:82:bindAddress=", SLOT], ("connectTCP", "example.com", 82, 30, (SLOT, 0))),
    ("cli-unix-pos", "client", True, ["unix:", SLOT, ":lockfile=1:timeout=9"], ("connectUNIX", SLOT, 9, True)),
    ("cli-unix-kw", "client", False, ["unix:path=", SLOT, ":timeout=4"], ("connectUNIX", SLOT, 4, False)),
]


def fill_call(call, t):
    out = []
    for v in call:
        if v is SLOT:
            out.append(t)
        elif isinstance(v, tuple):
            out.append(tuple(t if x is SLOT else x for x in v))
        else:
            out.append(v)
    return tuple(out)


def run_endpoint(E, kind, desc):
    """-> ("call", recorded call) | ("raise", repr)."""
    from twisted.internet.protocol import Factory

    r = RecReactor()
    try:
        if kind == "server":
            ep = E.serverFromString(r, desc)
            ep.listen(Factory())
        else:
            ep = E.clientFromString(r, desc)
            d = ep.connect(Factory())
            d.addErrback(lambda f: None)
    except Exception as e:
        return ("raise", "%s: %s" % (type(e).__name__, str(e)[:120]))
    if len(r.calls) != 1:
        return ("raise", "reactor calls: %r" % (r.calls,))
    return ("call", r.calls[0])


def parse(E, desc):
    try:
        a, k = E._parse(desc)
        return (list(a), dict(k))
    except BaseException as e:  # StopIteration from the tokenizer would be a RuntimeError; keep anything
        return ("raise", "%s: %s" % (type(e).__name__, str(e)[:120]))


def equals_escaped(q):
    """The quoted text with every '=' additionally backslash-escaped (counterfactual quoting);
    existing escape pairs are kept intact."""
    out = []
    i = 0
    while i < len(q):
        c = q[i]
        if c == "\\" and i + 1 < len(q):
            out.append(q[i:i + 2])
            i += 2
            continue
        out.append("\\=" if c == "=" else c)
        i += 1
    return "".join(out)


def check_text(ctx, E, t, with_endpoints=True):
    try:
        q = E.quoteStringArgument(t)
    except Exception as e:
        ctx.violation("quote-raises", "quoteStringArgument raised", {"text": t, "error": repr(e)})
        return
    special = (":" in t) or ("\\" in t) or ("=" in t) or t == "" or any(ord(c) > 127 for c in t)
    if ":" in t:
        ctx.count("texts_with_colon")
    if "\\" in t:
        ctx.count("texts_with_backslash")
    if "=" in t:
        ctx.count("texts_with_equals")
    if t.endswith("\\"):
        ctx.count("texts_trailing_backslash")
    if special:
        ctx.distinct(t)
    for name, pieces, eargs, ekw in PARSE_TEMPLATES:
        desc = build(pieces, q)
        exp = (fill(eargs, t), fill(ekw, t))
        got = parse(E, desc)
        ctx.evaluated()
        ctx.count("parse_roundtrips")
        positional = name.startswith("pos")
        ctx.count("positional_positions" if positional else "keyword_positions")
        if got != exp:
            key = "parse-mismatch"
            if positional and "=" in t:
                alt = parse(E, build(pieces, equals_escaped(q)))
                if alt == exp:
                    key = "quote-equals-positional"
            ctx.violation(key, "parsed (args, kwargs) differ from the template with the text at position %s" % name,
                          {"text": t, "quoted": q, "template": name, "description": desc,
                           "expected": exp, "observed": got, "kind": "parse"})
    if not with_endpoints:
        return
    for name, kind, positional, pieces, call in ENDPOINT_TEMPLATES:
        desc = build(pieces, q)
        exp = ("call", fill_call(call, t))
        got = run_endpoint(E, kind, desc)
        ctx.evaluated()
        ctx.count("endpoint_roundtrips")
        ctx.seen("reactor_calls", exp[1][0])
        if got != exp:
            key = "endpoint-mismatch"
            if positional and "=" in t:
                alt = run_endpoint(E, kind, build(pieces, equals_escaped(q)))
                if alt == exp:
                    key = "quote-equals-positional"
            ctx.violation(key, "%sFromString did not pass the text through at %s" % (kind, name),
                          {"text": t, "quoted": q, "template": name, "description": desc,
                           "expected": exp, "observed": got, "kind": "endpoint"})


ALPHA_HOT = [":", "=", "\\"]
ALPHA_PLAIN = list("ab/. -_0") + ["é", "ß", "中", "\U0001f600", "\n", "\t", "\x00", ",", ";", "'", '"', "%", "[", "]"]
SHAPES = ["C:\\Users\\x", "C:\\", "::1", "[::1]:80", "fe80::1%eth0", "a=b", "=", "==", "a=", "=b", "k=v:w", "\\", "\\\\",
          "\\:", ":\\", "\\=", "a\\", "a:\\", "/var/run/x.sock", "host=h:port=1", "", ":", "::", "a:b=c"]


def gen_text(rng):
    r = rng.random()
    if r < 0.12:
        base = rng.choice(SHAPES)
        if rng.random() < 0.5:
            return base
        return base + gen_text(rng)[:6] if rng.random() < 0.5 else gen_text(rng)[:6] + base
    n = rng.choice([0, 1, 1, 2, 2, 3, 3, 4, 5, 6, 8, 10, 14])
    hot = rng.choice([0.2, 0.5, 0.8])
    out = []
    for _ in range(n):
        out.append(rng.choice(ALPHA_HOT) if rng.random() < hot else rng.choice(ALPHA_PLAIN))
    return "".join(out)


# ---- several quoted texts in ONE description (state carried from one argument to the next) -------------
S0, S1, S2 = object(), object(), object()
MULTI_TEMPLATES = [
    ("pos-pos-kw", ["x:", S0, ":", S1, ":k=", S2], ["x", S0, S1], {"k": S2}),
    ("pos-kw-pos", ["tcp:", S0, ":a=", S1, ":", S2], ["tcp", S0, S2], {"a": S1}),
    ("kw-kw-pos", ["unix:p=", S0, ":q=", S1, ":", S2], ["unix", S2], {"p": S0, "q": S1}),
]
MULTI_ENDPOINT = ("cli-tcp-host-bind-timeout", "client", ["tcp:host=", S0, ":port=80:bindAddress=", S1, ":timeout=", S2])


def check_multi(ctx, E, texts, with_endpoint):
    try:
        qs = [E.quoteStringArgument(t) for t in texts]
    except Exception as e:
        ctx.violation("quote-raises", "quoteStringArgument raised", {"texts": texts, "error": repr(e)})
        return
    m = dict(zip((S0, S1, S2), zip(texts, qs)))
    sub = lambda x, j: m[x][j] if x in m else x
    ctx.distinct(("multi",) + tuple(texts))
    for name, pieces, eargs, ekw in MULTI_TEMPLATES:
        desc = "".join(sub(p, 1) for p in pieces)
        exp = ([sub(a, 0) for a in eargs], {k: sub(v, 0) for k, v in ekw.items()})
        got = parse(E, desc)
        ctx.evaluated()
        ctx.count("multi_slot_roundtrips")
        if "" in texts:
            ctx.count("multi_slot_with_empty_text")
        if len(set(texts)) < 3:
            ctx.count("multi_slot_with_equal_texts")
        if got != exp:
            ctx.violation("multi-argument-mismatch", "several quoted texts in one description: parsed (args, kwargs) differ at %s" % name,
                          {"texts": texts, "quoted": qs, "template": name, "description": desc, "expected": exp, "observed": got, "kind": "multi"})
    if with_endpoint and texts[2].isdigit() and len(texts[2]) < 6:
        name, kind, pieces = MULTI_ENDPOINT
        desc = "".join(sub(p, 1) for p in pieces)
        exp = ("call", ("connectTCP", texts[0], 80, int(texts[2]), (texts[1], 0)))
        got = run_endpoint(E, kind, desc)
        ctx.evaluated()
        ctx.count("multi_slot_endpoint_roundtrips")
        if got != exp:
            ctx.violation("multi-argument-mismatch", "clientFromString with two quoted texts did not pass them through",
                          {"texts": texts, "description": desc, "expected": exp, "observed": got, "kind": "multi-endpoint"})


def run(ctx):
    from twisted.internet import endpoints as E

    # every triple of texts of length <= 2 (quick: <= 1 for the third) over the hot alphabet, in three multi-argument templates
    small = [""] + ["".join(t) for n in (1, 2) for t in itertools.product(":=\\a", repeat=n)]
    k = 0
    for t0 in small:
        for t1 in small:
            k += 1
            if not ctx.owns(k):
                continue
            for t2 in (small if not ctx.quick else small[:5]):
                check_multi(ctx, E, [t0, t1, t2], False)
    for i in ctx.cases(6000, 150000):
        rng = ctx.case_rng("multi", i)
        texts = [gen_text(rng) if rng.random() < 0.8 else "" for _ in range(3)]
        if rng.random() < 0.25:
            texts[rng.randrange(3)] = texts[rng.randrange(3)]  # equal texts in two positions
        ep = rng.random() < 0.3
        if ep:
            texts[2] = str(rng.randrange(1, 99999))
        check_multi(ctx, E, texts, ep)

    # exhaustive small alphabet
    maxlen = 5 if ctx.quick else 6
    k = 0
    for n in range(maxlen + 1):
        for tup in itertools.product(":=\\a", repeat=n):
            k += 1
            if not ctx.owns(k):
                continue
            check_text(ctx, E, "".join(tup), with_endpoints=(n <= 4))
            ctx.count("exhaustive_texts")
    for i in ctx.cases(50000, 1000000):
        rng = ctx.case_rng(i)
        t = gen_text(rng)
        check_text(ctx, E, t, with_endpoints=(i % 4 == 0))
        ctx.count("random_texts")
        ctx.maxi("text_len", len(t))
        if i < 4:
            ctx.sample({"text": t, "quoted": E.quoteStringArgument(t),
                        "parsed_kw_last": parse(E, build(PARSE_TEMPLATES[-1][1], E.quoteStringArgument(t)))})


def replay(ctx, w):
    from twisted.internet import endpoints as E

    check_text(ctx, E, w["witness"]["text"])
