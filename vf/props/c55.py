"""C55 Log formatting never raises — hostile events against the real text-formatting functions.

Monitor: every call of formatEvent, eventAsText (all flag combinations),
formatEventAsClassicLogText, formatUnformattableEvent and the legacy
twisted.python.log.textFromEventDict on a generated hostile event is wrapped; the oracle is
"returned str (or None where documented: classic text / legacy text) and raised nothing".

Generator guards (what is deliberately NOT generated, so that the oracle never demands more than
the statement): hostile objects only raise Exception subclasses (KeyboardInterrupt / SystemExit /
GeneratorExit are excluded by design); only __str__/__repr__/__format__/__getattr__/__getitem__/
__call__ are hostile (never __bool__/__hash__/__eq__, dunder attribute lookups always behave);
events are real dicts; legacy events always carry the mandatory "message" (a tuple) and "isError"
keys; a log_failure stand-in's getTraceback() either raises or returns text (a traceback renderer
returning non-text is outside "failures"); no astronomically wide format specs (memory).

Violations are classified by delta debugging on the decoration fields: the minimal set of
log_time/log_level/log_namespace whose removal stops the exception names the mechanism
(log-decoration-raises-time / -level / -namespace), and only if the function really decorates with
that field, the value is not an ordinary one and rendering the value on its own raises; everything
else keeps a generic key (format-raises, non-text-result).
"""
LEVEL = "exploration"
ENGINE = "core"
TECHNIQUE = "runtime monitoring: every formatter call on hostile events must return text and never raise"
RULE = ("random events from a recipe grammar: format strings built from fields with attribute/index "
        "chains, () call syntax (end and mid-path), conversions !r !s !a !x, valid/invalid/nested specs (nested fields "
        "with their own conversions, paths and a second nesting level, over hostile values), "
        "malformed braces, then char-level mutation; str / utf-8 bytes / invalid-utf-8 bytes / non-text "
        "formats; values = plain data or hostile objects whose str/repr/format/getattr/getitem/call "
        "raise (17 exception types incl. one whose own str raises) or return non-text; odd "
        "log_time/log_level/log_namespace/log_system/log_failure; non-str keys; pre-flattened and "
        "bogus log_flattened; legacy %-format dicts.  Distinct = (format, event recipe); non-trivial = "
        "at least one hostile ingredient (hostile object, malformed/non-text format, odd decoration).")
ASSUMPTIONS = ["trusted base: the recipe->object builder of this module (hostile classes H, EvilStr, FakeFailure)",
               "BaseException subclasses outside Exception are never raised by generated objects (by design)"]
SHARDS = {"quick": 4, "thorough": 16}
FLOORS = {"calls_returned_text": 20000, "events_hostile": 2000, "hostile_ops_triggered": 2000,
          "fallback_texts": 500, "legacy_calls": 3000, "events_with_failure": 300,
          "nested_spec_fields_on_hostile_values": 300, "conversions_on_hostile_repr_or_str": 300,
          "legacy_branch_error": 1000, "legacy_branch_format": 1000, "legacy_branch_message": 500, "legacy_hostile_why": 400,
          "legacy_hostile_failure": 300, "legacy_hostile_message_items": 300, "legacy_hostile_format_keys": 80,
          "legacy_hostile_system_via_format_key": 30, "legacy_hostile_time_via_format_key": 20}
READY = True

EXC = ["ValueError", "TypeError", "KeyError", "AttributeError", "IndexError", "RuntimeError",
       "ZeroDivisionError", "UnicodeDecodeError", "UnicodeEncodeError", "RecursionError", "MemoryError",
       "OverflowError", "StopIteration", "AssertionError", "NotImplementedError", "OSError", "EvilStr"]


class EvilStr(Exception):
    """An exception whose own str/repr raise."""

    def __str__(self):
        raise ValueError("evil __str__ of exception")

    def __repr__(self):
        raise ValueError("evil __repr__ of exception")


def make_exc(name):
    if name == "EvilStr":
        return EvilStr("evil")
    if name == "UnicodeDecodeError":
        return UnicodeDecodeError("utf-8", b"\xff", 0, 1, "hostile")
    if name == "UnicodeEncodeError":
        return UnicodeEncodeError("ascii", "\xe9", 0, 1, "hostile")
    return getattr(__import__("builtins"), name)("hostile " + name)


class H:
    """Hostile object built from a behaviour table {op: ["ok", recipe] | ["raise", exc] | ["ret", recipe]}."""

    def __init__(self, beh, stats):
        object.__setattr__(self, "_beh", beh)
        object.__setattr__(self, "_stats", stats)

    def _do(self, op, default):
        mode = self._beh.get(op)
        if mode is None:
            return default
        self._stats[0] += 1
        if mode[0] == "raise":
            raise make_exc(mode[1])
        return build(mode[1], self._stats)

    def __str__(self):
        return self._do("str", "H-str")

    def __repr__(self):
        return self._do("repr", "<H>")

    def __format__(self, spec):
        if "format" not in self._beh:   # like object.__format__: format(str(self), spec)
            return format(str(self), spec)
        return self._do("format", "H-fmt")

    def __getattr__(self, name):
        if name.startswith("__"):
            raise AttributeError(name)
        mode = self._beh.get("getattr")
        if mode is None:
            raise AttributeError(name)
        return self._do("getattr", None)

    def __getitem__(self, k):
        mode = self._beh.get("getitem")
        if mode is None:
            raise KeyError(k)
        return self._do("getitem", None)

    def __call__(self):
        return self._do("call", "H-called")


class FakeFailure:
    """Not a Failure: getTraceback raises (or returns text)."""

    def __init__(self, mode, stats):
        self.mode = mode
        self.stats = stats

    def getTraceback(self, *a, **k):
        self.stats[0] += 1
        if self.mode[0] == "raise":
            raise make_exc(self.mode[1])
        return "fake traceback\n"


def build(r, stats):
    """Recipe (JSON-able nested lists) -> object."""
    k = r[0]
    if k == "int":
        return r[1]
    if k == "float":
        return float(r[1])
    if k == "str":
        return r[1]
    if k == "bytes":
        return r[1].encode("latin-1")
    if k == "none":
        return None
    if k == "bool":
        return bool(r[1])
    if k == "list":
        return [build(x, stats) for x in r[1]]
    if k == "tuple":
        return tuple(build(x, stats) for x in r[1])
    if k == "dict":
        return {build(a, stats): build(b, stats) for a, b in r[1]}
    if k == "H":
        return H(r[1], stats)
    if k == "level":
        from twisted.logger import LogLevel

        return LogLevel.lookupByName(r[1])
    if k == "const":
        from constantly import NamedConstant, Names

        class Other(Names):
            weird = NamedConstant()

        return Other.weird
    if k == "failure":
        from twisted.python.failure import Failure

        try:
            raise make_exc(r[1])
        except Exception:
            return Failure()
    if k == "failure_notb":
        from twisted.python.failure import Failure

        return Failure(make_exc(r[1]))
    if k == "fakefailure":
        return FakeFailure(r[1], stats)
    if k == "lambda":
        v = build(r[1], stats)
        return lambda: v
    raise ValueError("bad recipe %r" % (r,))


# ------------------------------------------------------------------------------------------------
# generators (pure data)

def g_plain(rng, depth=0):
    c = rng.randrange(12 if depth < 2 else 8)
    if c == 0:
        return ["int", rng.choice([0, 1, -1, 7, 42, 255, 10 ** 30, -10 ** 30])]
    if c == 1:
        return ["float", rng.choice(["3.14159", "nan", "inf", "-inf", "1e300", "-0.0", "2.5"])]
    if c in (2, 3):
        return ["str", rng.choice(["", "text", "{", "}", "{x}", "%s", "li\nne", "é中", "\ud800", "a" * 50])]
    if c == 4:
        return ["bytes", rng.choice(["", "abc", "\xff\xfe", "caf\xc3\xa9", "{a}"])]
    if c == 5:
        return ["none"]
    if c == 6:
        return ["bool", rng.randrange(2)]
    if c == 7:
        return ["level", rng.choice(["debug", "info", "warn", "error", "critical"])]
    if c == 8:
        return ["list", [g_value(rng, depth + 1) for _ in range(rng.randrange(3))]]
    if c == 9:
        return ["tuple", [g_value(rng, depth + 1) for _ in range(rng.randrange(3))]]
    if c == 10:
        return ["dict", [[rng.choice([["str", "k"], ["int", 0], ["str", "attr"], ["none"]]), g_value(rng, depth + 1)]
                         for _ in range(rng.randrange(3))]]
    return ["lambda", g_value(rng, depth + 1)]


NONTEXT = [["int", 5], ["none"], ["bytes", "by\xfftes"], ["list", []], ["float", "nan"]]


def g_mode(rng, depth):
    c = rng.random()
    if c < 0.5:
        return ["raise", rng.choice(EXC)]
    if c < 0.8:
        return ["ret", rng.choice(NONTEXT)]
    return ["ok", g_value(rng, depth + 1) if depth < 2 else ["str", "deep"]]


def g_hostile(rng, depth=0):
    beh = {}
    for op in ("str", "repr", "format", "getattr", "getitem", "call"):
        if rng.random() < 0.45:
            m = g_mode(rng, depth)
            if m[0] == "ok" and op in ("str", "repr", "format"):
                m = ["ok", ["str", "fine-" + op]]
            beh[op] = m
    if not beh:
        beh[rng.choice(["str", "repr", "format"])] = ["raise", rng.choice(EXC)]
    return ["H", beh]


def g_notfailure(rng):
    """A hostile object standing in for a Failure: attribute access fails (so getTraceback cannot be
    reached and cannot return non-text); str/repr/format may be hostile."""
    r = g_hostile(rng)
    if rng.random() < 0.5:
        r[1]["getattr"] = ["raise", rng.choice(EXC)]
    else:
        r[1].pop("getattr", None)
    return r


def g_value(rng, depth=0):
    return g_hostile(rng, depth) if rng.random() < 0.4 else g_plain(rng, depth)


NAMES = ["a", "b", "obj", "w", "p", "n", "log_format", "log_level", "log_time", "kéy"]
PATHS = [".attr", ".x", "[0]", "[k]", "[attr]", "()", ".attr()", ".x()", "[-1]", ".", "[", "[]", ".()", "()()", "..a", "[0", ".real", ".__class__"]
CONVS = ["", "", "", "!r", "!s", "!a", "!x", "!", "!rr", "!R"]
SPECS = ["", "", "", ":>10", ":05d", ":.2f", ":{w}", ":{w}.{p}", ":x", ":%Y", ":zz", ":{missing}", ":{a.b}", ":>{w}{w}",
         ":{{}}", ":{a!r}", ":{obj()}", ":{", ":}", ":^{w}s", ":,", ":{w:{p}}", ":é", ":!r", "::", ":.{p}f",
         # nested fields that reference (possibly hostile) values, with conversions, paths and a second nesting level
         ":{b!s}", ":{obj!a}", ":{a!r:>{w}}", ":{b:{a}}", ":{obj.attr!r}", ":>{a[0]!s}", ":{n!r}{b!s}", ":{a!x}", ":{b!r}.{obj!s}", ":{kéy!a}"]
LITS = ["", " ", "text ", "{{", "}}", "{", "}", "%s", "%(a)s", "\n", "é中", "}{", "{}", "{0}", "{!r}", "{:}", "\x00", "{{{", "}}}"]


def g_field(rng):
    name = rng.choice(NAMES + ["missing", "", "0", "a b", "-1"])
    path = "".join(rng.choice(PATHS) for _ in range(rng.choice([0, 0, 0, 1, 1, 2, 3])))
    return "{" + name + path + rng.choice(CONVS) + rng.choice(SPECS) + "}"


FOCUSED = ["{a!r}", "{b!s:>{w}}", "{obj!a}", "{a:{b}}", "{a!r:{b!r}}", "x {kéy!s} y", "{n!r:{obj!s}}", "{a!s}{b!r}{obj!a}",
           "{b:{a!r}}", "{obj.attr!r:{w}}", "{a[0]!s:{b!s}}", "{w:{a}}", "{w!r:{obj}}", "{a!a:{w}.{p}}", "{b:{a:{w}}}"]


def g_format(rng):
    if rng.random() < 0.15:
        # an otherwise well-formed format, so that the conversion / nested field on the (often hostile) value is reached
        return rng.choice(["", "text "]) + rng.choice(FOCUSED)
    parts = []
    for _ in range(rng.choice([0, 1, 1, 2, 2, 3, 5])):
        parts.append(rng.choice(LITS))
        parts.append(g_field(rng))
    parts.append(rng.choice(LITS))
    s = "".join(parts)
    if rng.random() < 0.25 and s:
        for _ in range(rng.randrange(1, 3)):
            i = rng.randrange(len(s) + 1)
            if rng.random() < 0.5 and i < len(s):
                s = s[:i] + s[i + 1:]
            else:
                s = s[:i] + rng.choice("{}[]().!:%\\") + s[i:]
    return s


def g_pformat(rng):
    """legacy %-format"""
    parts = []
    for _ in range(rng.randrange(4)):
        parts.append(rng.choice(["", "text ", "%%", "%", "{a}", "\n"]))
        parts.append(rng.choice(["%(a)s", "%(b)r", "%(obj)s", "%(missing)s", "%(a)d", "%(n)5.2f", "%s", "%(a)", "%(obj)a", "%(w)x", "%(a)*d", "%(kéy)s",
                                 "%(system)s", "%(system)r", "%(time)s", "%(time)d", "%(why)s", "%(failure)s", "%(message)s", "%(isError)d"]))
    return "".join(parts)


def g_formatvalue(rng, text):
    """How log_format / format is stored: str, bytes, invalid bytes, non-text."""
    c = rng.random()
    if c < 0.8:
        return ["str", text], "str"
    if c < 0.9:
        try:
            return ["bytes", text.encode("utf-8").decode("latin-1")], "bytes"
        except UnicodeEncodeError:
            return ["bytes", "sur\xed\xa0\x80"], "bytes-invalid"
    if c < 0.94:
        return ["bytes", text.encode("utf-8", "replace").decode("latin-1") + rng.choice(["\xff", "\xc3", "\xe2\x82"])], "bytes-invalid"
    return rng.choice([["int", 3], ["list", []], ["H", {"str": ["raise", "ValueError"]}], ["H", {"repr": ["raise", "EvilStr"]}],
                       ["float", "nan"], ["tuple", []], ["dict", []]]), "nontext"


TIMES = [["none"], ["float", "1700000000.5"], ["int", 0], ["float", "-1.0"], ["str", "abc"], ["float", "nan"], ["float", "inf"],
         ["float", "-inf"], ["float", "1e300"], ["float", "-1e300"], ["int", 10 ** 30], ["int", -10 ** 18], ["bool", 1],
         ["bytes", "12"], ["list", []]]


def g_event(rng):
    ev = {}  # key recipe-string -> recipe ; keys are JSON strings "s:<name>" or recipes
    tags = set()
    fields = []
    for name in rng.sample(["a", "b", "obj", "n", "kéy"], rng.randrange(0, 5)):
        v = g_value(rng)
        fields.append([["str", name], v])
    fields.append([["str", "w"], ["int", rng.choice([0, 1, 5, 12])]])
    fields.append([["str", "p"], ["int", rng.choice([0, 2, 3])]])
    if rng.random() < 0.15:
        fields.append([rng.choice([["int", 1], ["none"], ["tuple", [["str", "t"]]], ["bytes", "k"], ["float", "nan"]]), g_value(rng)])
        tags.add("nonstr-key")
    text = g_format(rng)
    if rng.random() < 0.96:
        fv, kind = g_formatvalue(rng, text)
        fields.append([["str", "log_format"], fv])
        tags.add("fmt-" + kind)
    else:
        tags.add("fmt-missing")
    r = rng.random()
    if r < 0.55:
        t = ["float", "1700000000.5"]
    elif r < 0.62:
        t = None
    else:
        t = rng.choice(TIMES) if rng.random() < 0.9 else g_hostile(rng)
        tags.add("odd-time")
    if t is not None:
        fields.append([["str", "log_time"], t])
    r = rng.random()
    if r < 0.5:
        fields.append([["str", "log_level"], ["level", rng.choice(["debug", "info", "warn", "error", "critical"])]])
    elif r < 0.65:
        pass
    else:
        fields.append([["str", "log_level"], rng.choice([["none"], ["str", "info"], ["int", 3], ["const"], g_hostile(rng), ["H", {"getattr": ["ret", ["int", 5]]}],
                                                          ["H", {"getattr": ["ok", g_hostile(rng)]}], ["H", {"getattr": ["raise", rng.choice(EXC)]}]])])
        tags.add("odd-level")
    r = rng.random()
    if r < 0.5:
        fields.append([["str", "log_namespace"], ["str", rng.choice(["ns", "a.b.c", "", "{x}", "n\ns"])]])
    elif r < 0.65:
        pass
    else:
        fields.append([["str", "log_namespace"], rng.choice([["none"], ["bytes", "n\xff"], ["int", 1], g_hostile(rng), ["H", {"format": ["raise", rng.choice(EXC)]}],
                                                              ["H", {"format": ["ret", ["int", 1]]}], ["H", {"str": ["raise", "ValueError"]}]])])
        tags.add("odd-namespace")
    r = rng.random()
    if r < 0.2:
        fields.append([["str", "log_system"], ["str", rng.choice(["sys", "", "-", "{x}"])]])
    elif r < 0.4:
        fields.append([["str", "log_system"], rng.choice([["none"], ["bytes", "s\xff"], ["int", 0], g_hostile(rng), ["H", {"str": ["raise", rng.choice(EXC)]}],
                                                           ["H", {"str": ["ret", ["int", 1]]}], ["list", [g_hostile(rng)]]])])
        tags.add("odd-system")
    r = rng.random()
    if r < 0.3:
        fields.append([["str", "log_failure"], rng.choice([["failure", rng.choice(EXC)], ["failure", "EvilStr"], ["failure_notb", rng.choice(EXC)],
                                                            ["int", 1], ["none"], ["str", "not a failure"], g_notfailure(rng),
                                                            ["fakefailure", ["raise", rng.choice(EXC)]], ["fakefailure", ["raise", "EvilStr"]],
                                                            ["fakefailure", ["ok"]], ["H", {"getattr": ["raise", rng.choice(EXC)]}]])])
        tags.add("failure")
    r = rng.random()
    flat = None
    if r < 0.12:
        flat = "real"
    elif r < 0.2:
        fields.append([["str", "log_flattened"], rng.choice([["dict", []], ["int", 1], ["none"], ["dict", [[["str", "a!s:"], g_hostile(rng)]]],
                                                              ["dict", [[["str", "a!r:"], ["int", 1]], [["str", "a!s:"], ["bytes", "\xff"]]]], g_hostile(rng)])])
        tags.add("bogus-flattened")
    rng.shuffle(fields)
    return {"fields": fields, "flatten": flat, "text": text, "tags": sorted(tags)}


def g_legacy(rng):
    """Legacy event dict, by the branch of textFromEventDict that will read it: "error" (empty message, true isError,
    a failure: reads why + failure), "format" (empty message, a %-format: reads every key the format mentions, also
    system / time), "message" (reads the message items).  Hostile value kinds go into every field that branch reads.
    Not generated: a raising __bool__ (the unchanged `if why:` / `if not edm:` do not survive it - truthiness is not
    among the statement's "str, repr or format")."""
    branch = rng.choice(["error", "error", "format", "format", "message"])
    fields = [[["str", name], g_value(rng)] for name in rng.sample(["a", "b", "obj", "n", "w", "kéy"], rng.randrange(0, 5))]
    n = 0 if branch != "message" else rng.choice([1, 1, 2, 3])
    fields.append([["str", "message"], ["tuple", [g_value(rng) for _ in range(n)]]])
    err = branch == "error" or rng.random() < 0.3
    fields.append([["str", "isError"], rng.choice([["int", 1], ["bool", 1]]) if err else rng.choice([["int", 0], ["bool", 0]])])
    if branch == "format" or rng.random() < 0.3:
        fv, kind = g_formatvalue(rng, g_pformat(rng))
        fields.append([["str", "format"], fv])
    if branch == "error" or rng.random() < 0.3:
        fields.append([["str", "failure"], rng.choice([["failure", rng.choice(EXC)], ["failure_notb", "EvilStr"], ["int", 1], ["none"], g_notfailure(rng), g_notfailure(rng),
                                                        ["fakefailure", ["raise", rng.choice(EXC)]], ["fakefailure", ["raise", "EvilStr"]], ["fakefailure", ["ok"]]])])
    if (branch == "error" and rng.random() < 0.85) or rng.random() < 0.2:
        fields.append([["str", "why"], rng.choice([["str", "because"], ["str", ""], ["none"], ["bytes", "wh\xffy"], ["int", 0], ["list", [g_hostile(rng)]],
                                                    ["H", {"str": ["raise", rng.choice(EXC)]}], ["H", {"str": ["ret", ["int", 1]]}], ["H", {"str": ["ret", ["bytes", "by\xfftes"]]}],
                                                    ["H", {"format": ["raise", rng.choice(EXC)]}], ["H", {"format": ["ret", ["bytes", "b"]]}],
                                                    ["H", {"repr": ["raise", rng.choice(EXC)], "str": ["raise", "EvilStr"]}], g_hostile(rng), g_hostile(rng)])])
    fields.append([["str", "time"], rng.choice(TIMES) if rng.random() < 0.6 else g_hostile(rng)])
    fields.append([["str", "system"], rng.choice([["str", "-"], g_hostile(rng)])])
    rng.shuffle(fields)
    return {"fields": fields, "branch": branch}


import re

_NESTED = re.compile(r":[^{}]*\{([A-Za-z_é]+)[^{}]*?(?:!([rsa]))?[:}]")
_CONV = re.compile(r"\{([A-Za-z_é]+)[^{}!:]*!([rsa])")


def hostile_field_stats(ctx, ev):
    """Counters for the family 'nested format fields / conversion flags on hostile values'."""
    vals = {}
    for k, v in ev["fields"]:
        if k[0] == "str":
            vals[k[1]] = v
    text = ev["text"]
    for name, conv in _NESTED.findall(text):
        v = vals.get(name)
        if v is not None and v[0] == "H":
            ctx.count("nested_spec_fields_on_hostile_values")
    for name, conv in _CONV.findall(text):
        v = vals.get(name)
        if v is not None and v[0] == "H" and ({"r": "repr", "a": "repr", "s": "str"}[conv] in v[1]):
            ctx.count("conversions_on_hostile_repr_or_str")


def is_hostile_recipe(r):
    if isinstance(r, list):
        if r and r[0] in ("H", "fakefailure", "failure", "failure_notb", "const"):
            return True
        return any(is_hostile_recipe(x) for x in r)
    if isinstance(r, dict):
        return any(is_hostile_recipe(x) for x in r.values())
    return False


# ------------------------------------------------------------------------------------------------
# monitor

def materialise(ev, stats):
    d = {}
    for k, v in ev["fields"]:
        try:
            d[build(k, stats)] = build(v, stats)
        except TypeError:  # unhashable key recipe: not generated, defensive
            pass
    if ev.get("flatten") == "real":
        from twisted.logger._flatten import flattenEvent

        try:
            flattenEvent(d)  # not a text-formatting function: may legitimately raise on hostile events
        except Exception:
            pass
    return d


FLAGS = [(tb, ts, sy) for tb in (False, True) for ts in (False, True) for sy in (False, True)]


def calls_for(case):
    """[(label, callable(event) -> result, allow_none)]"""
    from twisted.logger import eventAsText, formatEvent, formatEventAsClassicLogText
    from twisted.logger._format import formatUnformattableEvent

    out = [("formatEvent", formatEvent, False), ("formatEventAsClassicLogText", formatEventAsClassicLogText, True)]
    for tb, ts, sy in FLAGS:
        out.append(("eventAsText(tb=%d,ts=%d,sys=%d)" % (tb, ts, sy),
                    (lambda e, tb=tb, ts=ts, sy=sy: eventAsText(e, includeTraceback=tb, includeTimestamp=ts, includeSystem=sy)), False))
    out.append(("formatUnformattableEvent(ValueError)", lambda e: formatUnformattableEvent(e, ValueError("x")), False))
    out.append(("formatUnformattableEvent(EvilStr)", lambda e: formatUnformattableEvent(e, EvilStr("x")), False))
    return out


DECOR = ["log_time", "log_level", "log_namespace", "log_system", "log_failure"]


def outcome(fn, ev, stats, drop=()):
    """Run fn on a freshly built event (minus `drop` keys) -> ("ok", result) | ("raise", exc)."""
    e = materialise(ev, stats)
    for k in drop:
        e.pop(k, None)
    try:
        return "ok", fn(e)
    except Exception as x:
        return "raise", x


def classify(fn, ev, stats):
    """Minimal set of decoration fields whose removal stops fn from raising (delta debugging)."""
    removed = []
    for k in DECOR:
        if outcome(fn, ev, stats, removed)[0] != "raise":
            break
        removed.append(k)
    if outcome(fn, ev, stats, removed)[0] == "raise":
        return None
    for k in list(removed):
        trial = [x for x in removed if x != k]
        if outcome(fn, ev, stats, trial)[0] != "raise":
            removed = trial
    return removed


def ordinary(field, recipe):
    """Is this decoration value one that a well-behaved logger would produce?  (The narrow
    log-decoration-raises-* keys are only used for odd values, so that a break on ordinary values
    keeps the generic key.)"""
    if field == "log_time":
        return recipe in (["float", "1700000000.5"], ["int", 0], ["float", "-1.0"], ["bool", 1], ["none"])
    if field == "log_level":
        return recipe[0] in ("level", "none")
    return recipe[0] == "str"


def confirms(field, ev, label, stats):
    """Direct probe of the mechanism: the function decorates with this field, and rendering the
    field's value on its own raises (so a format string that merely mentions log_time etc. does not
    get the narrow key)."""
    from twisted.logger._format import formatTime

    uses_time = "formatEventAsClassicLogText" in label or "ts=1" in label
    uses_system = "formatEventAsClassicLogText" in label or "sys=1" in label
    e = materialise(ev, stats)
    v = e.get(field)
    try:
        if field == "log_time":
            if not uses_time:
                return False
            formatTime(v)
        elif field == "log_level":
            if not uses_system:
                return False
            "{}".format(v.name)
        else:
            if not uses_system:
                return False
            "{}".format(v)
    except Exception:
        return True
    return False


def excname(x):
    try:
        return "%s: %s" % (type(x).__name__, x)
    except Exception:
        return type(x).__name__ + ": <str raised>"


def check_event(ctx, case, calls):
    stats = [0]
    ev = case["event"]
    for label, fn, allow_none in calls:
        kind, res = outcome(fn, ev, stats)
        ctx.count("calls")
        if kind == "ok":
            if isinstance(res, str) or (allow_none and res is None):
                ctx.count("calls_returned_text")
                if isinstance(res, str) and (res.startswith("Unable to format event") or "MESSAGE LOST" in res or "UNFORMATTABLE" in res
                                             or "UNABLE TO OBTAIN TRACEBACK" in res):
                    ctx.count("fallback_texts")
            else:
                ctx.violation("non-text-result", "%s returned %s instead of text" % (label.split("(")[0], type(res).__name__),
                              {"function": label, "event": ev, "returned": repr(res)[:200]})
            continue
        ctx.seen("escaped_exception_types", type(res).__name__)
        culprits = classify(fn, ev, stats)
        wit = {"function": label, "event": ev, "expected": "text", "observed": "raised " + excname(res)[:300], "minimal_culprit_fields": culprits}
        narrow = {"log_time": "log-decoration-raises-time", "log_level": "log-decoration-raises-level", "log_namespace": "log-decoration-raises-namespace"}
        short = label.split("(")[0]
        if not culprits:
            ctx.violation("format-raises", "%s raised %s" % (short, type(res).__name__), wit)
            continue
        for c in culprits:
            # the exception with every other culprit removed is the one this field causes on its own
            single = outcome(fn, ev, stats, [x for x in culprits if x != c])[1]
            w2 = dict(wit, culprit=c, culprit_alone_raises=excname(single)[:300])
            if c in narrow and not ordinary(c, field_of(ev, c)) and confirms(c, ev, label, stats):
                ctx.violation(narrow[c], "%s raises instead of returning text because of the event's %s" % (short, c), w2)
            elif c == "log_failure" and "EvilStr" in repr(field_of(ev, "log_failure")) and "evil __str__" in excname(single):
                ctx.violation("traceback-error-str-raises", "_formatTraceback calls str() on the exception raised by getTraceback(); that str() raises", w2)
            else:
                ctx.violation("format-raises", "%s raised %s" % (short, type(single).__name__), w2)
    ctx.count("hostile_ops_triggered", stats[0])


def field_of(ev, name):
    for k, v in ev["fields"]:
        if list(k) == ["str", name]:
            return v
    return [None]


def legacy_field_stats(ctx, lg):
    """One counter per field of the legacy event that holds a hostile value AND is read by the branch taken."""
    get = lambda name: field_of(lg, name)
    msg = get("message")
    empty = not msg[1]
    is_err = get("isError")[1] in (1, True)
    has_failure = get("failure") != [None]
    fmt = get("format")
    if not empty:
        branch = "message"
        if any(is_hostile_recipe(x) for x in msg[1]):
            ctx.count("legacy_hostile_message_items")
    elif is_err and has_failure:
        branch = "error"
        if is_hostile_recipe(get("why")):
            ctx.count("legacy_hostile_why")
        if is_hostile_recipe(get("failure")):
            ctx.count("legacy_hostile_failure")
    elif fmt != [None]:
        branch = "format"
        text = fmt[1] if fmt[0] in ("str", "bytes") and isinstance(fmt[1], str) else ""
        for name in ("system", "time", "why", "failure"):
            if "%(" + name + ")" in text and is_hostile_recipe(get(name)):
                ctx.count("legacy_hostile_%s_via_format_key" % name.replace("why", "other").replace("failure", "other"))
        for name in ("a", "b", "obj", "n", "kéy"):
            if "%(" + name + ")" in text and is_hostile_recipe(get(name)):
                ctx.count("legacy_hostile_format_keys")
    else:
        branch = "none"
    ctx.count("legacy_branch_" + branch)


def check_legacy(ctx, lg):
    from twisted.python.log import textFromEventDict

    stats = [0]
    legacy_field_stats(ctx, lg)
    kind, res = outcome(textFromEventDict, lg, stats)
    ctx.count("legacy_calls")
    ctx.count("calls")
    if kind == "ok":
        if res is None or isinstance(res, str):
            ctx.count("calls_returned_text")
            if isinstance(res, str) and ("Invalid format string" in res or "MESSAGE LOST" in res or "unable to obtain traceback" in res):
                ctx.count("fallback_texts")
        elif isinstance(res, bytes) and field_of(lg, "format")[0] == "bytes":
            ctx.violation("legacy-bytes-format-returns-bytes", "textFromEventDict returns bytes (not text) for a bytes %-format",
                          {"function": "textFromEventDict", "event": lg, "returned": repr(res)[:200]})
        else:
            ctx.violation("non-text-result", "textFromEventDict returned %s instead of text" % type(res).__name__,
                          {"function": "textFromEventDict", "event": lg, "returned": repr(res)[:200]})
    else:
        ctx.seen("escaped_exception_types", type(res).__name__)
        wit = {"function": "textFromEventDict", "event": lg, "expected": "text or None", "observed": "raised " + excname(res)[:300]}
        if "evil __str__" in excname(res) and outcome(textFromEventDict, lg, stats, ["failure"])[0] == "ok":
            ctx.violation("legacy-traceback-error-str-raises", "textFromEventDict calls str() on the exception raised by getTraceback(); that str() raises", wit)
        else:
            ctx.violation("format-raises", "textFromEventDict raised %s" % type(res).__name__, wit)
    ctx.count("hostile_ops_triggered", stats[0])


def run(ctx):
    calls = calls_for(None)
    for i in ctx.cases(10000, 600000):
        rng = ctx.case_rng(i)
        ev = g_event(rng)
        case = {"case": i, "event": ev}
        hostile = is_hostile_recipe(ev["fields"]) or any(t.startswith(("odd-", "fmt-bytes-invalid", "fmt-nontext", "bogus", "nonstr")) for t in ev["tags"])
        ctx.count("events")
        for t in ev["tags"]:
            ctx.count("tag_" + t)
        if hostile:
            ctx.count("events_hostile")
            ctx.distinct((ev["fields"], ev["flatten"]))
        if "failure" in ev["tags"]:
            ctx.count("events_with_failure")
        if "fmt-str" in ev["tags"] or "fmt-bytes" in ev["tags"]:
            hostile_field_stats(ctx, ev)
        check_event(ctx, case, calls)
        ctx.evaluated(len(calls))
        if i % 2 == 0:
            lg = g_legacy(rng)
            check_legacy(ctx, lg)
            ctx.evaluated()
        if i < 4:
            from twisted.logger import eventAsText

            ctx.sample({"case": i, "format": ev["text"], "tags": ev["tags"], "fields": ev["fields"],
                        "eventAsText": outcome(eventAsText, ev, [0])[1] if outcome(eventAsText, ev, [0])[0] == "ok" else "RAISED"})


def replay(ctx, w):
    x = w["witness"]
    if x["function"] == "textFromEventDict":
        check_legacy(ctx, x["event"])
    else:
        check_event(ctx, {"event": x["event"]}, [c for c in calls_for(None) if c[0] == x["function"]])
