"""C31 AMP matches answers to questions and fails pending calls on disconnect.

Monitored: two real amp.AMP peers over the deterministic in-memory network (E2).  Both issue
commands concurrently; the responder behaviour is chosen by a `mode` argument carried in the
question: answer at once / return a Deferred that the scheduler fires later in any order (value,
declared error, undeclared exception, fatal declared error, subclasses of the declared / fatal
errors) / raise any of those at once / never answer.  Three command classes: Ask (declares errors
and fatalErrors), Plain (declares and inherits none: every responder exception is undeclared), Tell
(requiresAnswer=False).  Expected wire outcome by construction: declared or subclass-of-declared ->
that declared code and, on the caller, exactly the declared class; anything else -> UNKNOWN ->
UnknownRemoteError, after which the peer quits and the other pending calls fail with the loss reason.  The scheduler
controls every delivery (1 byte .. everything), fires pending responder Deferreds, injects abrupt
connection loss (both ends) or a graceful close, and keeps calling after the loss.

Events: every callRemote result (tagged with a unique nonce carried in the arguments and echoed in
the response), responder invocations, connectionLost, and - independently of twisted - the boxes on
the wire, parsed by a 30-line sniffer from the bytes written by / delivered to each side.

Oracle (causal, from the wire): a call's Deferred fires exactly once;
  * if an _answer/_error box carrying the call's own _ask tag was completely delivered to the caller
    before its connectionLost, it fires during that delivery with that box's content: the echoed
    nonce must be its own, error code DECLARED -> the declared exception class, UNKNOWN ->
    UnknownRemoteError, FATAL -> the fatal declared class;
  * otherwise it fires during the caller's connectionLost with that very reason;
  * calls made after connectionLost return an already-failed Deferred (the loss reason) and write
    nothing; requiresAnswer=False returns None;
  * application-supplied responder Deferreds also come already `.called` but chained to an unfired
    Deferred, and fired-and-pause()d (resolved later by the scheduler): same expectations as "later";
    responders may call the peer back before answering; undeclared errors may be BaseException-only;
    result callbacks may close the connection or raise (AMP then drops the connection - what follows
    is judged only through the wire); an armed peer calls callRemote from its own connectionLost
    after upcalling (must fail at once);
  * re-entrant follow-ups: about a third of the calls carry a user callback/errback that issues one
    more callRemote from wherever the Deferred fires (inside an answer delivery, inside
    connectionLost handling while other pending calls are still being failed, or inside callRemote
    for calls after the loss).  The follow-up is monitored like any other call; one issued once the
    transport has reported the loss (connectionLost entered) counts as "after the connection is lost";
  * responder side: each question delivered runs its responder exactly once, each answer written
    carries the tag of its question and the outcome its responder produced; at most one answer per
    question; _ask tags of outstanding questions are unique.
Guards: nothing is required about *when* a peer closes after an UNKNOWN/FATAL error beyond what the
wire shows (QuitBox -> loseConnection is simulated like TCP: the closing side stops reading, its
queued bytes are flushed, then both ends lose the connection); bytes in flight at an abrupt loss
are dropped; user callbacks never raise (so AMP's unhandledError path is only reached by responders
of requiresAnswer=False commands).
"""
from vf.engines.netsim import Link

LEVEL = "exploration"
ENGINE = "E2-netsim"
TECHNIQUE = "runtime monitoring: exactly-once + causal matching of callRemote results against the sniffed wire, with disconnect injection"
RULE = ("(1) random sessions: 6..40 weighted scheduler actions (calls from either peer with 8 responder modes incl. "
        "subclasses of declared/fatal errors, on commands with declared errors, without any declared errors, or without answer; 30% "
        "with a re-entrant follow-up call issued from the result callback/errback, "
        "deliveries of 1 byte/half/all, firing of pending responder Deferreds in any order with 4 outcomes, abrupt "
        "or graceful close, calls after the loss); (2) fault enumeration: random short scripts (2..5 calls, fires) "
        "re-run once per byte boundary of the whole exchange with an abrupt loss injected at that boundary.  A "
        "case is distinct by its action history (labels incl. the fault boundary); non-trivial = at least one "
        "callRemote Deferred was observed.")
ASSUMPTIONS = ["trusted base: the wire sniffer in this module (16-bit length-prefixed key/value strings, empty key ends a box)",
               "the simulated transport stops delivering to a side after its loseConnection(), flushes its queue, then reports connectionLost once to both ends"]
SHARDS = {"quick": 4, "thorough": 16}
FLOORS = {"sessions": 500, "calls": 3000, "deferreds_checked": 2500, "fired_by_answer": 800, "fired_by_connection_loss": 300,
          "fired_declared_error": 100, "fired_unknown_remote_error": 100, "calls_after_loss": 300, "responder_runs": 1500,
          "deferred_responders_fired": 200, "boundary_runs": 1500, "quit_closes": 100, "calls_with_3_outstanding": 100,
          "responder_deferred_called_but_chained": 100, "responder_deferred_fired_and_paused": 100, "calls_from_responder": 100,
          "calls_from_connectionlost": 100, "callbacks_that_close": 50, "callbacks_that_raise": 50, "errors_from_declared_subclass": 100, "errors_from_command_without_declared_errors": 100,
          "followups_during_connection_loss": 200, "followups_during_answer_delivery": 200, "followups_inside_callremote": 50}
READY = True

MODES = ("now", "later", "declared", "undeclared", "never", "fatal", "declared-sub", "fatal-sub",
         "chained", "paused", "now+call", "undeclared-base")
HOWS = ("value", "declared", "undeclared", "fatal", "declared-sub", "fatal-sub", "undeclared-base")
FOLLOW_CLOSE, FOLLOW_RAISE = 99, 98  # follow codes: the result callback closes the connection / raises
COMMANDS = ("Tell", "Ask", "Plain")  # label field `ra`: 0 = requiresAnswer False, 1 = errors declared, 2 = no errors declared


class DeclaredError(Exception):
    pass


class FatalError(Exception):
    pass


class Undeclared(Exception):
    pass


class DeclaredSub(DeclaredError):
    """Subclass of a declared error: declared too (Failure.trap semantics), travels as DECLARED."""


class FatalSub(FatalError):
    """Subclass of a declared fatal error."""


class UndeclaredBase(BaseException):
    """An undeclared responder error that is not an Exception subclass."""


EXC = {"undeclared-base": UndeclaredBase, "declared": DeclaredError, "undeclared": Undeclared, "fatal": FatalError, "declared-sub": DeclaredSub, "fatal-sub": FatalSub}


def wire_outcome(command, outcome):
    """What must travel for a responder outcome, by construction of the command classes."""
    if outcome in EXC:
        if command == b"Plain":  # declares nothing: every exception is undeclared
            return "undeclared"
        return "undeclared" if outcome == "undeclared-base" else outcome.replace("-sub", "")
    return outcome


class Sniffer:
    """Independent AMP box parser for one byte stream."""

    def __init__(self):
        self.buf = bytearray()
        self.cur = {}
        self.key = None

    def feed(self, data):
        self.buf += data
        out = []
        while len(self.buf) >= 2:
            n = (self.buf[0] << 8) | self.buf[1]
            if len(self.buf) < 2 + n:
                break
            s = bytes(self.buf[2:2 + n])
            del self.buf[:2 + n]
            if self.key is None:
                if n == 0:
                    out.append(self.cur)
                    self.cur = {}
                else:
                    self.key = s
            else:
                self.cur[self.key] = s
                self.key = None
        return out


_k = {}


def classes():
    if _k:
        return _k
    from twisted.protocols import amp

    class Ask(amp.Command):
        arguments = [(b"nonce", amp.Integer()), (b"mode", amp.Integer())]
        response = [(b"nonce", amp.Integer())]
        errors = {DeclaredError: b"DECLARED"}
        fatalErrors = {FatalError: b"FATAL"}

    class Tell(amp.Command):
        arguments = [(b"nonce", amp.Integer()), (b"mode", amp.Integer())]
        response = [(b"nonce", amp.Integer())]
        errors = {DeclaredError: b"DECLARED"}
        fatalErrors = {FatalError: b"FATAL"}
        requiresAnswer = False

    class Plain(amp.Command):  # declares and inherits no errors at all
        arguments = [(b"nonce", amp.Integer()), (b"mode", amp.Integer())]
        response = [(b"nonce", amp.Integer())]

    class Peer(amp.AMP):
        def __init__(self, name, session):
            amp.AMP.__init__(self)
            self.name = name
            self.session = session

        def ask(self, nonce, mode):
            return self.session.respond(self.name, nonce, mode)
        Ask.responder(ask)

        def tell(self, nonce, mode):
            return self.session.respond(self.name, nonce, mode)
        Tell.responder(tell)

        def plain(self, nonce, mode):
            return self.session.respond(self.name, nonce, mode)
        Plain.responder(plain)

        def connectionLost(self, reason):
            s = self.session
            s.push(("lost", self.name))
            s.lost_reason[self.name] = reason
            try:
                amp.AMP.connectionLost(self, reason)
                if self.name in s.lostcall_armed:  # application code calling from its connectionLost, after the upcall
                    s.do_call(self.name, 0, 1, 0, origin="connectionLost")
            finally:
                s.pop()

    # AMP logs responder failures at level critical; before logging has begun twisted prints those to
    # stderr.  Start logging into a collector (this process runs nothing but this check).
    logged = []
    try:
        from twisted.logger import globalLogBeginner
        globalLogBeginner.beginLoggingTo([logged.append], redirectStandardIO=False, discardBuffer=True)
    except Exception:
        pass
    _k.update(amp=amp, Ask=Ask, Tell=Tell, Plain=Plain, Peer=Peer, logged=logged)
    return _k


class Session:
    """World over two real AMP peers; apply(label) performs one scheduler action."""

    def __init__(self, ctx):
        k = classes()
        self.k = k
        self.ctx = ctx
        self.window = []  # stack of causal windows
        self.seq = 0
        self.calls = {}  # nonce -> dict
        self.responders = {}  # nonce -> dict(side, runs, outcome, window, after_lost)
        self.pending = {"a": [], "b": []}  # responder Deferreds waiting for the scheduler: (nonce, d)
        self.lost_reason = {}
        self.lostcall_armed = set()
        self.delivered_boxes = {"a": [], "b": []}  # (box, window id)
        self.written_boxes = {"a": [], "b": []}
        self.errors = []  # harness-visible exceptions from protocol entry points
        self.history = []
        self.next_nonce = 1
        self.budget = None
        self.bytes_moved = 0
        self.quit_closes = 0
        self.peers = {"a": k["Peer"]("a", self), "b": k["Peer"]("b", self)}
        self.link = Link(self.peers["a"], self.peers["b"])
        self.rx = {"a": Sniffer(), "b": Sniffer()}
        self.tx = {"a": Sniffer(), "b": Sniffer()}
        self.tx_seen = {"a": 0, "b": 0}
        self.rx_seen = {"a": 0, "b": 0}
        self.link.connect()

    # ---- causal windows -----------------------------------------------------------------------
    def push(self, w):
        self.seq += 1
        self.window.append(w + (self.seq,))

    def pop(self):
        self.window.pop()

    def now(self):
        return self.window[-1] if self.window else None

    def side(self, name):
        return self.link.side(name)

    def sniff_tx(self):
        for n in ("a", "b"):
            w = self.side(n).transport.written
            if len(w) > self.tx_seen[n]:
                for box in self.tx[n].feed(bytes(w[self.tx_seen[n]:])):
                    self.written_boxes[n].append((box, self.lost_reason.get(n) is not None))
                self.tx_seen[n] = len(w)

    # ---- application layer ---------------------------------------------------------------------
    def respond(self, side, nonce, mode):
        from twisted.internet.defer import Deferred

        r = self.responders.setdefault(nonce, {"side": side, "runs": 0, "outcome": None, "windows": []})
        r["runs"] += 1
        r["windows"].append(self.now())
        m = MODES[mode]
        if m == "now":
            r["outcome"] = "value"
            return {"nonce": nonce}
        if m in EXC:
            r["outcome"] = m
            raise EXC[m]("%s %d" % (m, nonce))
        if m == "now+call":  # the responder itself calls the peer back before answering
            self.do_call(side, 0, 1, 0, origin="responder")
            r["outcome"] = "value"
            return {"nonce": nonce}
        d = Deferred()
        if m == "later":
            self.pending[side].append((nonce, d))
        elif m == "chained":
            # application Deferred that is already .called but whose chain waits on an unfired one
            from twisted.internet.defer import succeed
            outer = succeed(None)
            outer.addCallback(lambda _ignored, d=d: d)
            self.pending[side].append((nonce, d))
            r["shape"] = "called-but-chained"
            return outer
        elif m == "paused":
            # application Deferred that is already fired and pause()d; unpaused by the scheduler
            slot = {}

            def resolve(_ignored, slot=slot, nonce=nonce):
                if slot["how"] == "value":
                    return {"nonce": nonce}
                raise EXC[slot["how"]]("%s %d" % (slot["how"], nonce))
            d.callback(None)
            d.pause()
            d.addCallback(resolve)
            self.pending[side].append((nonce, ("paused", d, slot)))
            r["shape"] = "fired-and-paused"
        else:
            r["outcome"] = "never"
            self.pending.setdefault("never", []).append(d)
        return d

    def actions(self):
        """Enabled action categories (for the weighted scheduler)."""
        acts = ["call"]
        for n in ("a", "b"):
            if self.link.can_deliver(self.side(n)) or (self.side(n).transport.pending() and not self.side(n).lost):
                acts.append("deliver-" + n)
            if self.pending[n]:
                acts.append("fire-" + n)
            if self.side(n).transport.disconnecting and not self.side(n).lost:
                acts.append("complete-close-" + n)
        if not self.side("a").lost and not self.side("b").lost:
            acts += ["lose", "graceful"]
        return acts

    def guarded(self, fn, *a):
        try:
            return fn(*a)
        except Exception as e:
            import traceback
            self.errors.append({"window": self.now(), "error": "%s: %s" % (type(e).__name__, e), "trace": traceback.format_exc()[-600:]})
            return None

    def apply(self, label):
        self.history.append(label)
        op = label[0]
        if op == "budget":
            self.budget = label[1]
        elif op == "arm-lostcall":
            self.lostcall_armed.add(label[1])
        elif op == "call":
            self.do_call(label[1], label[2], label[3], label[4] if len(label) > 4 else 0)
        elif op == "deliver":
            self.do_deliver(label[1], label[2])
        elif op == "fire":
            self.do_fire(label[1], label[2], label[3])
        elif op == "lose":
            self.do_lose(label[1])
        elif op == "graceful":
            if not self.side(label[1]).lost:
                self.side(label[1]).transport.loseConnection()
        elif op == "complete-close":
            self.do_complete_close(label[1])
        elif op == "pump":
            self.do_pump()
        self.sniff_tx()

    def do_call(self, name, mode, ra, follow=0, parent=None, origin=None):
        """follow = m+1: the user callback/errback of this call re-entrantly issues one follow-up
        callRemote (responder mode m, no further follow-up) from wherever the Deferred fires:
        during an answer delivery, during connectionLost handling, or inside callRemote itself."""
        k = self.k
        nonce = self.next_nonce
        self.next_nonce += 1
        peer = self.peers[name]
        side = self.side(name)
        was_lost = bool(side.lost)
        written_before = len(side.transport.written)
        outstanding = sum(1 for c in self.calls.values() if c["side"] == name and c["ra"] and not c["fired"])
        issued_in = self.now()
        rec = {"side": name, "mode": MODES[mode], "ra": ra, "after_loss": was_lost, "fired": [], "returned": None, "wrote": 0,
               "outstanding_before": outstanding, "command": COMMANDS[ra], "origin": origin, "follow": follow, "parent": parent, "issued_in": issued_in[0] if issued_in else None}
        self.calls[nonce] = rec
        self.push(("call", name, nonce))
        try:
            try:
                d = peer.callRemote(k[COMMANDS[ra]], nonce=nonce, mode=mode)
                rec["returned"] = "deferred" if d is not None else "none"
            except Exception as e:
                rec["returned"] = "raised %s: %s" % (type(e).__name__, e)
                d = None
            if d is not None:
                def fired(result, kind):
                    rec["fired"].append((kind, dict(result) if kind == "ok" else result, self.now()))
                    if rec["follow"] and len(rec["fired"]) == 1:
                        if rec["follow"] == FOLLOW_CLOSE:
                            if peer.transport is not None:
                                peer.transport.loseConnection()
                        elif rec["follow"] == FOLLOW_RAISE:
                            raise RuntimeError("user callback of call %d raises" % nonce)
                        else:
                            self.do_call(name, rec["follow"] - 1, 1, 0, parent=nonce, origin="callback")  # re-entrant follow-up
                    return None
                d.addCallbacks(fired, fired, callbackArgs=("ok",), errbackArgs=("err",))
            rec["fired_on_return"] = len(rec["fired"])
        finally:
            self.pop()
        rec["wrote"] = len(side.transport.written) - written_before
        if rec["follow"] and rec.get("fired_on_return"):
            # the follow-up was issued (and accounted for) inside this call's window: do not count its bytes twice
            rec["wrote"] -= sum(c["wrote"] for c in self.calls.values() if c["parent"] == nonce)

    def _move(self, src_name, n):
        """Deliver up to n bytes written by src to the other side inside a causal window."""
        src = self.side(src_name)
        dst_name = "b" if src_name == "a" else "a"
        dst = self.side(dst_name)
        if self.budget is not None:
            if self.budget <= 0:
                return 0
            n = self.budget if n is None else min(n, self.budget)
        before = len(dst.received)
        self.push(("deliver", dst_name))
        w = self.now()
        try:
            self.guarded(self.link.deliver, src, n)
        finally:
            self.pop()
        moved = len(dst.received) - before
        self.bytes_moved += moved
        if moved:
            for box in self.rx[dst_name].feed(bytes(dst.received[before:])):
                self.delivered_boxes[dst_name].append((box, w))
        if self.budget is not None:
            self.budget -= moved
            if self.budget <= 0 and moved:
                self.do_lose("a")
        return moved

    def do_deliver(self, src_name, how):
        pend = self.side(src_name).transport.pending()
        n = 1 if how == "1" else max(1, pend // 2) if how == "half" else None
        self._move(src_name, n)

    def do_fire(self, name, idx, how):
        from twisted.python.failure import Failure

        if not self.pending[name]:
            return
        nonce, d = self.pending[name].pop(idx % len(self.pending[name]))
        r = self.responders[nonce]
        r["outcome"] = how
        r["fired_after_lost"] = bool(self.side(name).lost)
        self.push(("fire", name, nonce))
        try:
            if isinstance(d, tuple):
                d[2]["how"] = how
                self.guarded(d[1].unpause)
            elif how == "value":
                self.guarded(d.callback, {"nonce": nonce})
            else:
                self.guarded(d.errback, Failure(EXC[how]("%s %d" % (how, nonce))))
        finally:
            self.pop()

    def do_lose(self, first):
        from twisted.internet import error
        from twisted.python.failure import Failure

        order = (first, "b" if first == "a" else "a")
        for n in order:
            s = self.side(n)
            if not s.lost:
                self.guarded(self.link.lose, s, Failure(error.ConnectionLost("injected loss (%s)" % n)))

    def do_complete_close(self, name):
        """Finish a loseConnection() requested by `name`: flush its queue to the peer, then both ends lose."""
        from twisted.internet import error
        from twisted.python.failure import Failure

        side = self.side(name)
        other_name = "b" if name == "a" else "a"
        other = self.side(other_name)
        if side.lost:
            return
        guard = 0
        while side.transport.pending() and not other.lost and not other.transport.disconnecting and guard < 10000:
            guard += 1
            if not self._move(name, None):
                break
        if not side.lost:
            self.guarded(self.link.lose, side, Failure(error.ConnectionDone("closed (%s)" % name)))
        if not other.lost:
            self.guarded(self.link.lose, other, Failure(error.ConnectionDone("peer closed (%s)" % other_name)))

    def do_pump(self):
        """Deliver everything, whole chunks, alternating, until quiescent; complete requested closes."""
        for _ in range(200):
            progress = False
            for n in ("a", "b"):
                s = self.side(n)
                if s.transport.pending() and not s.lost:
                    if self._move(n, None):
                        progress = True
                    elif not self.link.can_deliver(s):
                        s.transport.take()  # peer is not reading any more
            for n in ("a", "b"):
                s = self.side(n)
                if s.transport.disconnecting and not s.lost:
                    self.do_complete_close(n)
                    progress = True
            if not progress:
                break

    def finish(self):
        """End of session: everything deliverable is delivered, then the connection ends."""
        self.apply(("pump",))
        if not self.side("a").lost:
            self.apply(("lose", "a"))
        self.sniff_tx()

    # ---- oracle ----------------------------------------------------------------------------------
    def analyse(self):
        """-> list of (key, what, detail)"""
        amp = self.k["amp"]
        ctx = self.ctx
        out = []

        def bad(key, what, **detail):
            out.append((key, what, detail))

        for e in self.errors:
            bad("exception-from-protocol-entry-point", "an exception escaped dataReceived/connectionLost/callback firing: " + e["error"], **e)
        # questions as written by each side: tag -> nonce
        tags = {"a": {}, "b": {}}
        for n in ("a", "b"):
            for box, _after in self.written_boxes[n]:
                if b"_command" in box and b"_ask" in box:
                    t = box[b"_ask"]
                    nonce = int(box[b"nonce"])
                    if t in tags[n]:
                        bad("duplicate-ask-tag", "two questions of one peer carry the same _ask tag", tag=t, nonces=[tags[n][t], nonce])
                    tags[n][t] = nonce
        # responder side
        for n in ("a", "b"):
            peer_name = "b" if n == "a" else "a"
            asked = {}
            for box, w in self.delivered_boxes[n]:
                if b"_command" not in box:
                    continue
                nonce = int(box[b"nonce"])
                asked[nonce] = box
                r = self.responders.get(nonce)
                ctx.count("questions_delivered")
                if r is None or r["runs"] != 1 or r["side"] != n:
                    bad("responder-not-run-exactly-once", "a delivered question ran its responder %s times" % (r["runs"] if r else 0), nonce=nonce)
                elif r["windows"][0] != w:
                    bad("responder-run-outside-its-delivery", "responder ran outside the delivery that completed its question", nonce=nonce, window=r["windows"][0], delivery=w)
            for nonce, r in self.responders.items():
                if r["side"] == n and nonce not in asked:
                    bad("responder-run-without-question", "a responder ran for a question that was never delivered", nonce=nonce)
            answered = {}
            for box, after_lost in self.written_boxes[n]:
                t = box.get(b"_answer", box.get(b"_error"))
                if t is None:
                    continue
                nonce = tags[peer_name].get(t)
                q = asked.get(nonce)
                if nonce is None or q is None or q.get(b"_ask") != t:
                    bad("answer-for-unknown-question", "an answer box carries a tag of no delivered question", tag=t, box=box)
                    continue
                if nonce in answered:
                    bad("question-answered-twice", "two answer boxes for one question", nonce=nonce)
                answered[nonce] = box
                r = self.responders.get(nonce) or {}
                want = wire_outcome(q.get(b"_command"), r.get("outcome"))
                got = ("value" if b"_answer" in box and box.get(b"nonce") == b"%d" % nonce else
                       {b"DECLARED": "declared", b"UNKNOWN": "undeclared", b"FATAL": "fatal"}.get(box.get(b"_error_code"), "other") if b"_error" in box else "wrong-nonce")
                if got != want and got == "undeclared" and want in ("declared", "fatal") and r.get("outcome", "").endswith("-sub"):
                    bad("declared-error-subclass-sent-as-unknown", "a responder failed with a subclass of a declared %serror; the peer answered UNKNOWN (and quits) instead of the declared code"
                        % ("fatal " if want == "fatal" else ""), nonce=nonce, responder=r.get("outcome"), box=box)
                elif got != want:
                    bad("answer-does-not-match-responder-outcome", "the answer written differs from what the responder produced", nonce=nonce, responder=want, wire=got, box=box)
            for nonce, q in asked.items():
                r = self.responders.get(nonce) or {}
                produced = r.get("outcome") in HOWS and not r.get("fired_after_lost")
                if b"_ask" in q and produced and nonce not in answered:
                    bad("responder-outcome-not-written", "a responder outcome produced while connected was not written as an answer", nonce=nonce, outcome=r.get("outcome"))
        # caller side
        for nonce, c in sorted(self.calls.items()):
            n = c["side"]
            ctx.count("calls")
            if c["origin"] in ("responder", "connectionLost"):
                ctx.count("calls_from_" + c["origin"].lower())
            if c["follow"] in (FOLLOW_CLOSE, FOLLOW_RAISE) and c["fired"]:
                ctx.count("callbacks_that_close" if c["follow"] == FOLLOW_CLOSE else "callbacks_that_raise")
            if c["parent"] is not None:
                ctx.count({"lost": "followups_during_connection_loss", "deliver": "followups_during_answer_delivery"}.get(c["issued_in"], "followups_inside_callremote"))
            if c["after_loss"]:
                ctx.count("calls_after_loss")
                if c["wrote"]:
                    bad("write-after-connection-lost", "callRemote after connectionLost wrote %d bytes" % c["wrote"], nonce=nonce)
                if c["ra"]:
                    if c["returned"] != "deferred" or c.get("fired_on_return") != 1 or len(c["fired"]) != 1:
                        if c["parent"] is not None and c["issued_in"] == "lost":
                            bad("reentrant-call-during-connection-loss-not-failed", "a callRemote issued from the errback of a call that is being failed for the connection loss "
                                "was accepted instead of returning an already-failed Deferred (fired %d times by the end)" % len(c["fired"]), nonce=nonce, parent=c["parent"], returned=c["returned"])
                        else:
                            bad("call-after-loss-not-failed-immediately", "callRemote after connectionLost did not return an already-failed Deferred", nonce=nonce, returned=c["returned"], fired=len(c["fired"]))
                    elif c["fired"][0][0] != "err" or c["fired"][0][1].value is not self.lost_reason[n].value:
                        bad("call-after-loss-wrong-failure", "callRemote after connectionLost failed with something else than the loss reason", nonce=nonce, got=repr(c["fired"][0][1]))
                    ctx.count("deferreds_checked")
                elif c["returned"] != "none":
                    bad("no-answer-call-after-loss-misbehaves", "requiresAnswer=False after connectionLost: %s" % c["returned"], nonce=nonce)
                continue
            if not c["ra"]:
                if c["returned"] != "none":
                    bad("no-answer-call-returned-something", "requiresAnswer=False callRemote returned %s" % c["returned"], nonce=nonce)
                continue
            ctx.count("deferreds_checked")
            if c["returned"] != "deferred":
                bad("callremote-raised", "callRemote on a live connection: %s" % c["returned"], nonce=nonce)
                continue
            if len(c["fired"]) != 1:
                bad("deferred-never-fired" if not c["fired"] else "deferred-fired-twice", "callRemote Deferred fired %d times by the end of the session" % len(c["fired"]),
                    nonce=nonce, mode=c["mode"], fired=[(f[0], repr(f[1])[:80]) for f in c["fired"]])
                continue
            kind, val, w = c["fired"][0]
            tag = next((t for t, x in tags[n].items() if x == nonce), None)
            box, bw = next(((b, w2) for b, w2 in self.delivered_boxes[n] if tag is not None and b.get(b"_answer", b.get(b"_error")) == tag), (None, None))
            if box is not None:
                ctx.count("fired_by_answer")
                if w != bw:
                    bad("deferred-fired-outside-answer-delivery", "the Deferred did not fire during the delivery that completed its answer", nonce=nonce, fired_in=w, answer_in=bw)
                if b"_answer" in box:
                    if kind != "ok" or val != {"nonce": nonce}:
                        bad("wrong-response-delivered", "the Deferred did not fire with its own command's response", nonce=nonce, got=(kind, repr(val)[:120]), box=box)
                else:
                    code = box.get(b"_error_code")
                    cls = {b"DECLARED": DeclaredError, b"FATAL": FatalError}.get(code, amp.UnknownRemoteError)
                    ro = (self.responders.get(nonce) or {}).get("outcome") or ""
                    if ro.endswith("-sub"):
                        ctx.count("errors_from_declared_subclass")
                    if c["command"] == "Plain":
                        ctx.count("errors_from_command_without_declared_errors")
                    ctx.count("fired_unknown_remote_error" if cls is amp.UnknownRemoteError else "fired_declared_error")
                    if kind != "err" or not val.check(cls) or type(val.value) is not cls:
                        bad("wrong-error-delivered", "error answer %r did not arrive as %s" % (code, cls.__name__), nonce=nonce, got=(kind, repr(val)[:120]))
            else:
                ctx.count("fired_by_connection_loss")
                reason = self.lost_reason.get(n)
                if kind != "err" or reason is None or val.value is not reason.value:
                    bad("unanswered-call-wrong-result", "an unanswered call did not fail with the connection-loss reason", nonce=nonce, got=(kind, repr(val)[:120]), reason=repr(reason))
                elif w is None or w[:2] != ("lost", n):
                    bad("unanswered-call-failed-outside-connectionlost", "an unanswered call failed before connectionLost was delivered", nonce=nonce, fired_in=w)
            if c["outstanding_before"] >= 3:
                ctx.count("calls_with_3_outstanding")
        return out

    def summary(self):
        return {"calls": {n: (c["side"], c["mode"], "ask" if c["ra"] else "tell", "after-loss" if c["after_loss"] else "live",
                              "follow-up of %s issued in %s" % (c["parent"], c["issued_in"]) if c["parent"] is not None else "top-level",
                              [(f[0], repr(f[1])[:60], f[2]) for f in c["fired"]]) for n, c in self.calls.items()},
                "responders": {n: (r["side"], r["runs"], r["outcome"]) for n, r in self.responders.items()},
                "bytes_moved": self.bytes_moved, "lost": {n: repr(r) for n, r in self.lost_reason.items()}}


# ------------------------------------------------------------------------------------------------
def choose(rng, s):
    """One weighted scheduler action as a label."""
    acts = s.actions()
    cats = []
    for a in acts:
        w = {"call": 5, "lose": 0.12, "graceful": 0.1}.get(a, 0)
        if a.startswith("deliver"):
            w = 4
        elif a.startswith("fire"):
            w = 2
        elif a.startswith("complete-close"):
            w = 2.5
        cats.append((a, w))
    total = sum(w for _, w in cats)
    x = rng.random() * total
    for a, w in cats:
        x -= w
        if x <= 0:
            break
    if a == "call":
        mode = rng.choice([0, 0, 0, 0, 1, 1, 1, 8, 8, 9, 9, 10, 2, 2, 6, 6, 4, 4, 3, 5, 7, 11]) if rng.random() < 0.93 else rng.randrange(len(MODES))
        x = rng.random()
        ra = 0 if x < 0.13 else 2 if x < 0.33 else 1
        follow = (rng.choice([FOLLOW_CLOSE, FOLLOW_RAISE]) if rng.random() < 0.15 else rng.randint(1, len(MODES))) if ra and rng.random() < 0.3 else 0
        return ("call", rng.choice("ab"), mode, ra, follow)
    if a.startswith("deliver"):
        return ("deliver", a[-1], rng.choice(["1", "half", "all", "all"]))
    if a.startswith("fire"):
        return ("fire", a[-1], rng.randrange(8), rng.choice(["value", "value", "value", "value", "declared", "declared-sub", "declared-sub", "undeclared", "undeclared-base", "fatal", "fatal-sub"]))
    if a.startswith("complete-close"):
        return ("complete-close", a[-1])
    return (a, rng.choice("ab"))


def gen_script(rng):
    """Short exchange for the fault enumeration: calls, a pump, fires, a pump."""
    labels = [("arm-lostcall", side) for side in "ab" if rng.random() < 0.3]
    for _ in range(rng.randint(2, 5)):
        mode = rng.choice([0, 0, 1, 8, 9, 10, 2, 6, 3, 4, 5, 7]) if rng.random() < 0.9 else rng.randrange(len(MODES))
        x = rng.random()
        ra = 0 if x < 0.1 else 2 if x < 0.3 else 1
        labels.append(("call", rng.choice("ab"), mode, ra, rng.choice([1, 1, 2, 3, 5]) if ra and rng.random() < 0.35 else 0))
        if rng.random() < 0.3:
            labels.append(("deliver", rng.choice("ab"), rng.choice(["half", "all"])))
    labels.append(("pump",))
    for _ in range(rng.randint(0, 3)):
        labels.append(("fire", rng.choice("ab"), rng.randrange(4), rng.choice(HOWS)))
    labels.append(("pump",))
    labels.append(("call", rng.choice("ab"), 0, 1))
    labels.append(("pump",))
    return labels


class NullCtx:
    def count(self, *a, **k):
        pass


def tally(ctx, s):
    logged = s.k["logged"]
    for e in logged:
        f = e.get("log_failure")
        if f is not None:
            ctx.seen("logged_failure_types", getattr(f.type, "__name__", "?"))
            ctx.count("logged_failures")
    del logged[:]
    ctx.count("responder_runs", sum(r["runs"] for r in s.responders.values()))
    ctx.count("deferred_responders_fired", sum(1 for r in s.responders.values() if "fired_after_lost" in r))
    ctx.count("responder_deferred_called_but_chained", sum(1 for r in s.responders.values() if r.get("shape") == "called-but-chained" and "fired_after_lost" in r))
    ctx.count("responder_deferred_fired_and_paused", sum(1 for r in s.responders.values() if r.get("shape") == "fired-and-paused" and "fired_after_lost" in r))
    ctx.count("quit_closes", sum(1 for n in ("a", "b") for box, _ in s.written_boxes[n] if box.get(b"_error_code") in (b"UNKNOWN", b"FATAL")))


def run_labels(ctx, labels, case, count=True):
    s = Session(ctx)
    for l in labels:
        s.apply(tuple(l))
    s.finish()
    problems = s.analyse()
    if count:
        tally(ctx, s)
    for key, what, detail in problems:
        ctx.violation(key, what, {"case": case, "detail": detail, "history": s.history, "summary": s.summary()})
    return s, problems


def random_session(ctx, i):
    rng = ctx.case_rng("session", i)
    s = Session(ctx)
    for side in "ab":
        if rng.random() < 0.25:
            s.apply(("arm-lostcall", side))
    n = rng.randint(6, 40)
    after = rng.randint(1, 5)
    for _ in range(n):
        s.apply(choose(rng, s))
        if s.lost_reason:  # a few more actions after the loss (calls must fail at once, late fires), then stop
            after -= 1
            if after <= 0:
                break
    labels = list(s.history)
    s.finish()
    problems = s.analyse()
    tally(ctx, s)
    for key, what, detail in problems:
        ctx.violation(key, what, {"case": ["session", i], "detail": detail, "history": s.history, "summary": s.summary()})
    if i % 50 == 0:
        # the verdict must be a function of the label history alone (that is what makes a witness replayable)
        s2 = Session(NullCtx())
        for l in labels:
            s2.apply(l)
        s2.finish()
        if repr(s2.summary()) != repr(s.summary()) or len(s2.analyse()) != len(problems):
            ctx.inconclusive("session %d is not a deterministic function of its action history" % i)
        ctx.count("determinism_rechecks")
    ctx.count("sessions")
    ctx.evaluated()
    if s.calls:
        ctx.distinct(tuple(labels))
    return s, problems


def boundary_runs(ctx, j):
    rng = ctx.case_rng("script", j)
    script = gen_script(rng)
    base, _ = run_labels(ctx, script, ["script", j, None])
    total = base.bytes_moved
    ctx.count("scripts")
    ctx.evaluated()
    for kbytes in range(0, total + 1):
        labels = [("budget", kbytes)] + script
        s, _p = run_labels(ctx, labels, ["script", j, kbytes])
        ctx.count("boundary_runs")
        ctx.evaluated()
        ctx.distinct(tuple(labels))
    ctx.maxi("exchange_bytes", total)
    return base


def run(ctx):
    classes()
    samples = 0
    for i in ctx.cases(4000, 400000):
        s, problems = random_session(ctx, i)
        if samples < 2 and not problems and 3 <= len(s.calls) <= 6 and s.lost_reason:
            samples += 1
            ctx.sample({"history": s.history, "observed": s.summary()})
    for j in ctx.cases(24, 2400):
        boundary_runs(ctx, j)


def replay(ctx, w):
    classes()
    x = w["witness"]
    s, problems = run_labels(ctx, [tuple(l) for l in x["history"]], x.get("case"), count=False)
    for key, what, detail in problems:
        print("replayed: %s: %s %r" % (key, what, detail))
    if not problems:
        print("replayed: no violation; observed %r" % (s.summary(),))
