"""C40 SMTP transfers message bodies transparently (SMTPClient <-> ESMTP, end to end, E2).

Object: a `smtp.SMTPClient` subclass whose `getMailData` returns the generated body as a file, and a
`smtp.ESMTP` (sometimes plain `smtp.SMTP`) server with a recording IMessageDelivery/IMessage, joined
by the in-memory Link; `basic.FileSender.CHUNK_SIZE` is set per case (1, 2, 3, 7, 64, 16384) and the
network segmentation is random.

Events (one ordered log): every command line the server's state machine dispatches (wrapped
`state_COMMAND`), every `IMessage.lineReceived` / `eomReceived` / `connectionLost`, every command
line the client sends (its `sendLine`, the DATA terminator excluded), the moment the client finished
the body (`finishedFileTransfer`).

Oracle (the statement, nothing more):
* each recipient's message == [the delivery's Received: header, if it returns one] + [one blank line
  if the first body line is non-empty and has no ':' — the server's documented header handling] +
  the body's lines, exactly;
* exactly one eomReceived per recipient and message, logged after the client finished that body;
* the server's command log == the client's command log (no body line is ever a command).

Second generation (own RNG stream): every kind of application-supplied result for validateFrom /
validateTo / eomReceived (plain value, fired Deferred, fired later, `.called` but chained on an unfired
Deferred, fired and paused; the harness fires outstanding ones whenever the link is quiescent), rejected
recipients (SMTPBadRcpt raised or delivered through each Deferred kind), a failing eomReceived, a message
refused midway by IMessage.lineReceived (documented SMTPServerError), each followed by further messages
of the same session; lines of 996..1002 and 2048 bytes and around the server's documented line limit
(16382..16386, 20000).  For a message the server may refuse (a wire line longer than its MAX_LENGTH, or a
refusal raised by the IMessage) only "never more": delivered lines are a prefix of the body's lines, no
eomReceived after a refusal, and the server's command log is a prefix of the client's — body content
still must never be executed as a command.  `smtp-overlong-line-leaves-data-mode` is used only when that
is the sole failure and it happens at/after the first message containing an over-long line.

Mail data objects: BytesIO, or (30%) a pipe-like reader whose read(n) returns a non-empty prefix of what is left
(1 byte, random short, alternating full/1, first read short, stopping right before/after a newline or right before a
dot line) — "any chunking of the client's reads" is more than CHUNK_SIZE.

Link mode (25% of connections, 60% of those with an over-long line): the transport keeps delivering the
client's remaining segments to the server after the server called loseConnection() (TLS / wrappers do); the
oracle is unchanged.

Guards: bodies have at least one line, no CR; a body
without final newline counts its last unterminated piece as a line; timeouts are disabled (no
reactor timers); response texts are not compared.

Classification: `smtp-dot-first-in-chunk` only when some body line that starts with '.' begins
exactly at a FileSender read-chunk boundary (offset 0 included) AND the first affected message
arrived exactly as a model of that one fault predicts (per-chunk stuffing that cannot see the
previous chunk's trailing newline, followed by a correct server decode) AND every earlier message
of the connection was intact.  Everything else: `body-mismatch`, `eom-count`, `eom-before-body-end`,
`body-line-executed-as-command`.
"""
import io

LEVEL = "exploration"
ENGINE = "E2-netsim"
TECHNIQUE = "runtime monitoring: end-to-end line-by-line comparison of delivered message vs. sent body, plus server/client command-log equality"
RULE = ("random bodies (1..40 lines, < 900 bytes) rich in '.', '..', '.x' lines and command look-alikes, with dot "
        "lines steered to offsets k*CHUNK_SIZE + {-2..2}, to the first and the last line; with/without final newline; "
        "CHUNK_SIZE in {1,2,3,7,64,16384}; 1-2 messages per connection, 1-2 recipients, with/without Received header; "
        "random network segmentation in both directions.  A case is (bodies, CHUNK_SIZE, configuration, segmentation); "
        "distinct by (bodies, CHUNK_SIZE, recipients, header, server class); non-trivial = a body with a dot line or a "
        "command look-alike.")
ASSUMPTIONS = ["trusted base: the E2 link (vf/engines/netsim.py) and the 10-line expected-message computation in this module",
               "the client and server run without timeouts; SMTP replies are whatever the real server sends"]
SHARDS = {"quick": 4, "thorough": 16}
FLOORS = {"segments_delivered_after_loseconnection": 100, "keep_delivering_connections": 1000, "short_read_cases": 800, "short_reads_delivered": 3000, "application_deferreds_fired_later": 1500, "deferred_kind_called-chained": 300, "deferred_kind_paused": 300, "deferred_kind_pending": 300,
          "recipients_rejected": 150, "messages_refused_midway": 50, "second_message_after_failure_or_rejection": 80, "long_line_bodies": 200,
          "line_exactly_at_server_limit": 5, "bodies_with_line_beyond_server_limit": 10, "messages_compared": 1000, "message_lines_compared": 5000, "eom_observed": 1000, "server_commands_logged": 4000,
          "dot_lines_sent": 2000, "dot_line_at_chunk_start": 200, "dot_line_not_at_chunk_start": 500, "no_final_newline": 50,
          "command_lookalike_lines": 300}
READY = True

CHUNKS = [1, 2, 3, 7, 64, 64, 16384, 16384]
HDR = b"Received: by vf-harness (recording delivery)"
LOOKALIKES = [b"QUIT", b"RSET", b"MAIL FROM:<x@example.org>", b"RCPT TO:<y@example.org>", b"DATA", b"NOOP", b"HELO there", b"quit"]


# ------------------------------------------------------------------ generator
def gen_line(rng):
    r = rng.random()
    if r < 0.10:
        return b"."
    if r < 0.16:
        return b".."
    if r < 0.24:
        return b"." + rng.choice([b"x", b"hidden", b" ", b".."]) + gen_plain(rng, 6)
    if r < 0.44:
        return rng.choice(LOOKALIKES)
    if r < 0.52:
        return b""
    if r < 0.58:
        return rng.choice([b"Subject: test", b"X-Key: v", b"From: a@b", b"a:b"])
    return gen_plain(rng, rng.choice([1, 3, 8, 20, 60]))


def gen_plain(rng, n):
    return bytes(rng.choice(b"abcdefghijklmnop qrstuvwxyz0123456789.:-") for _ in range(rng.randint(0, n)))


def gen_body(rng, chunk):
    lines = []
    size = 0
    n = rng.choice([1, 1, 2, 3, 5, 8, 13, 25, 40])
    first = rng.random()
    if first < 0.12:
        lines.append(rng.choice([b".", b"..", b".x", b".QUIT"]))
    elif first < 0.25:
        lines.append(rng.choice(LOOKALIKES))
    else:
        lines.append(gen_line(rng))
    size = len(lines[0]) + 1
    while len(lines) < n and size < 850:
        if chunk > 1 and chunk < 900 and rng.random() < 0.35:
            # steer the *next* line to start at k*chunk + d, then make it a dot line
            d = rng.choice([0, 0, 1, -1, 2, -2])
            k = size // chunk + 1
            target = k * chunk + d
            pad = target - size - 1  # length of a filler line (plus its newline) that ends right before target
            if 0 <= pad < 300:
                lines.append(bytes(rng.choice(b"abcdefgh") for _ in range(pad)))
                size += pad + 1
                dl = rng.choice([b".", b".", b"..", b".x", b".RSET"])
                lines.append(dl)
                size += len(dl) + 1
                continue
        ln = gen_line(rng)
        lines.append(ln)
        size += len(ln) + 1
    if rng.random() < 0.3:
        lines.append(rng.choice([b".", b"..", b".end"]))
    body = b"\n".join(lines) + b"\n"
    final_nl = True
    if rng.random() < 0.15 and lines[-1] != b"":
        body = body[:-1]
        final_nl = False
    return body[:899] if len(body) > 899 and not final_nl else body, final_nl


def body_lines(body):
    ls = body.split(b"\n")
    if ls[-1] == b"":
        ls.pop()
    return ls


def expected_message(lines, hdr):
    out = [hdr] if hdr else []
    if lines and lines[0] and b":" not in lines[0]:
        out.append(b"")
    return out + lines


def dot_lines_at_chunk_start(body, chunk):
    """Offsets of lines that start with '.' exactly at a FileSender read boundary."""
    hits, other, off = [], 0, 0
    for ln in body_lines(body):
        if ln[:1] == b".":
            if off % chunk == 0:
                hits.append(off)
            else:
                other += 1
        off += len(ln) + 1
    return hits, other


def predict_with_fault(body, chunk, hdr):
    """Message lines a correct server would decode if stuffing is done per read chunk (a leading dot of
    a chunk is not stuffed) — the model of `smtp-dot-first-in-chunk`."""
    wire = b""
    last = b""
    for i in range(0, len(body), chunk):
        c = body[i:i + chunk].replace(b"\n", b"\r\n").replace(b"\r\n.", b"\r\n..")
        wire += c
        last = c[-1:]
    wire += (b"." if last == b"\n" else b"\r\n.") + b"\r\n"
    got = []
    for ln in wire.split(b"\r\n")[:-1]:
        if ln == b".":
            break
        got.append(ln[1:] if ln[:1] == b"." else ln)
    return expected_message(got, hdr)


# ------------------------------------------------------------------ harness objects
def make_deferred(defer, later, kind, value, fail=None):
    """The kinds of results application code hands to the server: a plain value, an already fired Deferred,
    one fired later, one that is `.called` but whose chain waits on an unfired Deferred, one fired and paused."""
    final = (lambda d: d.errback(fail)) if fail is not None else (lambda d: d.callback(value))
    if kind == "plain":
        if fail is not None:
            raise fail
        return value
    d = defer.Deferred()
    if kind == "fired":
        final(d)
    elif kind == "pending":
        later.append(lambda: final(d))
    elif kind == "called-chained":
        inner = defer.Deferred()
        d.addCallback(lambda _: inner)
        d.callback(None)
        later.append(lambda: final(inner))
    elif kind == "paused":
        final(d)
        d.pause()
        later.append(d.unpause)
    return d


class ShortReader:
    """A pipe/socket-like mail data object: read(n) returns a non-empty PREFIX of what is left (never more than n),
    b"" only at the real end."""

    def __init__(self, data, mode, rng):
        self.data, self.pos, self.mode, self.rng, self.calls, self.short = data, 0, mode, rng, 0, 0

    def read(self, n=-1):
        left = len(self.data) - self.pos
        if left <= 0:
            return b""
        n = left if n is None or n < 0 else min(n, left)
        self.calls += 1
        m = self.mode
        if m == "one-byte":
            k = 1
        elif m == "random-short":
            k = self.rng.randint(1, n)
        elif m == "alternating":
            k = n if self.calls % 2 else 1
        elif m == "first-short":
            k = self.rng.randint(1, max(1, n - 1)) if self.calls == 1 else n
        else:  # "line-edges": stop right before / right after a newline, or right before a dot line
            window = self.data[self.pos:self.pos + n]
            cands = [j + d for j in range(len(window)) if window[j:j + 1] == b"\n" for d in (0, 1)]
            cands = [c for c in cands if 0 < c <= n]
            dots = [j + 1 for j in range(len(window) - 1) if window[j:j + 2] == b"\n."]
            k = self.rng.choice(dots) if dots and self.rng.random() < 0.6 else (self.rng.choice(cands) if cands else n)
        if k < n:
            self.short += 1
        out = self.data[self.pos:self.pos + k]
        self.pos += k
        return out


READER_MODES = ["one-byte", "random-short", "alternating", "first-short", "line-edges"]


def build(log, bodies, nrcpt, hdr, server_cls, plan=None, later=None):
    from zope.interface import implementer
    from twisted.internet import defer
    from twisted.mail import smtp

    plan = plan or {}
    later = later if later is not None else []
    dk = plan.get("dk", {})
    state = {"m": -1, "k": 0}

    @implementer(smtp.IMessage)
    class Msg:
        def __init__(self, mid, m):
            self.mid, self.m, self.n = mid, m, 0

        def lineReceived(self, line):
            log.append(("msg-line", self.mid, line))
            self.n += 1
            if plan.get("refuse") == (self.m, self.n - 1):
                raise smtp.SMTPServerError(552, b"message refused by the harness")

        def eomReceived(self):
            log.append(("eom", self.mid))
            fail = RuntimeError("delivery failed (harness)") if self.m in plan.get("eom_fail", ()) else None
            kind = dk.get("eom", "fired")
            return make_deferred(defer, later, "fired" if kind == "plain" else kind, None, fail)

        def connectionLost(self):
            log.append(("msg-lost", self.mid))

    @implementer(smtp.IMessageDelivery)
    class Delivery:
        def __init__(self):
            self.n = 0

        def receivedHeader(self, helo, origin, recipients):
            return hdr

        def validateFrom(self, helo, origin):
            state["m"] += 1
            state["k"] = 0
            return make_deferred(defer, later, dk.get("from", "plain"), origin)

        def validateTo(self, user):
            m, k = state["m"], state["k"]
            state["k"] += 1

            def make():
                self.n += 1
                return Msg(self.n, m)
            fail = smtp.SMTPBadRcpt(user) if (m, k) in plan.get("reject", ()) else None
            return make_deferred(defer, later, dk.get("to", "plain"), make, fail)

    class Client(smtp.SMTPClient):
        debug = False

        def __init__(self):
            smtp.SMTPClient.__init__(self, b"client.example")
            self.cur = -1  # index of the message being sent (a message whose recipients were all refused is skipped)
            self.sent = []
            self._terminating = False

        def sendLine(self, line):
            if not self._terminating:
                log.append(("cli-cmd", line))
            smtp.SMTPClient.sendLine(self, line)

        def finishedFileTransfer(self, lastsent):
            log.append(("cli-body-done", len(self.sent)))
            self._terminating = True
            try:
                smtp.SMTPClient.finishedFileTransfer(self, lastsent)
            finally:
                self._terminating = False

        def getMailFrom(self):
            self.cur += 1
            return b"sender@example.org" if self.cur < len(bodies) else None

        def getMailTo(self):
            return [b"rcpt%d@example.net" % k for k in range(nrcpt)]

        def getMailData(self):
            mode = plan.get("reader")
            if mode:
                r = ShortReader(bodies[self.cur], mode, plan["reader_rng"])
                plan.setdefault("readers", []).append(r)
                return r
            return io.BytesIO(bodies[self.cur])

        def sentMail(self, code, resp, numOk, addresses, log_):
            self.sent.append(code)
            log.append(("cli-sent", code))

    srv = smtp.ESMTP() if server_cls == "ESMTP" else smtp.SMTP()
    srv.delivery = Delivery()
    srv.timeout = None
    srv.noisy = False
    real = srv.state_COMMAND

    def state_COMMAND(line):
        log.append(("srv-cmd", line))
        return real(line)

    srv.state_COMMAND = state_COMMAND
    return Client(), srv


def run_connection(rng, bodies, chunk, nrcpt, hdr, server_cls, seg_mode, plan=None):
    from twisted.protocols import basic
    from vf.engines.netsim import Link

    from twisted.logger import globalLogPublisher

    log = []
    later = []
    cli, srv = build(log, bodies, nrcpt, hdr, server_cls, plan, later)
    logged = []
    globalLogPublisher.addObserver(logged.append)  # failures the server logs (no gc pass per case: too slow)
    saved = basic.FileSender.CHUNK_SIZE
    basic.FileSender.CHUNK_SIZE = chunk
    try:
        keep = bool(plan and plan.get("keep_delivering"))

        class KeepLink(Link):
            """A transport that keeps handing already received data to the protocol after loseConnection()
            (TLS memory BIO, wrappers): before the close completes, the rest of the client's stream is delivered."""
            after = 0

            def finish_close(self, side):
                if keep and side is self.b and not side.transport.aborted:
                    for _ in range(5000):
                        if self.a.transport.pending():
                            data = self.a.transport.take(seg(rng, self.a.transport.pending()))
                            KeepLink.after += 1
                            side.protocol.dataReceived(data)
                        elif not self.a.transport.sim_resume_producer():
                            break
                Link.finish_close(self, side)

        link = KeepLink(cli, srv, names=("cli", "srv"))
        link.connect(first="b")

        def seg(r, pending):
            if seg_mode == 0:
                return None
            if seg_mode == 1:
                return 1
            if seg_mode == 2:
                return r.randint(1, 5)
            return r.randint(1, max(1, pending))

        steps = 0
        try:
            for _ in range(400):  # quiescent -> let the application fire one of its outstanding Deferreds
                steps += link.pump(rng, max_steps=400000, chunk=seg)
                if not later:
                    break
                log.append(("app-fires-deferred",))
                later.pop(0)()
        except Exception as e:  # a reactor would log this and drop the connection
            log.append(("exception", "%s: %s" % (type(e).__name__, str(e)[:160])))
    finally:
        basic.FileSender.CHUNK_SIZE = saved
        globalLogPublisher.removeObserver(logged.append)
    log.append(("after-lose", link.after))
    for ev in logged:
        f = ev.get("log_failure")
        if f is not None:
            log.append(("logged-failure", getattr(f.type, "__name__", "?"), f.getErrorMessage()[:80]))
    return log, steps, link


# ------------------------------------------------------------------ oracle
def check_connection(ctx, case):
    rng = ctx.case_rng(case["i"], "seg")
    bodies, chunk, nrcpt, hdr, server_cls = case["bodies"], case["chunk"], case["nrcpt"], case["hdr"], case["server"]
    plan = case.get("plan") or {}
    log, steps, link = run_connection(rng, bodies, chunk, nrcpt, hdr, server_cls, case["seg_mode"], plan)
    ctx.evaluated()
    ctx.count("pump_steps", steps)
    ctx.count("bytes_client_to_server", len(link.a.transport.written))
    for ev in log:
        if ev[0] == "logged-failure":  # the failing eomReceived of the plan is logged by the server; anything else is only recorded
            ctx.count("logged_failures")
            ctx.seen("logged_failure_types", ev[1])
    ctx.count("segments_delivered_after_loseconnection", sum(ev[1] for ev in log if ev[0] == "after-lose"))
    for r in plan.get("readers", ()):
        ctx.count("short_reads_delivered", r.short)
        ctx.count("mail_data_read_calls", r.calls)
    ctx.count("application_deferreds_fired_later", sum(1 for ev in log if ev[0] == "app-fires-deferred"))
    msgs = {}
    eoms = {}
    done_at = {}
    for pos, ev in enumerate(log):
        if ev[0] == "msg-line":
            msgs.setdefault(ev[1], []).append(ev[2])
        elif ev[0] == "eom":
            eoms.setdefault(ev[1], []).append(pos)
            ctx.count("eom_observed")
        elif ev[0] == "cli-body-done":
            done_at[ev[1]] = pos
    srv_cmds = [ev[1].strip() for ev in log if ev[0] == "srv-cmd"]
    cli_cmds = [ev[1].strip() for ev in log if ev[0] == "cli-cmd"]
    ctx.count("server_commands_logged", len(srv_cmds))
    problems = []
    first_bad = None
    over = case.get("overlong")  # index of the first message with a wire line beyond the server's documented MAX_LENGTH
    mid = 0
    for m, body in enumerate(bodies):
        lines = body_lines(body)
        exp = expected_message(lines, hdr)
        lenient = over is not None and m >= over  # the server may refuse / drop: only "never more, never a command"
        for k in range(nrcpt):
            if (m, k) in plan.get("reject", ()):
                ctx.count("recipients_rejected")
                continue
            mid += 1
            got = msgs.get(mid, [])
            ctx.count("messages_compared")
            ctx.count("message_lines_compared", len(exp))
            refuse = plan.get("refuse")
            bad = None
            if lenient:
                ctx.count("messages_after_overlong_line_prefix_checked")
                if got != exp[:len(got)] or len(eoms.get(mid, [])) > 1:
                    bad = ("body-mismatch", m, mid, exp[:len(got) + 1], got)
            elif refuse is not None and refuse[0] == m:
                ctx.count("messages_refused_midway")
                if got != exp[:refuse[1] + 1]:
                    bad = ("body-mismatch", m, mid, exp[:refuse[1] + 1], got)
                elif eoms.get(mid):
                    bad = ("eom-count", m, mid, 0, len(eoms[mid]))
            else:
                ne = eoms.get(mid, [])
                if got != exp:
                    bad = ("body-mismatch", m, mid, exp, got)
                elif len(ne) != 1:
                    bad = ("eom-count", m, mid, 1, len(ne))
                elif m not in done_at or ne[0] < done_at[m]:
                    bad = ("eom-before-body-end", m, mid, done_at.get(m), ne[0])
            if bad:
                problems.append(bad)
                if first_bad is None:
                    first_bad = m
    nexpected = mid
    extra = [x for x in msgs if x > nexpected]
    if extra:
        problems.append(("unexpected-message", None, extra, None, [msgs[x] for x in extra]))
    for ev in log:
        if ev[0] == "exception":
            ctx.count("exceptions_in_protocol_code")
            problems.append(("exception-in-protocol-code", None, None, None, ev[1]))
    if over is not None:
        if srv_cmds != cli_cmds[:len(srv_cmds)]:
            problems.append(("body-line-executed-as-command", None, None, cli_cmds, srv_cmds))
    elif srv_cmds != cli_cmds:
        problems.append(("body-line-executed-as-command" if len(srv_cmds) > len(cli_cmds) else "command-log-differs", None, None, cli_cmds, srv_cmds))
    if i_sample(ctx, case):
        ctx.sample({"chunk": chunk, "bodies": bodies, "server": server_cls, "recipients": nrcpt, "server_commands": srv_cmds,
                    "delivered_first": msgs.get(1), "events": len(log)})
    if not problems:
        return
    # classification
    key = problems[0][0]
    if over is not None and (first_bad is None or first_bad >= over) and any(p[0] == "body-line-executed-as-command" for p in problems):
        # the only thing wrong is what follows a line longer than MAX_LENGTH inside DATA
        key = "smtp-overlong-line-leaves-data-mode"
    affected = [m for m, b in enumerate(bodies) if dot_lines_at_chunk_start(b, chunk)[0]]
    if affected and first_bad is not None and first_bad == affected[0]:
        m = first_bad
        pred = predict_with_fault(bodies[m], chunk, hdr)
        if not plan and all(msgs.get(m * nrcpt + k + 1, []) == pred for k in range(nrcpt)) and pred != expected_message(body_lines(bodies[m]), hdr):
            key = "smtp-dot-first-in-chunk"
    ctx.violation(key, "message delivered by the server differs from the body the client was given / body lines were executed as commands",
                  {"case": case["i"], "chunk_size": chunk, "bodies": bodies, "recipients": nrcpt, "received_header": hdr, "server": server_cls,
                   "segmentation_mode": case["seg_mode"], "plan": {k: (sorted(v) if isinstance(v, (set, frozenset)) else v) for k, v in plan.items() if k not in ("reader_rng", "readers")},
                   "first_message_with_overlong_line": over, "dot_lines_at_chunk_start": [dot_lines_at_chunk_start(b, chunk)[0] for b in bodies],
                   "problems": [{"kind": p[0], "message": p[1], "id": p[2], "expected": p[3], "observed": p[4]} for p in problems[:4]],
                   "client_commands": cli_cmds, "server_commands": srv_cmds[:40]})


def i_sample(ctx, case):
    return case["i"] < 2 * ctx.nshards and len(ctx.samples) < 3


def make_case(ctx, i):
    rng = ctx.case_rng(i)
    chunk = rng.choice(CHUNKS)
    nmsg = rng.choice([1, 1, 1, 2])
    bodies = []
    for _ in range(nmsg):
        b, final_nl = gen_body(rng, chunk)
        bodies.append(b)
        if not final_nl:
            ctx.count("no_final_newline")
    case = {"i": i, "bodies": bodies, "chunk": chunk, "nrcpt": rng.choice([1, 1, 2]), "hdr": rng.choice([HDR, HDR, None]),
            "server": rng.choice(["ESMTP", "ESMTP", "ESMTP", "SMTP"]), "seg_mode": rng.randrange(4)}
    extend_case(ctx, case, i)
    bodies = case["bodies"]
    nontrivial = bool(case.get("plan")) or case.get("overlong") is not None
    for b in bodies:
        hits, other = dot_lines_at_chunk_start(b, chunk)
        ctx.count("dot_line_at_chunk_start", len(hits))
        ctx.count("dot_line_not_at_chunk_start", other)
        ctx.count("dot_lines_sent", len(hits) + other)
        la = sum(1 for ln in body_lines(b) if ln in LOOKALIKES)
        ctx.count("command_lookalike_lines", la)
        nontrivial = nontrivial or hits or other or la
    if nontrivial:
        ctx.distinct((tuple(bodies), chunk, case["nrcpt"], case["hdr"], case["server"], repr(sorted(((k, v) for k, v in (case.get("plan") or {}).items() if k != "reader_rng"), key=str))))
    ctx.seen("chunk_sizes", str(chunk))
    ctx.seen("servers", case["server"])
    return case


KINDS = ["plain", "fired", "pending", "called-chained", "paused"]
MAXLEN = 16384  # LineOnlyReceiver.MAX_LENGTH of the server (documented limit)


def extend_case(ctx, case, i):
    """Second generation of the workload (own RNG stream, so the first one is unchanged): long lines around the
    RFC (998/1000) and server (16384) limits, application Deferreds of every kind, rejected recipients, a failing
    eomReceived, a message refused midway by IMessage.lineReceived — followed by further messages."""
    rng = ctx.case_rng(i, "plan")
    bodies, nmsg, nrcpt = case["bodies"], len(case["bodies"]), case["nrcpt"]
    r = rng.random()
    if r < 0.12:  # long lines
        m = rng.randrange(nmsg)
        if rng.random() < 0.7 or case["chunk"] < 64:
            n = rng.choice([996, 997, 998, 999, 1000, 1001, 1002, 2048])
        else:
            n = rng.choice([MAXLEN - 2, MAXLEN - 1, MAXLEN, MAXLEN, MAXLEN + 1, MAXLEN + 1, MAXLEN + 2, 20000])
        lead = rng.choice([b"", b"", b"."])
        line = lead + bytes(rng.choice(b"abcdefgh ") for _ in range(n - len(lead)))
        ls = body_lines(bodies[m])
        ls.insert(rng.randrange(len(ls) + 1), line)
        if n > 2048:
            case["seg_mode"] = rng.choice([0, 3, 3])  # keep 16-20 KiB bodies affordable
            ls += [b"RSET", b"MAIL FROM:<after-long-line@example.org>", b"QUIT"][:rng.randrange(1, 4)]
        bodies[m] = b"\n".join(ls) + b"\n"
        ctx.count("long_line_bodies")
        ctx.seen("long_line_lengths", str(n))
        if any(len(x) + (x[:1] == b".") > MAXLEN for x in ls):
            case["overlong"] = m
            ctx.count("bodies_with_line_beyond_server_limit")
        if len(ls[ls.index(line)]) + (lead == b".") == MAXLEN:
            ctx.count("line_exactly_at_server_limit")
    if rng.random() < 0.5:
        plan = {"dk": {"from": rng.choice(KINDS), "to": rng.choice(KINDS), "eom": rng.choice(KINDS[1:])}}
        q = rng.random()
        if q < 0.25:
            plan["reject"] = frozenset((m, k) for m in range(nmsg) for k in range(nrcpt) if rng.random() < 0.4)
        elif q < 0.4:
            plan["eom_fail"] = frozenset(m for m in range(nmsg) if rng.random() < 0.6)
        elif q < 0.55 and nrcpt == 1 and case.get("overlong") is None:
            m = rng.randrange(nmsg)
            n = len(expected_message(body_lines(bodies[m]), case["hdr"]))
            plan["refuse"] = (m, rng.randrange(n))
        case["plan"] = plan
        for which, kind in plan["dk"].items():
            ctx.count("deferred_kind_%s" % kind)
        ctx.seen("plans", "+".join(sorted(k for k in plan if k != "dk")) or "deferred-kinds-only")
        if nmsg > 1 and len(plan) > 1:
            ctx.count("second_message_after_failure_or_rejection")
    rk = ctx.case_rng(i, "keep")
    if rk.random() < 0.25 or (case.get("overlong") is not None and rk.random() < 0.6):
        case.setdefault("plan", {})["keep_delivering"] = True
        ctx.count("keep_delivering_connections")
    rr = ctx.case_rng(i, "reader")
    if rr.random() < 0.3:  # mail data that delivers SHORT READS before its end (pipe / socket like)
        case.setdefault("plan", {})
        case["plan"]["reader"] = rr.choice(READER_MODES)
        case["plan"]["reader_rng"] = rr
        if case["plan"]["reader"] == "one-byte" and sum(map(len, case["bodies"])) > 3000:
            case["plan"]["reader"] = "random-short"
        ctx.count("short_read_cases")
        ctx.seen("reader_modes", case["plan"]["reader"])


def run(ctx):
    for i in ctx.cases(5000, 200000):
        check_connection(ctx, make_case(ctx, i))


def replay(ctx, w):
    i = w["witness"]["case"]
    check_connection(ctx, make_case(ctx, i))
