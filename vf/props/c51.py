"""C51 DirDBM survives a crash at any point — E3 crash-point enumeration on a real directory.

Monitor: a random history of set-new / replace / delete is executed for real on a scratch DirDBM
(the model is checked after it), then ONE more operation is executed under fault enumeration: a
count pass numbers every mutating filesystem call it makes (open-for-write, write, flush, close,
remove, rename …), then the directory is restored and the operation re-run once per (call index,
partial-write length); at that point the simulated process dies (`Crash(BaseException)`, after
which every filesystem call — also those of `except BaseException: new.remove()` — raises without
touching the disk).  Then "reboot": a fresh `DirDBM(path)` (runs the recovery) on the left-over
directory; additionally every call of the recovery itself is a nested crash point (depth 1 quick,
2 thorough), followed by another reboot.

Oracle (decided only through the public mapping API after the last reopen): every key other than
the interrupted one has the value of its last completed operation; the interrupted key has its old
or its new value (absent is a value for set-new / delete); `keys()` lists exactly those keys (no
`.new`/`.rpl` residue, no exception), `len(db)` agrees; a following completed set of the interrupted
key is readable and survives another reopen.

Containment: every path handed to twisted lives under one mkdtemp() top and ALL target code (also the
crash-free phases and the reboots) runs inside a FaultFS, which refuses — without executing — any
mutating filesystem call outside that top and reports it as `filesystem-call-outside-scratch`.

Interrupts (a process that SURVIVES): for set operations every call of the write phase (open of the
temporary .. its close, torn writes included) is also faulted with a one-shot KeyboardInterrupt /
SystemExit / GeneratorExit / CancelledError; right afterwards keys() must list no residue and the key
must read old-or-new, then further completed operations (biased to deleting that key) are applied
and after a reopen the database must equal exactly the last completed operations (the documented
`except BaseException: new.remove()` contract).  The commit phase (unlink of the old entry, rename)
is also hit by KeyboardInterrupt / SystemExit / OSError in a process that unwinds normally; there the
code promises nothing inside the surviving process, so only the reopened database is judged: the key
holds its complete old or new value (never absent for a replace), other keys their last values.

Guards: nothing is demanded about *which* of old/new survives; values carry unique ids so that a
read identifies its write; the buffered-write model is conservative (bytes reach the disk only at
flush/close or as a torn prefix at the crash point) but never invents bytes.
"""
import os
import shutil
import tempfile

from vf.engines.fsfault import Crash, FaultFS, crash_points, report_escapes, restore_tree, selftest_or_inconclusive, snapshot_tree

LEVEL = "fault_enumeration"
ENGINE = "E3-fsfault"
TECHNIQUE = "runtime monitoring: old-or-new-per-key oracle on the reopened database after a simulated crash at every filesystem call / torn write"
RULE = ("case = (random history of 0..6 completed set/replace/delete operations over a pool of 6 keys "
        "[short, binary with '/' and '+' in base64, 58..150 bytes so the encoded name wraps], one "
        "faulted operation [set-new / replace / delete / Shelf set], crash point (call index k, torn "
        "length L in {0,1,n/2,n-1,n}, all lengths when n <= 16), optional nested crash point(s) inside "
        "the recovery).  Distinct by (history, k, L, nested path); non-trivial = the crash actually "
        "fired inside a mutating operation.")
ASSUMPTIONS = [
    "trusted base: vf/engines/fsfault.py (interception of os.*/open/file methods under the scratch root, buffered-write model)",
    "a crash is a process crash at filesystem-call granularity plus torn writes; power loss / unsynced metadata reordering is not modelled (the code makes no fsync claim)",
    "no foreign files in the DirDBM directory and one process at a time, as the module docstring requires",
]
SHARDS = {"quick": 4, "thorough": 16}
FLOORS = {"crash_runs": 200, "reopen_checks": 200, "nested_crash_runs": 20, "torn_write_points": 50,
          "interrupted_old_kept": 10, "interrupted_new_kept": 10, "replace_ops_faulted": 3, "delete_ops_faulted": 1,
          "interrupt_runs": 100, "interrupt_cleanup_verified": 100, "deletes_after_interrupt": 20,
          "commit_interrupt_runs": 100, "interrupts_between_unlink_and_rename_of_replace": 30, "commit_interrupt_old_or_new_verified": 100}
READY = True

VALUE_SIZES = [0, 1, 2, 7, 16, 17, 100, 1000, 4096, 8192]


def _keys(rng):
    pool = [b"k", b"key-two", b"\xff\xfe\xfb\xff\xef\xbe", b"dot.new", b"x" * 58 + b"\xfb\xff", bytes(rng.randrange(256) for _ in range(rng.choice([60, 114, 150])))]
    return pool


def gen_case(rng):
    """-> (prefix ops, faulted op); ops are ('set', k, v) | ('del', k)."""
    keys = _keys(rng)
    uid = [0]

    def value():
        uid[0] += 1
        n = rng.choice(VALUE_SIZES)
        head = b"<v%d>" % uid[0]
        body = bytes(rng.randrange(256) for _ in range(min(n, 32))) * (n // 32 + 1)
        return (head + body)[:max(n, 0)] if n < len(head) else head + body[: n - len(head)]

    model = {}
    ops = []
    for _ in range(rng.randrange(0, 7)):
        if model and rng.random() < 0.25:
            k = rng.choice(sorted(model))
            ops.append(("del", k))
            del model[k]
        else:
            k = rng.choice(keys)
            v = value()
            ops.append(("set", k, v))
            model[k] = v
    r = rng.random()
    if model and r < 0.25:
        last = ("del", rng.choice(sorted(model)))
    elif model and r < 0.65:
        last = ("set", rng.choice(sorted(model)), value())  # replace
    else:
        fresh = [k for k in keys if k not in model] or keys
        last = ("set", rng.choice(fresh), value())
    return ops, last


def apply_op(db, op):
    if op[0] == "set":
        db[op[1]] = op[2]
    else:
        del db[op[1]]


class Case:
    def __init__(self, ctx, ops, last, shelf, case_id):
        self.ctx, self.ops, self.last, self.shelf, self.case_id = ctx, ops, last, shelf, case_id
        from twisted.persisted import dirdbm

        self.dirdbm = dirdbm
        self.cls = dirdbm.Shelf if shelf else dirdbm.DirDBM
        self.root = os.path.realpath(tempfile.mkdtemp(prefix="vf_c51_"))
        self.dbdir = os.path.join(self.root, "db")
        self.model = {}
        for op in ops:
            if op[0] == "set":
                self.model[op[1]] = op[2]
            else:
                del self.model[op[1]]
        k = last[1]
        self.key = k
        self.old = self.model.get(k)
        self.new = last[2] if last[0] == "set" else None

    def fs(self):
        return FaultFS(self.root, seams=[(self.dirdbm, "_open", "open")])

    def witness(self, path, extra=None):
        w = {"case": self.case_id, "shelf": self.shelf, "history": self.ops, "faulted_op": self.last,
             "crash_path": path, "left_over_files": sorted(os.listdir(self.dbdir)) if os.path.isdir(self.dbdir) else None}
        w.update(extra or {})
        return w

    # ---- oracle ---------------------------------------------------------------------------------
    def check(self, path, crashed):
        """Reboot on the left-over directory and decide old-or-new.  Returns the reopened db."""
        ctx = self.ctx
        ctx.count("reopen_checks")
        try:
            with self.fs():  # unarmed: containment guard only
                db = self.cls(self.dbdir)
                keys = db.keys()
                items = dict(db.items())
                n = len(db)
        except Exception as e:
            ctx.violation("reopen-or-read-raised", "reopening / listing the database after the crash raised", self.witness(path, {"exception": repr(e)}))
            return None
        allowed = [self.old, self.new] if crashed else [self.new]
        exp_other = {k: v for k, v in self.model.items() if k != self.key}
        got_other = {k: v for k, v in items.items() if k != self.key}
        got = items.get(self.key)
        if len(keys) != len(set(keys)) or set(keys) != set(items):
            ctx.violation("keys-inconsistent", "keys() has duplicates or disagrees with items()", self.witness(path, {"keys": keys}))
        stray = sorted(set(got_other) - set(exp_other))
        if stray:
            ctx.violation("stray-entry-visible", "a key that was never stored is visible after reopen", self.witness(path, {"stray_keys": stray}))
        for k, v in exp_other.items():
            if k not in got_other:
                ctx.violation("other-key-lost", "a key not involved in the interrupted operation vanished", self.witness(path, {"key": k}))
            elif got_other[k] != v:
                ctx.violation("other-key-changed", "a key not involved in the interrupted operation changed", self.witness(path, {"key": k, "expected": v, "got": got_other[k]}))
        if got not in allowed:
            if got is None:
                key = "interrupted-key-lost"
            elif self.new is not None and got != self.new and self.new.startswith(got):
                key = "partial-value-visible"
            else:
                key = "interrupted-key-wrong-value"
            ctx.violation(key if crashed else "completed-op-wrong", "the interrupted key has neither its old nor its new value after reopen",
                          self.witness(path, {"key": self.key, "old": self.old, "new": self.new, "got": got}))
        elif crashed:
            ctx.count("interrupted_old_kept" if got == self.old else "interrupted_new_kept")
        if n != len(keys):
            ctx.violation("len-mismatch", "len(db) disagrees with the number of keys after reopen", self.witness(path, {"len": n, "keys": len(keys)}))
        return db

    def follow_up(self, db, path):
        """After recovery the database must be usable: a completed set is readable and persistent."""
        v2 = b"<follow-up>" + bytes(range(40))
        try:
            with self.fs():
                db[self.key] = v2
                ok = db[self.key] == v2 and self.cls(self.dbdir)[self.key] == v2
        except Exception as e:
            self.ctx.violation("post-recovery-op-raised", "a set after recovery raised", self.witness(path, {"exception": repr(e)}))
            return
        self.ctx.count("follow_up_ops")
        if not ok:
            self.ctx.violation("post-recovery-op-lost", "a completed set after recovery is not readable", self.witness(path))

    # ---- runs -----------------------------------------------------------------------------------
    def run_faulted(self, k, plen):
        """Restore pristine, run the faulted op with a crash at (k, plen).  -> fs"""
        restore_tree(self.dbdir, self.pristine)
        fs = self.fs()
        if k is not None:
            fs.arm(k, plen)
        with fs:
            try:
                db = self.cls(self.dbdir)  # recovery on a clean directory: no mutating call expected
                apply_op(db, self.last)
            except Crash:
                pass
        return fs

    def recover_faulted(self, left, k):
        restore_tree(self.dbdir, left)
        fs = self.fs()
        if k is not None:
            fs.arm(k, 0)
        with fs:
            try:
                self.cls(self.dbdir)
            except Crash:
                pass
        return fs

    def nested(self, left, path, depth):
        """Enumerate crash points inside the recovery that runs on the left-over state `left`."""
        if depth <= 0:
            return
        count = self.recover_faulted(left, None)
        for k2, kind, detail, _ in count.log:
            fs = self.recover_faulted(left, k2)
            if not fs.crashed:
                self.ctx.inconclusive("C51: nested crash point not reached (non-deterministic recovery?)")
                continue
            p2 = path + [("recovery", k2, kind)]
            self.ctx.count("nested_crash_runs")
            self.ctx.evaluated()
            self.ctx.distinct((self.case_id, repr(p2)))
            self.ctx.seen("recovery_calls", kind)
            left2 = snapshot_tree(self.dbdir)
            self.check(p2, True)
            self.nested(left2, p2, depth - 1)

    # ---- interrupts in a surviving process --------------------------------------------------------
    def interrupts(self, count):
        """The write phase of a set (from the open-for-write of the temporary to its close) is
        interrupted by a non-Exception BaseException that the process survives; the documented
        clean-up must leave no residue: right away keys()/the key's value are old-or-new with no
        stray entry, further completed operations win, and a later reopen shows exactly them."""
        ctx = self.ctx
        opens = [k for k, kind, _, _ in count.log if kind == "open"]
        closes = [k for k, kind, _, _ in count.log if kind == "close"]
        if not opens or not closes:
            return
        import asyncio

        excs = [KeyboardInterrupt, SystemExit, GeneratorExit, asyncio.CancelledError]
        others = sorted(k for k in self.model if k != self.key)
        for n, (k, plen) in enumerate(crash_points(count.log, opens[0], closes[0] + 1)):
            rng = ctx.case_rng("cont", self.case_id, k, plen)
            cont = [("delK",)] if n % 2 == 0 else []
            for _ in range(rng.randrange(0, 3)):
                r = rng.random()
                if r < 0.3:
                    cont.append(("delK",))
                elif r < 0.55:
                    cont.append(("set", self.key, b"<after-interrupt-%d>" % len(cont) + bytes(rng.randrange(256) for _ in range(rng.choice([0, 5, 300])))))
                elif r < 0.8 or not others:
                    cont.append(("set", b"other-%d" % rng.randrange(3), b"<o%d>" % len(cont)))
                else:
                    cont.append(("del", rng.choice(others)))
            exc = excs[n % len(excs)]
            point = [("interrupt", k, count.log[k][1], plen, exc.__name__), ("then", cont)]
            restore_tree(self.dbdir, self.pristine)
            fs = self.fs().arm(k, plen, raises=exc)
            model = dict(self.model)
            raised = None
            with fs:
                db = self.cls(self.dbdir)
                try:
                    apply_op(db, self.last)
                except Crash:
                    raise
                except BaseException as e:
                    raised = e
                if not fs.fired:
                    ctx.inconclusive("C51: interrupt point not reached on re-execution")
                    continue
                ctx.count("interrupt_runs")
                ctx.count("interrupt_at_" + count.log[k][1])
                ctx.evaluated()
                ctx.distinct((self.case_id, repr(point)))
                try:
                    keys = db.keys()
                    val = db.get(self.key)
                except Exception as e:
                    ctx.violation("stray-file-visible-after-interrupt", "after an interrupted set in a surviving process keys()/get() raise or expose residue",
                                  self.witness(point, {"exception": repr(e), "raised_by_set": repr(raised)}))
                    continue
                if val not in (self.old, self.new):
                    ctx.violation("interrupted-key-wrong-value-in-surviving-process", "after an interrupted set the key has neither its old nor its new value",
                                  self.witness(point, {"old": self.old, "new": self.new, "got": val}))
                    continue
                if val is None:
                    model.pop(self.key, None)
                else:
                    model[self.key] = val
                if sorted(keys) != sorted(model):
                    ctx.violation("stray-file-visible-after-interrupt", "after an interrupted set in a surviving process keys() shows an entry that is not a stored key",
                                  self.witness(point, {"keys": keys, "expected": sorted(model)}))
                else:
                    ctx.count("interrupt_cleanup_verified")
                try:
                    for op in cont:
                        if op[0] == "delK":
                            if self.key in model:
                                del db[self.key]
                                del model[self.key]
                                ctx.count("deletes_after_interrupt")
                        elif op[0] == "set":
                            db[op[1]] = op[2]
                            model[op[1]] = op[2]
                        elif op[1] in model:
                            del db[op[1]]
                            del model[op[1]]
                except Exception as e:
                    ctx.violation("operation-after-interrupt-raised", "a set/delete after the interrupted set raised", self.witness(point, {"exception": repr(e)}))
                    continue
            ctx.count("reopen_checks")
            try:
                with self.fs():
                    db2 = self.cls(self.dbdir)
                    got = dict(db2.items())
                    n_keys = len(db2)
            except Exception as e:
                ctx.violation("reopen-or-read-raised", "reopening / listing the database after the interrupted set raised", self.witness(point, {"exception": repr(e)}))
                continue
            if got != model or n_keys != len(model):
                back = sorted(set(got) - set(model))
                ctx.violation("completed-operation-lost-after-interrupt",
                              "after an interrupted set, later completed operations and a reopen, the database differs from the last completed operations"
                              + (" (a deleted key is back)" if back else ""),
                              self.witness(point, {"resurrected_keys": back, "expected": model, "got": got}))

    def commit_interrupts(self, count):
        """The commit phase of a set (after the temporary is closed: unlink of the old entry, rename)
        is hit by an exception in a process that UNWINDS NORMALLY (KeyboardInterrupt, SystemExit, or
        an OSError from the call itself), so its clean-up handlers run.  Nothing is judged inside
        the surviving process (the code promises nothing there); other keys get completed
        operations; after a reopen the key must hold its complete old or complete new value —
        never absent for a replace — and every other key its last completed value."""
        ctx = self.ctx
        closes = [k for k, kind, _, _ in count.log if kind == "close"]
        if not closes:
            return
        excs = [KeyboardInterrupt, SystemExit, lambda: OSError(5, "injected I/O error")]
        names = ["KeyboardInterrupt", "SystemExit", "OSError"]
        for k, kind, detail, _ in count.log:
            if k <= closes[0]:
                continue
            for n, exc in enumerate(excs):
                rng = ctx.case_rng("commit", self.case_id, k, n)
                point = [("interrupt-in-commit", k, kind, names[n])]
                restore_tree(self.dbdir, self.pristine)
                fs = self.fs().arm(k, 0, raises=exc)
                model = {key: v for key, v in self.model.items() if key != self.key}
                with fs:
                    db = self.cls(self.dbdir)
                    try:
                        apply_op(db, self.last)
                    except Crash:
                        raise
                    except BaseException:
                        pass
                    if not fs.fired:
                        ctx.inconclusive("C51: commit interrupt point not reached on re-execution")
                        continue
                    ctx.count("commit_interrupt_runs")
                    if kind == "rename" and self.old is not None:
                        ctx.count("interrupts_between_unlink_and_rename_of_replace")
                    ctx.evaluated()
                    ctx.distinct((self.case_id, repr(point)))
                    try:
                        for _ in range(rng.randrange(0, 3)):  # the process goes on with OTHER keys
                            ok = b"other-%d" % rng.randrange(3)
                            if ok in model and rng.random() < 0.4:
                                del db[ok]
                                del model[ok]
                            else:
                                db[ok] = model[ok] = b"<after-commit-interrupt-%d>" % rng.randrange(1000)
                    except Exception as e:
                        ctx.violation("operation-after-interrupt-raised", "a set/delete of another key after the interrupted set raised", self.witness(point, {"exception": repr(e)}))
                        continue
                ctx.count("reopen_checks")
                try:
                    with self.fs():
                        db2 = self.cls(self.dbdir)
                        got = dict(db2.items())
                        n_keys = len(db2)
                except Exception as e:
                    ctx.violation("reopen-or-read-raised", "reopening / listing the database after the interrupted commit raised", self.witness(point, {"exception": repr(e)}))
                    continue
                val = got.pop(self.key, None)
                if val not in (self.old, self.new):
                    ctx.violation("key-lost-after-interrupted-commit" if val is None else "interrupted-key-wrong-value",
                                  "after an exception between closing the temporary and the rename (handlers ran) and a reopen, the key has neither its complete old nor its complete new value",
                                  self.witness(point, {"old": self.old, "new": self.new, "got": val}))
                elif got != model or n_keys != len(model) + (val is not None):
                    ctx.violation("other-key-changed", "after an interrupted commit and a reopen another key differs from its last completed operation",
                                  self.witness(point, {"expected": model, "got": got}))
                else:
                    ctx.count("commit_interrupt_old_or_new_verified")

    def run(self, depth):
        ctx = self.ctx
        try:
            # history, executed for real and checked (functional sanity of the model)
            with self.fs():
                db = self.cls(self.dbdir)
                for op in self.ops:
                    apply_op(db, op)
                got = dict(self.cls(self.dbdir).items())
            if got != self.model:
                ctx.violation("history-without-crash-wrong", "database differs from the model without any crash", self.witness([]))
                return
            self.pristine = snapshot_tree(self.dbdir)
            count = self.run_faulted(None, 0)
            ctx.count("ops_counted")
            ctx.count({"del": "delete_ops_faulted"}.get(self.last[0], "replace_ops_faulted" if self.old is not None else "setnew_ops_faulted"))
            ctx.maxi("calls_per_op", len(count.log))
            for _, kind, _, _ in count.log:
                ctx.seen("op_calls", kind)
            self.check([("completed",)], False)
            pts = crash_points(count.log)
            for k, plen in pts:
                fs = self.run_faulted(k, plen)
                if not fs.crashed:
                    ctx.inconclusive("C51: crash point not reached on re-execution (non-deterministic operation?)")
                    continue
                kind = count.log[k][1]
                path = [("op", k, kind, plen)]
                ctx.count("crash_runs")
                ctx.count("crash_at_" + kind)
                if count.log[k][3] and 0 < plen < count.log[k][3]:
                    ctx.count("torn_write_points")
                ctx.evaluated()
                ctx.distinct((self.case_id, repr(path)))
                left = snapshot_tree(self.dbdir)
                if any(n.endswith((".new", ".rpl")) for n in left):
                    ctx.count("crash_left_residue")
                db = self.check(path, True)
                if db is not None:
                    self.follow_up(db, path)
                self.nested(left, path, depth)
            if self.last[0] == "set":
                self.interrupts(count)
                self.commit_interrupts(count)
            ctx.sample({"history": [(o[0], o[1], len(o[2]) if len(o) > 2 else None) for o in self.ops],
                        "faulted_op": (self.last[0], self.last[1], len(self.last[2]) if len(self.last) > 2 else None),
                        "calls": [(k, kind, pend) for k, kind, _, pend in count.log], "crash_points": len(pts)})
        finally:
            shutil.rmtree(self.root, ignore_errors=True)
            report_escapes(ctx, self.case_id)


def run_case(ctx, i, depth):
    rng = ctx.case_rng("case", i)
    ops, last = gen_case(rng)
    shelf = i % 7 == 3  # Shelf pickles the values; same oracle through the same mapping API
    Case(ctx, ops, last, shelf, i).run(depth)


def run(ctx):
    depth = 1 if ctx.quick else 2
    if not selftest_or_inconclusive(ctx):
        return
    for i in ctx.cases(600, 12000):
        run_case(ctx, i, depth)


def replay(ctx, w):
    x = w["witness"]
    run_case(ctx, x["case"], 2)
