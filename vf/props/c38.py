"""C38 Telnet carries application bytes transparently.

Monitored: a real sending `TelnetTransport` (application calls `write` / `writeSequence` with CR-free
byte strings rich in 0xFF, LF, command codes, NUL) and, for every segmentation of the wire stream, a
fresh real receiving `TelnetTransport` with a recording `TelnetProtocol` behind it.

Oracle (deterministic):
  wire   - a 12-line reference decoder of the data-only telnet subset (IAC IAC -> 0xFF, CR LF -> LF)
           applied to the bytes the sender put on its transport gives back exactly the concatenated
           application data; every LF on the wire is preceded by CR, every 0xFF run has even length;
  peer   - concatenation of the peer application's `dataReceived` == concatenation of what was
           written, for every split; no `unhandledCommand/unhandledSubnegotiation/enableLocal/
           enableRemote/disableLocal/disableRemote` is triggered by data, `dataReceived` raises
           nothing, and the receiver writes nothing back (a reply means data was taken as a command).

writeSequence is given, depending on the content, a list, tuple, generator, list iterator or map object
(ITransport.writeSequence accepts any iterable, one-shot ones included) in every family.

Guards against false alarms: inputs never contain CR (the statement excludes it; telnet.write does
not produce CR NUL); nothing is asserted about how `dataReceived` chunks the data, only the
concatenation; per-call wire deltas are used only to *classify* a failure, not to decide it.

Classification: a wire failure is keyed `telnet-writesequence-unescaped` only when some
`writeSequence` call put the verbatim join of its elements on the wire, that join contains 0xFF or LF,
and replacing exactly those deltas by the escaped form makes the whole wire correct.  The receiver
half then continues on the corrected wire so that receiver-side breaks are still found (generic keys).
"""
from vf.engines.netsim import SimTransport, all_splits, random_split

LEVEL = "exploration"
ENGINE = "E2-netsim"
TECHNIQUE = "runtime monitoring: reference telnet data decoder on the wire + written==received at the peer application for every segmentation"
RULE = ("random groupings of write/writeSequence calls over CR-free byte strings biased to 0xFF, LF, "
        "0xF0-0xFE and NUL; small cases (wire <= 26 bytes): every 1- and 2-cut segmentation, medium: "
        "every 1-cut segmentation, large (to 3 KiB): whole + random segmentations.  A case is distinct "
        "by its exact op list; non-trivial = the data contains at least one 0xFF or LF.")
ASSUMPTIONS = ["trusted base: vf.engines.netsim.SimTransport records transport writes faithfully",
               "the reference decoder in this module (data-only subset of RFC 854) is the wire oracle",
               "inputs contain no CR (excluded by the statement)"]
SHARDS = {"quick": 4, "thorough": 16}
FLOORS = {"peer_comparisons": 2000, "wire_checks": 200, "iac_data_bytes": 500, "lf_data_bytes": 300,
          "writesequence_calls": 100, "splits_inside_escape_pair": 200,
          "session_peer_comparisons": 2000, "session_commands_sent": 1000, "echo_comparisons": 2000, "refusals_observed": 500,
          "writesequence_one_shot_iterables": 2000, "session_commands_option_0xff": 100, "session_commands_option_command_valued": 200}
READY = True

KNOWN_WS = "telnet-writesequence-unescaped"


SEQFORMS = ("list", "tuple", "generator", "iter", "map")
_seqform_counts = {}


def seqform(parts):
    """The same elements as a list, tuple, generator, list iterator or map object - ITransport.writeSequence
    takes any iterable, one-shot ones included.  The form is a function of the content (replayable)."""
    parts = list(parts)
    form = SEQFORMS[(len(parts) + sum(len(x) for x in parts) + (parts[0][0] if parts and parts[0] else 0)) % len(SEQFORMS)]
    _seqform_counts[form] = _seqform_counts.get(form, 0) + 1
    if form == "list":
        return parts
    if form == "tuple":
        return tuple(parts)
    if form == "generator":
        return (x for x in parts)
    if form == "iter":
        return iter(parts)
    return map(bytes, parts)


def enc(data):
    return data.replace(b"\xff", b"\xff\xff").replace(b"\n", b"\r\n")


def ref_decode(wire):
    """Data-only subset: returns (data, None) or (None, reason)."""
    out = bytearray()
    i, n = 0, len(wire)
    while i < n:
        c = wire[i]
        if c == 0xFF:
            if i + 1 < n and wire[i + 1] == 0xFF:
                out.append(0xFF)
                i += 2
                continue
            return None, "lone IAC at wire offset %d" % i
        if c == 0x0D:
            if i + 1 < n and wire[i + 1] == 0x0A:
                out.append(0x0A)
                i += 2
                continue
            return None, "CR not followed by LF at wire offset %d" % i
        if c == 0x0A:
            return None, "bare LF at wire offset %d" % i
        out.append(c)
        i += 1
    return bytes(out), None


def gen_bytes(rng, n):
    out = bytearray()
    for _ in range(n):
        r = rng.random()
        if r < 0.27:
            out.append(0xFF)
        elif r < 0.42:
            out.append(0x0A)
        elif r < 0.62:
            out.append(rng.randint(0xF0, 0xFE))
        elif r < 0.67:
            out.append(0)
        elif r < 0.72:
            out.append(rng.choice((1, 3, 31, 34, 0xEF)))
        else:
            c = rng.randrange(256)
            out.append(c if c != 0x0D else 0x41)
    return bytes(out)


def gen_ops(rng, total):
    """Split `total` data bytes into write / writeSequence calls (empty strings and lists allowed)."""
    data = gen_bytes(rng, total)
    ops = []
    i = 0
    p_seq = rng.choice((0.0, 0.0, 0.3, 0.6, 1.0))
    while i < len(data) or not ops:
        rest = len(data) - i
        if rng.random() < p_seq:
            k = rng.randint(0, 4)
            parts = []
            for _ in range(k):
                m = rng.randint(0, max(0, min(rest, 1 + total // 3)))
                parts.append(data[i:i + m])
                i += m
                rest -= m
            ops.append(("seq", parts))
        else:
            m = rng.randint(0 if rest else 0, max(0, min(rest, 1 + total // 2)))
            ops.append(("write", data[i:i + m]))
            i += m
        if len(ops) > 60:
            ops.append(("write", data[i:]))
            i = len(data)
    return ops


def ops_data(ops):
    return b"".join(o[1] if o[0] == "write" else b"".join(o[1]) for o in ops)


def make_side():
    from twisted.conch import telnet

    class Rec(telnet.TelnetProtocol):
        echo = False

        def __init__(self):
            self.got = []
            self.events = []

        def dataReceived(self, data):
            self.got.append(data)
            if self.echo:  # re-entrant application: writes from inside the callback
                if len(data) % 2:
                    self.transport.write(data)
                else:
                    self.transport.writeSequence(seqform([data[:1], data[1:]]))

        def unhandledCommand(self, command, argument):
            self.events.append(("unhandledCommand", command, argument))

        def unhandledSubnegotiation(self, command, data):
            self.events.append(("unhandledSubnegotiation", command, data))

        def enableLocal(self, option):
            self.events.append(("enableLocal", option))
            return False

        def enableRemote(self, option):
            self.events.append(("enableRemote", option))
            return False

        def disableLocal(self, option):
            self.events.append(("disableLocal", option))

        def disableRemote(self, option):
            self.events.append(("disableRemote", option))

    t = telnet.TelnetTransport(Rec)
    tr = SimTransport("t")
    t.makeConnection(tr)
    return t, tr


def send(ops):
    """Run the ops on a real sender; returns (wire, per-op deltas, sender app events)."""
    t, tr = make_side()
    deltas = []
    for kind, arg in ops:
        before = len(tr.written)
        if kind == "write":
            t.protocol.transport.write(arg)
        else:
            t.protocol.transport.writeSequence(seqform(arg))
        deltas.append(bytes(tr.written[before:]))
    return bytes(tr.written), deltas, t.protocol.events + [("sender-got-data", g) for g in t.protocol.got]


def receive(pieces):
    t, tr = make_side()
    exc = None
    try:
        for p in pieces:
            t.dataReceived(p)
    except Exception as e:  # noqa: BLE001 - the exception is the observation
        exc = "%s: %s" % (type(e).__name__, e)
    return b"".join(t.protocol.got), t.protocol.events, bytes(tr.written), exc


def hexops(ops):
    return [[k, a.hex()] if k == "write" else [k, [x.hex() for x in a]] for k, a in ops]


def unhexops(h):
    return [(k, bytes.fromhex(a)) if k == "write" else (k, [bytes.fromhex(x) for x in a]) for k, a in h]


def check_wire(ctx, ops, data, wire, deltas):
    """Returns the wire to use for the receiver half (corrected when only the known defect is present)."""
    ctx.count("wire_checks")
    dec, why = ref_decode(wire)
    problems = []
    if dec is None:
        problems.append(why)
    elif dec != data:
        problems.append("reference decoding of the wire != written data")
    if not problems:
        return wire
    # classify: verbatim writeSequence deltas
    fixed = []
    culprits = []
    for (kind, arg), d in zip(ops, deltas):
        if kind == "seq":
            raw = b"".join(arg)
            if d == raw and enc(raw) != raw:
                culprits.append(raw)
                fixed.append(enc(raw))
                continue
        fixed.append(d)
    fixed = b"".join(fixed)
    got, ev, back, exc = receive([wire])
    witness = {"ops_hex": hexops(ops), "data": data, "wire": wire, "problem": problems[0],
               "expected_wire": enc(data),
               "peer_on_actual_wire": {"received": got, "callbacks": ev, "wrote_back": back, "exception": exc}}
    if culprits and ref_decode(fixed)[0] == data:
        ctx.count("cases_with_verbatim_writesequence")
        witness["verbatim_writeSequence_payloads"] = culprits[:3]
        ctx.violation(KNOWN_WS, "TelnetTransport.writeSequence puts its elements on the wire verbatim "
                      "(0xFF not doubled, LF not sent as CR LF); write() of the same bytes is escaped", witness)
        return fixed
    key = "wire-iac-not-doubled" if "IAC" in problems[0] else "wire-lf-not-crlf" if ("LF" in problems[0] or "CR" in problems[0]) else "wire-decodes-to-other-data"
    ctx.violation(key, "bytes put on the wire do not encode the written data: " + problems[0], witness)
    return wire


def check_split(ctx, ops, data, wire, pieces):
    got, ev, back, exc = receive(pieces)
    ctx.count("peer_comparisons")
    ctx.count("segments_delivered", len(pieces))
    bad = None
    if exc is not None:
        bad = ("receiver-exception", "dataReceived raised on pure application data: %s" % exc)
    elif ev:
        bad = ("data-interpreted-as-command", "application data triggered %s on the peer" % ev[0][0])
    elif back:
        bad = ("receiver-answered-data", "peer wrote %r in response to pure application data" % back[:20])
    elif got != data:
        whole = receive([wire])[0] == data
        bad = ("peer-data-mismatch-split-dependent" if whole and len(pieces) > 1 else "peer-data-mismatch",
               "peer application received different bytes than were written")
    if bad:
        cuts = []
        p = 0
        for x in pieces[:-1]:
            p += len(x)
            cuts.append(p)
        ctx.violation(bad[0], bad[1], {"ops_hex": hexops(ops), "data": data, "wire": wire, "cuts": cuts,
                                        "pieces": pieces[:12], "received": got, "callbacks": ev[:5],
                                        "wrote_back": back, "exception": exc})
    return bad is None


def count_pair_splits(ctx, wire, pieces):
    p = 0
    for x in pieces[:-1]:
        p += len(x)
        if wire[p - 1:p + 1] in (b"\xff\xff", b"\r\n"):
            ctx.count("splits_inside_escape_pair")


def check_case(ctx, ops, mode, rng, only_cuts=None):
    data = ops_data(ops)
    wire, deltas, sender_events = send(ops)
    ctx.evaluated()
    nff, nlf = data.count(b"\xff"), data.count(b"\n")
    ctx.count("iac_data_bytes", nff)
    ctx.count("lf_data_bytes", nlf)
    ctx.count("data_bytes", len(data))
    ctx.count("write_calls", sum(1 for o in ops if o[0] == "write"))
    ctx.count("writesequence_calls", sum(1 for o in ops if o[0] == "seq"))
    if nff or nlf:
        ctx.distinct(("ops", tuple((k, a if k == "write" else tuple(a)) for k, a in ops)))
    if sender_events:
        ctx.violation("sender-side-callback", "writing data triggered callbacks on the sending side",
                      {"ops_hex": hexops(ops), "events": sender_events[:5]})
    wire = check_wire(ctx, ops, data, wire, deltas)
    ctx.maxi("wire_len", len(wire))
    if only_cuts is not None:
        pieces = [wire[a:b] for a, b in zip([0] + only_cuts, only_cuts + [len(wire)])]
        check_split(ctx, ops, data, wire, [p for p in pieces if p] or [b""])
        return
    if not check_split(ctx, ops, data, wire, [wire]):
        return
    if len(wire) < 2:
        return
    if mode == "small":
        plans = list(all_splits(wire, 1))
        if len(wire) >= 3:
            plans += list(all_splits(wire, 2))
        ctx.count("exhaustive_2cut_cases")
    elif mode == "medium":
        plans = list(all_splits(wire, 1)) + [random_split(rng, wire) for _ in range(3)]
    else:
        plans = [random_split(rng, wire, 97) for _ in range(4)] + [[wire[i:i + 1] for i in range(len(wire))]]
    for pieces in plans:
        count_pair_splits(ctx, wire, pieces)
        if not check_split(ctx, ops, data, wire, pieces):
            break


# ------------------------------------------------------------------ data interleaved with real commands, echoing peer

def gen_session(rng, total):
    """ops: write / seq as before plus ("will"|"do", option) and ("neg", option, payload) calls made by
    the sending application between the writes (each option used once, so every call reaches the wire)."""
    ops = gen_ops(rng, total)
    # option codes are opaque bytes: also 0xff (EXOPL == IAC) and command-valued ones
    opts = list(dict.fromkeys(rng.sample([0xFF, 0xFF, 0xFB, 0xFD, 0xFE, 0xF0, 0xFA, 0, 10, 13], 3) + rng.sample(range(256), 5)))[:6]
    rng.shuffle(opts)
    out = []
    for op in ops:
        while opts and rng.random() < 0.35:
            o = bytes([opts.pop()])
            r = rng.random()
            if o == b"\xff" and r >= 0.6:
                r = 0.3  # (a subnegotiation "about" byte of 0xff cannot be framed: requestNegotiation does not escape it)
            out.append(("will", o) if r < 0.3 else ("do", o) if r < 0.6 else ("neg", o, gen_bytes(rng, rng.randint(0, 12)).replace(b"\r", b"A")))
        out.append(op)
    if opts and opts[-1] != 0xFF and rng.random() < 0.5:
        out.append(("neg", bytes([opts.pop()]), gen_bytes(rng, rng.randint(0, 6))))
    return out


def session_case(ctx, ops, rng, cuts=None):
    """Sender A interleaves data with negotiation commands; receiver B refuses every option and echoes
    all data from inside dataReceived; B's output goes back to A.  Judged: the data (both ways), the
    kind/option/order of the callbacks the commands must trigger, no exception.  Counted only: the
    subnegotiation payload (the statement is about data written with write/writeSequence)."""
    a, atr = make_side()
    dataops = [o for o in ops if o[0] in ("write", "seq")]
    data = ops_data(dataops)
    expected, refusals = [], []
    for o in ops:
        if o[0] == "write":
            a.protocol.transport.write(o[1])
        elif o[0] == "seq":
            a.protocol.transport.writeSequence(seqform(o[1]))
        elif o[0] == "neg":
            a.requestNegotiation(o[1], o[2])
            expected.append(("unhandledSubnegotiation", o[1]))
        else:
            getattr(a, o[0])(o[1]).addBoth(lambda r, o=o: refusals.append((o[0], getattr(getattr(r, "type", None), "__name__", repr(r)))))
            expected.append(("enableRemote" if o[0] == "will" else "enableLocal", o[1]))
    wire = bytes(atr.written)
    atr.take()
    ctx.evaluated()
    ctx.count("session_cases")
    ctx.count("session_commands_sent", len(expected))
    ctx.count("session_commands_option_0xff", sum(1 for o in ops if o[0] in ("will", "do") and o[1] == b"\xff"))
    ctx.count("session_commands_option_command_valued", sum(1 for o in ops if o[0] in ("will", "do", "neg") and 0xF0 <= o[1][0] < 0xFF))
    ctx.distinct(("session", tuple((o[0],) + tuple(bytes(x) if isinstance(x, bytes) else tuple(x) for x in o[1:]) for o in ops)))
    if cuts is not None:
        plans = [[wire[i:j] for i, j in zip([0] + cuts, cuts + [len(wire)])]]
    elif len(wire) <= 40:
        plans = [[wire]] + list(all_splits(wire, 1))
    else:
        plans = [[wire], random_split(rng, wire), random_split(rng, wire, 7), [wire[i:i + 1] for i in range(len(wire))]]
    for pieces in plans:
        b, btr = make_side()
        b.protocol.echo = True
        exc = None
        try:
            for p in pieces:
                if p:
                    b.dataReceived(p)
        except Exception as e:  # noqa: BLE001
            exc = "%s: %s" % (type(e).__name__, e)
        ctx.count("session_peer_comparisons")
        ctx.count("segments_delivered", len(pieces))
        got = b"".join(b.protocol.got)
        events = [(ev[0], ev[1]) for ev in b.protocol.events]
        cutpos = []
        pos = 0
        for x in pieces[:-1]:
            pos += len(x)
            cutpos.append(pos)
        witness = {"family": "session", "ops_hex": [[o[0]] + [x.hex() if isinstance(x, bytes) else [y.hex() for y in x] for x in o[1:]] for o in ops],
                   "wire": wire, "cuts": cutpos, "data": data, "received": got, "callbacks": b.protocol.events[:8], "expected_callbacks": expected[:8], "exception": exc}
        if exc is not None:
            ctx.violation("session-receiver-exception", "dataReceived raised on data interleaved with well-formed commands: %s" % exc, witness)
            return
        if got != data:
            ctx.violation("session-data-mismatch", "application data interleaved with negotiation commands did not arrive intact", witness)
            return
        if events != expected:
            ctx.violation("session-callbacks-differ", "the commands sent between the data did not trigger exactly the corresponding callbacks, in order", witness)
            return
        payloads = [(ev[1], b"".join(ev[2])) for ev in b.protocol.events if ev[0] == "unhandledSubnegotiation"]
        if payloads != [(o[1], o[2]) for o in ops if o[0] == "neg"]:
            ctx.count("subnegotiation_payload_differs_unjudged")
        else:
            ctx.count("subnegotiation_payloads_equal", len(payloads))
        # B's output (refusals + echo written re-entrantly) back to A
        back = bytes(btr.written)
        try:
            for p in random_split(rng, back, 5) if back else ():
                a.dataReceived(p)
        except Exception as e:  # noqa: BLE001
            ctx.violation("session-receiver-exception", "dataReceived raised on the peer's replies + echo: %s: %s" % (type(e).__name__, e), dict(witness, back=back))
            return
        echoed = b"".join(a.protocol.got)
        ctx.count("echo_comparisons")
        ctx.count("echo_bytes", len(echoed))
        if echoed != data or a.protocol.events:
            ctx.violation("echo-data-mismatch", "data echoed by the peer from inside its dataReceived callback did not come back intact",
                          dict(witness, back=back, echoed=echoed, sender_callbacks=a.protocol.events[:5]))
            return
        ctx.count("refusals_observed", len(refusals))
        a, atr = make_side()  # fresh A for the next plan: replay the ops (cheap) so Deferred state is clean
        refusals = []
        for o in ops:
            if o[0] == "write":
                a.protocol.transport.write(o[1])
            elif o[0] == "seq":
                a.protocol.transport.writeSequence(seqform(o[1]))
            elif o[0] == "neg":
                a.requestNegotiation(o[1], o[2])
            else:
                getattr(a, o[0])(o[1]).addBoth(lambda r, o=o: refusals.append((o[0], getattr(getattr(r, "type", None), "__name__", repr(r)))))
        atr.take()


def run(ctx):
    try:
        _run(ctx)
    finally:
        for form, n in _seqform_counts.items():
            ctx.count("writesequence_form_" + form, n)
        ctx.count("writesequence_one_shot_iterables", sum(n for f, n in _seqform_counts.items() if f in ("generator", "iter", "map")))
        _seqform_counts.clear()


def _run(ctx):
    for i in ctx.cases(2000, 80000):
        rng = ctx.case_rng("session", i)
        session_case(ctx, gen_session(rng, rng.choice((rng.randint(1, 10), rng.randint(5, 60), rng.randint(60, 600)))), rng)
    for i in ctx.cases(12000, 500000):
        rng = ctx.case_rng(i)
        r = i % 10
        if r < 4:
            mode, total = "small", rng.randint(1, 13)
        elif r < 8:
            mode, total = "medium", rng.randint(8, 70)
        else:
            mode, total = "large", rng.randint(100, 3000)
        ops = gen_ops(rng, total)
        if mode == "small" and len(enc(ops_data(ops))) > 26:
            mode = "medium"
        ctx.count("cases_" + mode)
        check_case(ctx, ops, mode, rng)
        if i < 3 * ctx.nshards and mode != "large":
            w, _, _ = send(ops)
            ctx.sample({"mode": mode, "ops": ops, "wire": w, "peer_received_whole": receive([w])[0]})


def replay(ctx, w):
    x = w["witness"]
    if x.get("family") == "session":
        ops = []
        for o in x["ops_hex"]:
            ops.append((o[0],) + tuple(bytes.fromhex(v) if isinstance(v, str) else [bytes.fromhex(y) for y in v] for v in o[1:]))
        session_case(ctx, ops, ctx.case_rng("replay"), cuts=list(x.get("cuts", [])))
        return
    ops = unhexops(x["ops_hex"])
    check_case(ctx, ops, "small", ctx.case_rng("replay"), only_cuts=list(x.get("cuts", [])))
