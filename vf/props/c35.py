"""C35 SSH transport delivers packets intact and detects tampering.

Monitored: a real `SSHServerTransport` (from a real `SSHFactory`, host key generated once per run) and
a real `SSHClientTransport` joined by two E2 `SimTransport`s.  Both sides are restricted to one
cipher x one MAC x one compression (enumerated from what the transport offers at run time), the key
exchange algorithm and host-key type rotate.  After NEWKEYS a recording `SSHService` (registered under
the `ssh-userauth` slot, the only service a server grants before authentication) receives
`packetReceived(num, payload)` on each side; senders call `transport.sendPacket(num, payload)`
(interleaved with sendIgnore/sendDebug, which move the sequence numbers).  The harness injects 0-3
identification ("banner") lines before a side's version line and chooses the segmentation of both
byte streams.

Oracle
  delivery : per direction, the (num, payload) list received by the peer service == the list sent,
             neither side called loseConnection (no DISCONNECT), both services were started - for
             every segmentation, including every 1-cut of the identification region (banner lines +
             version line), CR LF and bare LF line ends, identification regions up to 4000 bytes.
  tamper   : one byte of one MAC-protected packet (length field, padding length, payload/padding,
             MAC - every offset of one packet in the exhaustive sub-family) is XORed with a non-zero
             mask; the rest of the stream plus valid packets up to 1.1 MiB are delivered: the
             receiver must have called loseConnection and its service must have received exactly
             the packets sent before the altered one.
  re-key   : the payload sequence continues across one or two further KEXINIT exchanges started by
             either side or both at once, switching to another cipher / MAC / compression (also the
             `none` cipher and MAC, which a subclass may enable); packets sent while the exchange is in
             progress are queued by the transport and must come out in call order; the peer service may
             send packets from inside its packetReceived callback (re-entrant application).  Same
             delivery oracle.  In 25 % of these sessions IGNORE/DEBUG are also sent during the exchange.
  asymmetric: the client endpoint is a harness subclass whose KEXINIT offers different cipher / MAC /
             compression names for client->server and server->client (the payload's per-direction
             name-lists); the unmodified server negotiates them; everything after the offer is the real
             code on both sides.  Same delivery oracle; the server's negotiated in/out types are counted.
False-alarm guards: nothing is asserted about wire bytes (random padding, compression); banner lines
never start with "SSH-"; the identification region (banners + version line) is kept <= 4000 bytes
(the documented 4 KiB guard); messages use numbers 50..255 only after both services are started;
the tamper half accepts any DISCONNECT reason and any moment of disconnection up to 1.1 MiB later.

Narrow keys for defects of the unchanged tree (decided from the causal signature at the moment the
failing side called loseConnection; everything else keeps `delivery-*` / `tamper-*` keys):
  `ssh-banner-line-own-segment` - the bytes delivered so far contain at least one complete banner
      line but no complete version line (the version is still unknown), and the side sent a
      plain-text DISCONNECT with reason PROTOCOL_ERROR (it parsed banner text as a binary packet).
  `ssh-partial-version-line-after-banner-containing-marker` - at a segment boundary the delivered
      bytes end in an unterminated line that starts with "SSH-" (the version line, cut), an earlier
      complete banner line contains "SSH-" in its middle (legal: it must only not *begin* with it),
      and the side disconnected with PROTOCOL_VERSION_NOT_SUPPORTED or PROTOCOL_ERROR (it took the
      partial line for the version line).
  `ssh-rekey-control-message-after-own-newkeys-uses-old-keys` - a re-key session fails and the harness
      had called sendIgnore/sendDebug on a side whose own NEWKEYS was out while the peer's had not
      arrived (the message goes out under the old keys; RFC 4253 7.3).
  `ssh-version-guard-counts-bytes-after-version-line` - the bytes delivered so far contain a
      complete version line within the first 4096 bytes, more than 4096 bytes had been delivered in
      that same segment, and the side sent DISCONNECT reason CONNECTION_LOST (the 4 KiB version guard
      counted packet bytes that followed the version line in the same segment).
"""
import itertools
import struct

from vf.engines.netsim import SimTransport, random_split

LEVEL = "exploration"
ENGINE = "E2-netsim"
TECHNIQUE = "runtime monitoring: sent == received (num, payload) sequences at the peer SSHService over a full in-memory key exchange; tampered stream => loseConnection and only the untouched prefix delivered"
RULE = ("configurations = offered ciphers x MACs x compressions (10 per seed on quick, rotating; all on "
        "thorough), kex algorithm and host key type rotating; per configuration: delivery sessions (random "
        "payload sequences 0..70 KiB both ways, 0-3 banner lines, whole / <=97-byte / tiny segmentations), "
        "tamper sessions (random packet, offset class, mask) and for two configurations every offset of one "
        "packet; identification sessions: every 1-cut of banner+version region; re-key sessions: 1-2 further key "
        "exchanges (initiator c/s/both, target configuration incl. none cipher/MAC) with packets queued during "
        "the exchange and a peer that sends from inside packetReceived.  A case is distinct by "
        "(configuration, kex, family, payload sizes, banner, segmentation / tamper offset).")
ASSUMPTIONS = ["trusted base: vf.engines.netsim.SimTransport (byte queues, loseConnection flag)",
               "key exchange randomness comes from the OS (cipher text differs between runs; the logical case - configuration, payloads, segmentation, tamper offset - is reproducible from the seed)",
               "one transport.write() per SSH packet is used only to locate the packet to tamper with"]
SHARDS = {"quick": 4, "thorough": 16}
FLOORS = {"asymmetric_compression_sessions": 20, "asymmetric_negotiations_confirmed_at_server": 40, "rekey_sessions": 40, "rekeys_completed": 40, "packets_sent_during_key_exchange": 50, "echo_replies_sent": 20,
          "sessions_established": 100, "payloads_compared": 500, "tamper_sessions": 50, "tamper_disconnects_observed": 50,
          "ident_cut_sessions": 100, "configs_covered": 5, "segments_delivered": 5000}
READY = True

KNOWN_BANNER = "ssh-banner-line-own-segment"
KNOWN_GUARD = "ssh-version-guard-counts-bytes-after-version-line"
KNOWN_PARTIAL = "ssh-partial-version-line-after-banner-containing-marker"
KNOWN_NEWKEYS = "ssh-rekey-control-message-after-own-newkeys-uses-old-keys"

_cache = {}


def env():
    """Classes and host keys, built once per process."""
    if _cache:
        return _cache
    import warnings

    warnings.simplefilter("ignore")
    from cryptography.hazmat.primitives.asymmetric import ec, ed25519, rsa
    from twisted.conch.ssh import _kex, common, factory, keys, service, transport
    from twisted.internet import defer

    class Rec(service.SSHService):
        name = b"ssh-userauth"

        def __init__(self):
            self.got = []
            self.started = 0
            self.replies = []  # scripted re-entrant application: packets sent from inside packetReceived
            self.sent_log = None

        def serviceStarted(self):
            self.started += 1

        def packetReceived(self, num, payload):
            self.got.append((num, payload))
            if self.replies:
                reply = self.replies.pop(0)
                self.sent_log.append(reply)
                self.transport.sendPacket(*reply)

    class Fac(factory.SSHFactory):
        services = {b"ssh-userauth": Rec}

        def getPrimes(self):
            g, p = _kex.getDHGeneratorAndPrime(b"diffie-hellman-group14-sha1")
            return {2048: [(g, p)]}

    class Cli(transport.SSHClientTransport):
        rec = None

        def verifyHostKey(self, hostKey, fingerprint):
            return defer.succeed(True)

        def connectionSecure(self):
            if self.rec is None:  # called again after every re-key; the application requests its service once
                self.rec = Rec()
                self.requestService(self.rec)

    class AsymCli(Cli):
        """Client whose KEXINIT names different algorithms for the two directions (the name-lists of the
        KEXINIT payload are per direction; the stock transport fills both from one attribute).  `asym` =
        {"enc": (c2s, s2c), "mac": (c2s, s2c), "comp": (c2s, s2c)}.  Only the offer and this side's own
        record of the negotiated names are adjusted; key set-up, _newKeys and all packet handling are the
        real code on both sides."""
        asym = None

        def sendKexInit(self):
            real = self.sendPacket

            def rewriting(messageType, payload):
                if messageType == transport.MSG_KEXINIT:
                    lists = list(common.getNS(payload[16:], 10))
                    rest = lists.pop()
                    for pos, key in ((2, "enc"), (4, "mac"), (6, "comp")):
                        lists[pos], lists[pos + 1] = self.asym[key]
                    payload = payload[:16] + b"".join(common.NS(x) for x in lists) + rest
                    self.ourKexInitPayload = bytes((transport.MSG_KEXINIT,)) + payload
                return real(messageType, payload)

            self.sendPacket = rewriting
            try:
                Cli.sendKexInit(self)
            finally:
                del self.sendPacket

        def ssh_KEXINIT(self, packet):
            r = Cli.ssh_KEXINIT(self, packet)
            a = self.asym
            self.nextEncryptions = transport.SSHCiphers(a["enc"][0], a["enc"][1], a["mac"][0], a["mac"][1])
            self.outgoingCompressionType, self.incomingCompressionType = a["comp"]
            return r

    hk = {b"ssh-ed25519": keys.Key(ed25519.Ed25519PrivateKey.generate()),
          b"ssh-rsa": keys.Key(rsa.generate_private_key(65537, 2048)),
          b"ecdsa-sha2-nistp256": keys.Key(ec.generate_private_key(ec.SECP256R1()))}
    base = transport.SSHTransportBase
    _cache.update(Rec=Rec, Fac=Fac, Cli=Cli, AsymCli=AsymCli, hk=hk, ciphers=list(base.supportedCiphers), macs=list(base.supportedMACs),
                  comps=list(base.supportedCompressions), kexes=list(base.supportedKeyExchanges), transport=transport)
    return _cache


class Tr(SimTransport):
    """SimTransport that remembers write boundaries (one write per SSH packet)."""

    def __init__(self, name):
        SimTransport.__init__(self, name)
        self.marks = []

    def write(self, data):
        self.marks.append((len(self.written), len(data)))
        SimTransport.write(self, data)


class Session:
    def __init__(self, cfg, kex, keytype, banners=(b"", b""), asym=None):
        e = env()
        cip, mac, comp = cfg
        f = e["Fac"]()
        f.publicKeys = {keytype: e["hk"][keytype].public()}
        f.privateKeys = {keytype: e["hk"][keytype]}
        f.startFactory()
        self.s, self.c = f.buildProtocol(None), (e["AsymCli"]() if asym else e["Cli"]())
        for t in (self.s, self.c):
            t.supportedCiphers, t.supportedMACs, t.supportedCompressions = [cip], [mac], [comp]
            t.supportedKeyExchanges = [kex]
        if asym:
            self.set_asym(asym)
        self.tr = {"s": Tr("s"), "c": Tr("c")}
        self.proto = {"s": self.s, "c": self.c}
        self.prefix = {"s": banners[0], "c": banners[1]}
        self.fed = {"s": bytearray(), "c": bytearray()}  # bytes delivered TO that side so far
        self.fail_at = {}  # side -> (bytes fed when it called loseConnection, last segment length)
        self.bounds = {"s": [], "c": []}  # cumulative segment ends, while the stream is still short
        self.segments = 0
        self.exc = None
        self.s.makeConnection(self.tr["s"])
        self.c.makeConnection(self.tr["c"])

    def set_asym(self, asym):
        """Per-direction algorithms for the next key exchange: the client offers them, the server supports both."""
        self.c.asym = asym
        for t in (self.s, self.c):
            t.supportedCiphers, t.supportedMACs, t.supportedCompressions = (list(dict.fromkeys(asym[k])) for k in ("enc", "mac", "comp"))

    @staticmethod
    def other(side):
        return "c" if side == "s" else "s"

    def take(self, side):
        """Bytes `side` has produced since the last call (banner prefix injected once, first)."""
        data = self.prefix[side] + self.tr[side].take()
        self.prefix[side] = b""
        return data

    def feed(self, side, piece):
        """Deliver one segment to `side`.  False when it no longer reads."""
        if self.tr[side].disconnecting or self.exc:
            return False
        self.fed[side] += piece
        self.segments += 1
        if len(self.fed[side]) < 20000:
            self.bounds[side].append(len(self.fed[side]))
        try:
            self.proto[side].dataReceived(piece)
        except Exception as e:  # noqa: BLE001
            self.exc = "%s side dataReceived raised %s: %s" % (side, type(e).__name__, str(e)[:200])
            return False
        if self.tr[side].disconnecting and side not in self.fail_at:
            self.fail_at[side] = (len(self.fed[side]), len(piece))
        return True

    def pump(self, split, rounds=200):
        for _ in range(rounds):
            moved = 0
            for src in ("s", "c"):
                data = self.take(src)
                if not data:
                    continue
                for piece in split(data):
                    if not self.feed(self.other(src), piece):
                        break
                    moved += 1
            if not moved:
                return

    def service(self, side):
        return self.s.service if side == "s" else self.c.rec

    def established(self):
        a, b = self.service("s"), self.service("c")
        return bool(a is not None and b is not None and a.started == 1 and b.started == 1 and self.c.service is b
                    and not self.tr["s"].disconnecting and not self.tr["c"].disconnecting and not self.exc)

    def plain_disconnect_code(self, side):
        """Reason code of a DISCONNECT the side wrote in plain text (before NEWKEYS), else None."""
        tr = self.tr[side]
        for off, n in reversed(tr.marks):
            chunk = bytes(tr.written[off:off + n])
            if len(chunk) >= 10 and chunk[5] == 1 and struct.unpack(">L", chunk[:4])[0] == n - 4:
                return struct.unpack(">L", chunk[6:10])[0]
        return None

    def close(self):
        from twisted.internet import error
        from twisted.python import failure

        for side in ("s", "c"):
            try:
                self.proto[side].connectionLost(failure.Failure(error.ConnectionDone()))
            except Exception:  # noqa: BLE001
                pass


def ident_state(prefix):
    """What a reader that has seen exactly `prefix` knows about the identification exchange:
    ('version', end offset) | ('banner-complete-lines', n complete lines, tail)."""
    lines = prefix.split(b"\n")
    pos = 0
    for ln in lines[:-1]:
        if ln.startswith(b"SSH-"):
            return ("version", pos + len(ln) + 1)
        pos += len(ln) + 1
    return ("banner", len(lines) - 1, lines[-1])


def classify(sess):
    """Known-defect signature of a failed session, or None.  Looks at the failing side only: what it
    had been fed at each segment boundary up to the moment it called loseConnection, and the reason
    code of the plain-text DISCONNECT it wrote."""
    for side, (nfed, lastlen) in sess.fail_at.items():
        code = sess.plain_disconnect_code(side)
        if code is None:
            continue
        fed = bytes(sess.fed[side])
        for b in [x for x in sess.bounds[side] if x <= nfed]:
            st = ident_state(fed[:b])
            if st[0] == "version":
                if st[1] <= 4096 and b > 4096 and b == nfed and nfed - lastlen < st[1] and code == 10:
                    return KNOWN_GUARD, {"side": side, "identification_region_bytes": st[1], "segment_bytes": lastlen, "disconnect_reason_code": code}
                break
            ncomplete, tail = st[1], st[2]
            marker_inside = any(b"SSH-" in ln for ln in fed[:b].split(b"\n")[:-1])
            if tail.startswith(b"SSH-") and marker_inside and code in (2, 8):
                return KNOWN_PARTIAL, {"side": side, "delivered_when_version_was_assumed": fed[max(0, b - 160):b], "disconnect_reason_code": code}
            if ncomplete and not tail.startswith(b"SSH-") and b == nfed and code == 2 and (marker_inside or not tail):
                return KNOWN_BANNER, {"side": side, "delivered_before_failure": fed[max(0, b - 200):b], "disconnect_reason_code": code}
    return None


# ------------------------------------------------------------------ generators

def gen_banner(rng, nlines, long=False):
    out = b""
    for _ in range(nlines):
        n = rng.randint(0, 60) if not long else rng.randint(3780, 3960) // nlines
        body = bytes(rng.choice(b"abcdefghijklmnopqrstuvwxyz ABC0123456789.:-_/") for _ in range(n))
        if rng.random() < 0.1:
            body = b"Welcome to SSH-2 service " + body  # may contain "SSH-" but never starts with it
        out += body + rng.choice((b"\r\n", b"\r\n", b"\n"))
    return out


def gen_payload(rng, big_ok=True):
    r = rng.random()
    if r < 0.25:
        n = rng.choice((0, 1, 2, 3, 7, 8, 15, 16, 17))
    elif r < 0.7:
        n = rng.randint(0, 600)
    elif r < 0.9 or not big_ok:
        n = rng.randint(600, 5000)
    elif r < 0.97:
        n = rng.choice((32767, 32768, 35000))
    else:
        n = rng.randint(60000, 71680)
    if rng.random() < 0.5:
        unit = rng.randbytes(rng.randint(1, 9))
        return (unit * (n // len(unit) + 1))[:n]
    return rng.randbytes(n)


def splitter(rng, mode):
    if mode == "whole":
        return lambda d: [d]
    if mode == "tiny":
        return lambda d: [d[i:i + k] for k in (rng.randint(1, 3),) for i in range(0, len(d), k)]
    return lambda d: random_split(rng, d, 97)


def send_items(rng, sess, side, items):
    """items: ("pkt", num, payload) | ("ignore", data) | ("debug", text)."""
    t = sess.proto[side]
    for it in items:
        if it[0] == "pkt":
            t.sendPacket(it[1], it[2])
        elif it[0] == "ignore":
            t.sendIgnore(it[1])
        else:
            t.sendDebug(it[1], False)


def gen_items(rng, n, big_ok=True):
    items = []
    for _ in range(n):
        r = rng.random()
        if r < 0.75:
            items.append(("pkt", rng.randint(50, 255), gen_payload(rng, big_ok)))
        elif r < 0.9:
            items.append(("ignore", rng.randbytes(rng.randint(0, 40))))
        else:
            items.append(("debug", b"dbg" * rng.randint(0, 5)))
    if not any(i[0] == "pkt" for i in items):
        items.append(("pkt", 94, gen_payload(rng, False)))
    return items


def sizes(items):
    return [(i[0], i[1], len(i[2])) if i[0] == "pkt" else (i[0], len(i[1])) for i in items]


def report_failure(ctx, sess, generic_key, what, witness):
    k = classify(sess)
    if k is not None:
        ctx.count("known_" + k[0])
        what = {KNOWN_PARTIAL: "a version line cut by a segment boundary is taken as complete when an earlier banner line contains 'SSH-' (bad version / bad packet length)",
                KNOWN_BANNER: "an identification (banner) line that ends a segment before the version line is parsed as a binary packet -> DISCONNECT 'bad packet length'",
                KNOWN_GUARD: "identification region <= 4 KiB is rejected ('Peer version string longer than 4KB') when packet bytes following the version line arrive in the same segment"}[k[0]]
        ctx.violation(k[0], what, dict(witness, signature=k[1]))
    else:
        ctx.violation(generic_key, what, witness)


# ------------------------------------------------------------------ case families

def delivery_case(ctx, rng, cfg, kex, keytype, label):
    nb = rng.choice((0, 0, 0, 1, 2, 3))
    banners = (gen_banner(rng, nb), gen_banner(rng, rng.choice((0, 0, 1))))
    mode = rng.choice(("whole", "rand", "rand", "tiny"))
    big = mode != "tiny"
    items = {"c": gen_items(rng, rng.randint(1, 7), big), "s": gen_items(rng, rng.randint(1, 7), big)}
    split = splitter(rng, mode)
    sess = Session(cfg, kex, keytype, banners)
    witness = {"family": "delivery", "config": cfg, "kex": kex, "hostkey": keytype, "banners(server,client)": banners,
               "segmentation": mode, "items_sent": {k: sizes(v) for k, v in items.items()}, "case": label}
    ctx.evaluated()
    ctx.distinct(("delivery", cfg, kex, banners, mode, repr(witness["items_sent"])))
    try:
        sess.pump(split)
        if not sess.established():
            report_failure(ctx, sess, "delivery-session-not-established", "key exchange / service start did not complete for a legal stream",
                           dict(witness, exception=sess.exc, disconnecting={k: v.disconnecting for k, v in sess.tr.items()},
                                plain_disconnect_codes={k: sess.plain_disconnect_code(k) for k in "sc"}))
            return
        ctx.count("sessions_established")
        for side in rng.sample(["s", "c"], 2):
            send_items(rng, sess, side, items[side])
            if rng.random() < 0.5:
                sess.pump(split)
        sess.pump(split)
        ctx.count("segments_delivered", sess.segments)
        for side in "sc":
            sent = [(i[1], i[2]) for i in items[side] if i[0] == "pkt"]
            got = sess.service(sess.other(side)).got
            ctx.count("payloads_compared", len(sent))
            ctx.count("payload_bytes", sum(len(p) for _, p in sent))
            if got != sent or sess.exc or sess.tr["s"].disconnecting or sess.tr["c"].disconnecting:
                firstbad = next((k for k, (a, b) in enumerate(zip(sent, got)) if a != b), min(len(sent), len(got)))
                report_failure(ctx, sess, "delivery-payload-mismatch", "payloads delivered to the peer service differ from those sent",
                               dict(witness, sender=side, n_sent=len(sent), n_received=len(got), first_difference_index=firstbad,
                                    exception=sess.exc, disconnecting={k: v.disconnecting for k, v in sess.tr.items()}))
                return
    finally:
        sess.close()
    return sess


def rekey_case(ctx, rng, cfg, kex, keytype, label, extra_cfgs):
    """Payload sequences that continue across one or two re-keys (a second KEXINIT exchange started by
    either side or both at once, to another cipher/MAC/compression incl. `none`), with packets sent -
    and therefore queued - while the exchange is in progress, and a re-entrant application that sends
    packets from inside packetReceived.  Same oracle: per direction received == sent, in call order."""
    e = env()
    allc = list(itertools.product(e["ciphers"], e["macs"], e["comps"])) + extra_cfgs
    mode = rng.choice(("whole", "rand", "rand"))
    split = splitter(rng, mode)
    nrekeys = rng.choice((1, 1, 2))
    plan = [(rng.choice(allc), rng.choice(("c", "s", "both"))) for _ in range(nrekeys)]
    sess = Session(cfg, kex, keytype)
    sent = {"c": [], "s": []}
    witness = {"family": "rekey", "config": cfg, "kex": kex, "hostkey": keytype, "segmentation": mode,
               "rekeys(new config, initiator)": plan, "case": label}
    ctx.evaluated()
    ctx.count("rekey_sessions")

    ctl_during_kex = rng.random() < 0.25  # IGNORE / DEBUG (allowed during key exchange) also while re-keying
    hazard = []

    def send(side, n, big=False, during=False):
        for it in gen_items(rng, n, big):
            if it[0] == "pkt":
                sent[side].append((it[1], it[2]))
            elif during:
                if not ctl_during_kex:
                    continue
                t = sess.proto[side]
                # (classification only) own NEWKEYS already sent, the peer's not yet received
                if (t._keyExchangeState != t._KEY_EXCHANGE_NONE and t.nextEncryptions is not t.currentEncryptions
                        and getattr(t.nextEncryptions, "encBlockSize", 0)):
                    hazard.append((side, it[0]))
                ctx.count("control_messages_during_key_exchange")
            send_items(rng, sess, side, [it])

    def one_round():
        for src in "sc":
            data = sess.take(src)
            for piece in split(data) if data else ():
                if not sess.feed(sess.other(src), piece):
                    break

    try:
        sess.pump(lambda d: [d])
        if not sess.established():
            report_failure(ctx, sess, "delivery-session-not-established", "key exchange / service start did not complete", dict(witness))
            return
        ctx.count("sessions_established")
        for side in "sc":
            svc = sess.service(side)
            svc.sent_log = sent[side]
            if rng.random() < 0.4:
                svc.replies = [(rng.randint(50, 255), gen_payload(rng, False)) for _ in range(rng.randint(1, 4))]
                ctx.count("echo_scripts")
        nreplies0 = sum(len(sess.service(x).replies) for x in "sc")
        for side in rng.sample(["s", "c"], 2):
            send(side, rng.randint(0, 3), True)
        if rng.random() < 0.5:
            one_round()
        for cfg2, who in plan:
            for t in (sess.s, sess.c):
                t.supportedCiphers, t.supportedMACs, t.supportedCompressions = [cfg2[0]], [cfg2[1]], [cfg2[2]]
            for side in ("c", "s") if who == "both" else (who,):
                sess.proto[side].sendKexInit()
            ctx.count("rekeys_started")
            ctx.seen("rekey_targets", b"/".join(cfg2).decode())
            for _ in range(rng.randint(1, 3)):
                for side in rng.sample(["s", "c"], 2):
                    n0 = len(sent[side])
                    send(side, rng.randint(0, 3), during=True)
                    ctx.count("packets_sent_during_key_exchange", len(sent[side]) - n0)
                one_round()
            sess.pump(split)
            if sess.exc or sess.tr["s"].disconnecting or sess.tr["c"].disconnecting:
                break
            ok = all(t.currentEncryptions.outCipType == cfg2[0] and t.currentEncryptions.outMACType == cfg2[1] for t in (sess.s, sess.c))
            ctx.count("rekeys_completed" if ok else "rekeys_not_switched")
            for side in rng.sample(["s", "c"], 2):
                send(side, rng.randint(1, 3), True)
            sess.pump(split)
        ctx.count("segments_delivered", sess.segments)
        ctx.count("echo_replies_sent", nreplies0 - sum(len(sess.service(x).replies) for x in "sc"))
        ctx.distinct(("rekey", cfg, kex, repr(plan), mode, repr({k: [(n, len(p)) for n, p in v] for k, v in sent.items()})))
        for side in "sc":
            got = sess.service(sess.other(side)).got
            ctx.count("payloads_compared", len(sent[side]))
            if got != sent[side] or sess.exc or sess.tr["s"].disconnecting or sess.tr["c"].disconnecting:
                firstbad = next((k for k, (a, b) in enumerate(zip(sent[side], got)) if a != b), min(len(sent[side]), len(got)))
                if hazard:
                    ctx.count("known_" + KNOWN_NEWKEYS)
                    ctx.violation(KNOWN_NEWKEYS, "a message allowed during key exchange (IGNORE/DEBUG) sent after the side's own NEWKEYS but before the peer's "
                                  "NEWKEYS arrived is encrypted with the old keys; the peer, already switched, cannot decrypt it",
                                  dict(witness, control_messages_in_window=hazard, sender=side, n_sent=len(sent[side]), n_received=len(got),
                                       disconnecting={k: v.disconnecting for k, v in sess.tr.items()}))
                    return
                report_failure(ctx, sess, "rekey-payload-mismatch", "payloads sent before / during / after a re-key were not delivered exactly, in order",
                               dict(witness, sender=side, sent=[(n, len(p)) for n, p in sent[side]], n_received=len(got), first_difference_index=firstbad,
                                    exception=sess.exc, disconnecting={k: v.disconnecting for k, v in sess.tr.items()}))
                return
    finally:
        sess.close()


def asym_case(ctx, rng, kex, keytype, label):
    """Different cipher / MAC / compression for the two directions (client->server, server->client),
    optionally re-keyed to another such configuration.  Same delivery oracle."""
    e = env()

    def pick():
        comp = rng.choice(((b"zlib", b"none"), (b"none", b"zlib"), (b"zlib", b"none"), (b"zlib", b"zlib"), (b"none", b"none")))
        enc = tuple(rng.sample(e["ciphers"], 2)) if rng.random() < 0.6 else (rng.choice(e["ciphers"]),) * 2
        mac = tuple(rng.sample(e["macs"], 2)) if rng.random() < 0.6 else (rng.choice(e["macs"]),) * 2
        return {"enc": enc, "mac": mac, "comp": comp}

    plan = [pick() for _ in range(rng.choice((1, 1, 2)))]
    mode = rng.choice(("whole", "rand", "rand"))
    split = splitter(rng, mode)
    first = plan[0]
    sess = Session((first["enc"][0], first["mac"][0], first["comp"][0]), kex, keytype, asym=first)
    sent = {"c": [], "s": []}
    witness = {"family": "asymmetric", "kex": kex, "hostkey": keytype, "segmentation": mode, "plan(c2s,s2c)": plan, "case": label}
    ctx.evaluated()
    for a in plan:
        ctx.count("asymmetric_compression_sessions" if a["comp"][0] != a["comp"][1] else "symmetric_compression_in_asym_family")
        ctx.count("asymmetric_cipher_exchanges", a["enc"][0] != a["enc"][1])
        ctx.count("asymmetric_mac_exchanges", a["mac"][0] != a["mac"][1])

    def send(side, n):
        for it in gen_items(rng, n, True):
            if it[0] == "pkt":
                sent[side].append((it[1], it[2]))
                send_items(rng, sess, side, [it])

    try:
        sess.pump(split)
        if not sess.established():
            report_failure(ctx, sess, "asymmetric-session-not-established", "key exchange with per-direction algorithms did not complete",
                           dict(witness, exception=sess.exc, disconnecting={k: v.disconnecting for k, v in sess.tr.items()}))
            return
        ctx.count("sessions_established")
        for k, a in enumerate(plan):
            if k:
                sess.set_asym(a)
                sess.proto[rng.choice("cs")].sendKexInit()
                ctx.count("rekeys_started")
            for side in rng.sample(["s", "c"], 2):
                send(side, rng.randint(1, 4))
            sess.pump(split)
            if not (sess.exc or sess.tr["s"].disconnecting or sess.tr["c"].disconnecting):
                cur = sess.s.currentEncryptions
                ok = (cur.inCipType, cur.outCipType, cur.inMACType, cur.outMACType) == (a["enc"][0], a["enc"][1], a["mac"][0], a["mac"][1])
                ctx.count("asymmetric_negotiations_confirmed_at_server" if ok else "asymmetric_negotiations_not_as_offered")
            for side in rng.sample(["s", "c"], 2):
                send(side, rng.randint(1, 3))
            sess.pump(split)
        ctx.count("segments_delivered", sess.segments)
        ctx.distinct(("asym", kex, repr(plan), mode, repr({k: [(n, len(p)) for n, p in v] for k, v in sent.items()})))
        for side in "sc":
            got = sess.service(sess.other(side)).got
            ctx.count("payloads_compared", len(sent[side]))
            if got != sent[side] or sess.exc or sess.tr["s"].disconnecting or sess.tr["c"].disconnecting:
                report_failure(ctx, sess, "asymmetric-payload-mismatch", "payloads were not delivered intact with different algorithms in the two directions",
                               dict(witness, sender=side, sent=[(n, len(p)) for n, p in sent[side]], n_received=len(got),
                                    exception=sess.exc, disconnecting={k: v.disconnecting for k, v in sess.tr.items()}))
                return
    finally:
        sess.close()


def ident_case(ctx, rng, nlines, label, long=False):
    """Every 1-cut of the server's identification region (banner lines + version line), fast kex."""
    e = env()
    cfg = (b"aes128-ctr", b"hmac-sha2-256", b"none")
    if cfg[0] not in e["ciphers"]:
        cfg = (e["ciphers"][0], e["macs"][0], b"none")
    kex, keytype = e["kexes"][0], b"ssh-ed25519"
    banner = gen_banner(rng, nlines, long)
    to_client = rng.random() < 0.75  # banners are a server feature (RFC 4253 4.2); also probe the shared code the other way
    probe = Session(cfg, kex, keytype)
    first = probe.tr["s" if to_client else "c"].take()
    probe.close()
    region = len(banner) + first.index(b"\n") + 1
    if long:
        cuts = [None, region, region + 1, region - 1, len(banner), 1]
    else:
        cuts = list(range(1, region + 3))
    for cut in cuts:
        if not ctx.owns(hash32(label, cut)):
            continue
        sess = Session(cfg, kex, keytype, (banner, b"") if to_client else (b"", banner))
        src = "s" if to_client else "c"
        dst = sess.other(src)
        data = sess.take(src)
        pieces = [data] if cut is None else [data[:cut], data[cut:]]
        witness = {"family": "identification", "direction": "server->client" if to_client else "client->server", "banner": banner,
                   "identification_region_bytes": region, "cut_after_byte": cut, "first_flight_bytes": len(data), "case": label}
        ctx.evaluated()
        ctx.count("ident_cut_sessions")
        ctx.distinct(("ident", banner, cut, to_client))
        try:
            for p in pieces:
                if p:
                    sess.feed(dst, p)
            sess.pump(lambda d: [d])
            ok = sess.established()
            if ok:
                ctx.count("sessions_established")
                sess.s.sendPacket(94, b"from-server")
                sess.c.sendPacket(95, b"from-client")
                sess.pump(lambda d: [d])
                ok = sess.service("c").got == [(94, b"from-server")] and sess.service("s").got == [(95, b"from-client")]
                ctx.count("payloads_compared", 2)
            ctx.count("segments_delivered", sess.segments)
            if not ok:
                report_failure(ctx, sess, "delivery-identification-split", "a legal identification sequence, cut into two segments, broke the session",
                               dict(witness, exception=sess.exc, disconnecting={k: v.disconnecting for k, v in sess.tr.items()},
                                    plain_disconnect_codes={k: sess.plain_disconnect_code(k) for k in "sc"}))
        finally:
            sess.close()


def hash32(*a):
    import zlib

    return zlib.crc32(repr(a).encode())


def tamper_case(ctx, rng, cfg, kex, keytype, label, offset=None, pkt_sizes=None):
    """Returns the length of the tampered packet chunk (for the exhaustive family)."""
    e = env()
    sess = Session(cfg, kex, keytype)
    mode = rng.choice(("whole", "rand"))
    split = splitter(rng, mode)
    ctx.evaluated()
    try:
        sess.pump(lambda d: [d])
        if not sess.established():
            report_failure(ctx, sess, "delivery-session-not-established", "key exchange / service start did not complete", {"family": "tamper", "config": cfg, "kex": kex})
            return None
        ctx.count("sessions_established")
        src = rng.choice("sc")
        dst = sess.other(src)
        n = rng.randint(1, 5)
        payloads = [(rng.randint(50, 255), gen_payload(rng, False) if pkt_sizes is None else rng.randbytes(pkt_sizes[k % len(pkt_sizes)])) for k in range(n)]
        j = rng.randrange(n)
        tr = sess.tr[src]
        m0 = len(tr.marks)
        for k, (num, p) in enumerate(payloads):
            if rng.random() < 0.3:
                sess.proto[src].sendIgnore(b"x" * rng.randint(0, 9))
            if k == j:
                mj = len(tr.marks)
            sess.proto[src].sendPacket(num, p)
        off, ln = tr.marks[mj]
        ms = {b"hmac-md5": 16, b"hmac-sha1": 20, b"hmac-sha2-256": 32, b"hmac-sha2-384": 48, b"hmac-sha2-512": 64}[cfg[1]]
        if offset is None:
            cls = rng.choice(("length", "padlen", "body", "body", "mac", "mac"))
            o = {"length": rng.randrange(4), "padlen": 4, "body": rng.randrange(5, ln - ms), "mac": rng.randrange(ln - ms, ln)}[cls]
        else:
            o = offset
            if o >= ln:
                return ln
            cls = "length" if o < 4 else "padlen" if o == 4 else "mac" if o >= ln - ms else "body"
        mask = rng.choice((1, 0x80, 0xFF, rng.randint(1, 255)))
        stream = bytearray(sess.take(src))
        base = tr.marks[m0][0]
        stream[off - base + o] ^= mask
        ctx.count("tamper_sessions")
        ctx.count("tamper_class_" + cls)
        ctx.distinct(("tamper", cfg, kex, [len(p) for _, p in payloads], j, o, mask, mode))
        witness = {"family": "tamper", "config": cfg, "kex": kex, "hostkey": keytype, "sender": src, "payload_sizes": [len(p) for _, p in payloads],
                   "tampered_packet_index": j, "packet_chunk_bytes": ln, "offset_in_packet": o, "offset_class": cls, "xor_mask": mask,
                   "segmentation": mode, "case": label}
        for piece in split(bytes(stream)):
            if not sess.feed(dst, piece):
                break
        extra = 0
        filler = rng.randbytes(65536)  # incompressible: zlib must not shrink the 1.1 MiB
        while not sess.tr[dst].disconnecting and not sess.exc and extra < 1153434:
            sess.proto[src].sendPacket(94, filler)
            d = sess.take(src)
            extra += len(d)
            sess.feed(dst, d)
            ctx.count("tamper_filler_packets")
        ctx.count("segments_delivered", sess.segments)
        got = sess.service(dst).got
        if sess.exc:
            ctx.violation("tamper-receiver-exception", "dataReceived raised on a tampered stream", dict(witness, exception=sess.exc))
        elif not sess.tr[dst].disconnecting:
            ctx.violation("tamper-not-detected", "a byte of a MAC-protected packet was altered and the receiver never disconnected "
                          "(1.1 MiB of valid packets delivered afterwards)", dict(witness, received=len(got)))
        else:
            ctx.count("tamper_disconnects_observed")
        if got != payloads[:j]:
            ctx.violation("tamper-altered-or-later-packet-delivered", "after tampering, the receiver's service got something else than the packets sent before the altered one",
                          dict(witness, n_received=len(got), expected_received=j))
        ctx.count("payloads_compared", j)
        return ln
    finally:
        sess.close()


def configs(ctx):
    e = env()
    allc = list(itertools.product(e["ciphers"], e["macs"], e["comps"]))
    if ctx.quick:
        # stride 7 through the product: a seed's 10 configurations mix ciphers, MACs and compressions;
        # seeds 0..6 together cover all 70
        idx = [(ctx.seed + 7 * j) % len(allc) for j in range(10)]
        return [(k, allc[k]) for k in idx], len(allc)
    return list(enumerate(allc)), len(allc)


def run(ctx):
    e = env()
    cfgs, total = configs(ctx)
    ctx.extra["configurations_offered"] = total
    keytypes = sorted(e["hk"])
    n_del = ctx.size(20, 150)
    n_tam = ctx.size(16, 150)
    for ci, cfg in cfgs:
        ctx.seen("configs", b"/".join(cfg).decode())
        for k in range(n_del + n_tam):
            case = ci * 1000003 + k
            if not ctx.owns(case):
                continue
            rng = ctx.case_rng("cfg", ci, k)
            kex = e["kexes"][(ci + k) % len(e["kexes"])]
            keytype = keytypes[(ci + k // 2) % len(keytypes)]
            ctx.seen("kex_used", kex.decode())
            if k < n_del:
                delivery_case(ctx, rng, cfg, kex, keytype, "cfg%d/del%d" % (ci, k))
            else:
                tamper_case(ctx, rng, cfg, kex, keytype, "cfg%d/tam%d" % (ci, k))
    # re-keying, packets queued during the exchange, re-entrant senders, `none` cipher / MAC targets
    extra = [(b"none", e["macs"][0], b"none"), (e["ciphers"][0], b"none", b"zlib"), (b"none", b"none", b"none")]
    n_rk = ctx.size(8, 60)
    for ci, cfg in cfgs + [(1000 + j, c) for j, c in enumerate(extra)]:
        for k in range(n_rk):
            if not ctx.owns(ci * 7919 + k):
                continue
            rng = ctx.case_rng("rekey", ci, k)
            rekey_case(ctx, rng, cfg, e["kexes"][(ci + k) % len(e["kexes"])], keytypes[k % len(keytypes)], "cfg%d/rekey%d" % (ci, k), extra)
    for k in range(ctx.size(60, 1500)):
        if ctx.owns(k):
            asym_case(ctx, ctx.case_rng("asym", k), e["kexes"][k % len(e["kexes"])], keytypes[k % len(keytypes)], "asym%d" % k)
    ctx.count("configs_covered", len(cfgs) if ctx.shard == 0 else 0)
    # every offset of one packet, for the first CTR and the first CBC configuration of this run
    picked = []
    for ci, cfg in cfgs:
        kind = cfg[0][-3:]
        if kind not in [p[0] for p in picked]:
            picked.append((kind, ci, cfg))
    for kind, ci, cfg in picked[:2] if ctx.quick else picked:
        # a probe session (offset beyond the packet) tells the chunk length for this configuration
        ln = tamper_case(ctx, ctx.case_rng("exh", ci, "probe"), cfg, e["kexes"][0], b"ssh-ed25519", "probe", offset=10 ** 9, pkt_sizes=[33])
        for o in range((ln or 0) + 8):  # a few beyond: compressed sizes may differ by a block
            if ctx.owns(hash32("exh", ci, o)):
                tamper_case(ctx, ctx.case_rng("exh", ci, o), cfg, e["kexes"][0], b"ssh-ed25519",
                            "cfg%d/exhaustive-offset%d" % (ci, o), offset=o, pkt_sizes=[33])
                ctx.count("tamper_exhaustive_offsets")
    # identification region, every 1-cut
    for i in range(ctx.size(8, 60)):
        rng = ctx.case_rng("ident", i)
        ident_case(ctx, rng, i % 4, "ident%d" % i)
    for i in range(ctx.size(3, 20)):
        rng = ctx.case_rng("identlong", i)
        ident_case(ctx, rng, 1 + i % 3, "identlong%d" % i, long=True)
    if ctx.shard == 0:
        ctx.sample({"ciphers": e["ciphers"], "macs": e["macs"], "compressions": e["comps"], "kex": e["kexes"]})


def replay(ctx, w):
    """Re-runs the session named by the witness label (same configuration, payloads, banner and
    segmentation; the key exchange randomness - hence the cipher text - is fresh)."""
    import re

    e = env()
    label = w["witness"].get("case", "")
    allc = list(itertools.product(e["ciphers"], e["macs"], e["comps"]))
    keytypes = sorted(e["hk"])
    m = re.match(r"cfg(\d+)/(del|tam)(\d+)$", label)
    if m:
        ci, k = int(m.group(1)), int(m.group(3))
        rng = ctx.case_rng("cfg", ci, k)
        kex, keytype = e["kexes"][(ci + k) % len(e["kexes"])], keytypes[(ci + k // 2) % len(keytypes)]
        (delivery_case if m.group(2) == "del" else tamper_case)(ctx, rng, allc[ci], kex, keytype, label)
        return
    m = re.match(r"cfg(\d+)/rekey(\d+)$", label)
    if m:
        ci, k = int(m.group(1)), int(m.group(2))
        extra = [(b"none", e["macs"][0], b"none"), (e["ciphers"][0], b"none", b"zlib"), (b"none", b"none", b"none")]
        cfg = extra[ci - 1000] if ci >= 1000 else allc[ci]
        rekey_case(ctx, ctx.case_rng("rekey", ci, k), cfg, e["kexes"][(ci + k) % len(e["kexes"])], keytypes[k % len(keytypes)], label, extra)
        return
    m = re.match(r"cfg(\d+)/exhaustive-offset(\d+)$", label)
    if m:
        ci, o = int(m.group(1)), int(m.group(2))
        tamper_case(ctx, ctx.case_rng("exh", ci, o), allc[ci], e["kexes"][0], b"ssh-ed25519", label, offset=o, pkt_sizes=[33])
        return
    m = re.match(r"asym(\d+)$", label)
    if m:
        k = int(m.group(1))
        asym_case(ctx, ctx.case_rng("asym", k), e["kexes"][k % len(e["kexes"])], keytypes[k % len(keytypes)], label)
        return
    m = re.match(r"ident(long)?(\d+)$", label)
    if m:
        i = int(m.group(2))
        if m.group(1):
            ident_case(ctx, ctx.case_rng("identlong", i), 1 + i % 3, label, long=True)
        else:
            ident_case(ctx, ctx.case_rng("ident", i), i % 4, label)
        return
    ctx.inconclusive("replay: witness has no case label; re-run with VERIF_SEED=%s" % w.get("seed"))
