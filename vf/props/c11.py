"""C11 Cooperator advances only runnable tasks, completes each once, starves none.

Monitored objects: twisted.internet.task.Cooperator / CooperativeTask with a deterministic
scheduler (a tick runs only when the history says so) and a work-unit-count termination predicate.
Events: every next() on every (wrapped, numbered) iterator; every firing of every whenDone() /
coiterate() Deferred; the exception type of every pause/resume/stop call; the final state of every
Deferred an iterator yielded.
Oracle: per-task model {user pause count, waiting on a yielded Deferred, done(kind)}:
  * next() only while runnable (not paused, not waiting, not finished) and only inside a tick;
  * completion Deferreds fire exactly once, by the end of the harness operation in which the task
    finishes: with the iterator (exhaustion), a Failure holding the very exception raised by the
    iterator / carried by the yielded Deferred (TaskFailed), TaskStopped, or SchedulerStopped;
    the first completion wins; whenDone() after completion fires at once with the same result;
  * pause()/stop() on a finished task raise the matching exception (TaskDone / TaskFailed /
    TaskStopped / SchedulerStopped), resume() on a never-paused live task raises NotPaused;
  * bounded non-starvation: a task that stays runnable is advanced within N*(N+1)+2 work units
    (N = tasks created so far); drain phase: after firing every outstanding Deferred and matching
    every pause with a resume, every task finishes within sum(remaining)+N^2+10 ticks;
  * Cooperator.stop() completes every task in the running set with SchedulerStopped at once; paused
    / waiting tasks get it when they would become runnable again (unless start() came first).
Raising iterators raise Boom(Exception) or, in ~30 % of the cases, a BaseException that is not an Exception
(harness class, KeyboardInterrupt, SystemExit, GeneratorExit, asyncio.CancelledError): the task must be
completed with TaskFailed and that very exception, and nothing may escape the tick (the driver catches
whatever does and reports `exception-escaped-scheduler-tick`).
Yielded Deferreds come in four shapes: fresh and unfired; already fired but chained to an inner
unfired Deferred; already fired (ok / failed) and pause()d; already fired with nothing pending.  The
task counts as waiting until the yielded Deferred's callback chain delivers (inner fired / unpause),
an already-delivered success is no wait at all, an already-delivered failure is an immediate TaskFailed.
False-alarm guards: the order in which runnable tasks are advanced is NOT checked (the statement only
demands non-starvation: the bound is judged, the largest observed wait is recorded as
max_wait_percent_of_starvation_bound); an unmatched resume() aimed at a task waiting on a Deferred is
issued (operation "uresume") but what the call answers is not judged, only that the task is not
advanced while the Deferred is unfired; resume()'s exception on *finished* tasks is not checked (documented: only NotPaused; test_pauseStopResume
requires a silent no-op); ticks are never re-entered from inside a tick.
re-entrant Cooperator.stop()/start() from a callback fired by Cooperator.stop() and operations on
tasks that stop() has not reached yet are transient don't-cares; a Deferred yielded by a task that
was completed during that very next() is not owned by the Cooperator (its final state is not checked).
Genuine defects found (narrow keys, see /verif/findings/C11-*.md):
  * `cooperator-stop-skips-tasks` (fixed in /repo by e348168; still detected, see
    mutants/C11/REVERSE-FIX-*.patch): Cooperator.stop() mutates the list it iterates; the tasks it
    leaves behind are marked orphaned and ignored afterwards (an exception escaping the same tick is
    attributed to it) so that other breaks of the property keep their own keys;
  * `completed-inside-own-next`: a task completed (stop / Cooperator.stop) during its own next()
    which then ends or yields a Deferred -> ValueError/TaskStopped escapes _tick, no reschedule;
  * `stopped-while-waiting-then-deferred-fails`: stop() while waiting, the Deferred then fails ->
    second completion (AlreadyCalledError left in the Deferred, completion state flips).
"""
import gc

LEVEL = "exploration"
ENGINE = "core"
TECHNIQUE = "runtime monitoring: per-task state model (runnable/paused/waiting/done) + exactly-once completion + bounded wait"
RULE = ("random cases: <= 8 iterator programs (steps: value / Deferred [unfired | fired-but-chained-to-pending | fired-and-paused | "
        "already delivered] / raise, then exhaustion; optional operation executed "
        "from inside next()), termination predicate after u in {1,2,3,inf} work units, started flag, and 10-70 operations: "
        "add (cooperate/coiterate), tick, pause, resume, unmatched resume on a waiting task, stop, fire the k-th outstanding Deferred ok/failed, whenDone with an "
        "optional operation run from its callback, Cooperator.stop()/start(); then a drain phase.  Distinct = the whole case; "
        "non-trivial = >= 2 tasks advanced and at least one pause/stop/Deferred wait/cooperator stop took effect.")
ASSUMPTIONS = ["trusted base: the per-task model in this module; Deferred (properties C01-C07) delivers callbacks",
               "the scheduler and termination predicate are harness objects (documented constructor seams)"]
SHARDS = {"quick": 4, "thorough": 16}
FLOORS = {"next_checks": 20000, "completion_checks": 5000, "done_exhausted": 1000, "done_failed": 300, "done_stopped": 300,
          "done_sched_stopped": 300, "finished_op_refused": 300, "not_paused_raised": 100, "deferred_waits": 1000,
          "pause_while_waiting": 100, "ops_inside_next": 1000, "ops_inside_callback": 200, "coop_stops_with_2plus_running": 100,
          "whendone_after_completion": 200, "starvation_checks": 20000, "drains": 1000,
          "unmatched_resumes_while_waiting": 100, "waits_on_defer": 1000, "waits_on_dchain": 300, "waits_on_dpaused": 200, "already_fired_deferreds_yielded": 200,
          "iterators_raising_baseexception_only": 200}
READY = True


class Boom(Exception):
    pass


class BoomBase(BaseException):
    """A harness exception that is not an Exception subclass."""


def raised_exception(name, tid):
    """The exception a "raise" step of an iterator raises; ~30 % are BaseException-only classes."""
    if name == "BoomBase":
        return BoomBase(tid)
    if name == "CancelledError":
        import asyncio

        return asyncio.CancelledError(tid)
    if name in ("KeyboardInterrupt", "SystemExit", "GeneratorExit"):
        return {"KeyboardInterrupt": KeyboardInterrupt, "SystemExit": SystemExit, "GeneratorExit": GeneratorExit}[name](tid)
    return Boom(tid)


class FakeDC:
    def __init__(self, fn):
        self.fn = fn
        self.cancelled = self.called = False

    def cancel(self):
        from twisted.internet import error

        if self.cancelled:
            raise error.AlreadyCancelled()
        if self.called:
            raise error.AlreadyCalled()
        self.cancelled = True


class TaskM:
    def __init__(self, tid, prog):
        self.tid = tid
        self.prog = prog
        self.pos = 0
        self.user_pauses = 0
        self.waiting = None
        self.done = None
        self.done_exc = None
        self.handle = None
        self.it = None
        self.recs = []
        self.since = 0
        self.orphan = False
        self.unmatched = False
        self.orphan_steps = 0
        self.advanced = 0

    def live_runnable(self):
        return self.done is None and self.user_pauses == 0 and self.waiting is None and not self.orphan


class It:
    """The wrapped iterator handed to the Cooperator; every next() is a monitor event."""

    def __init__(self, mon, tm):
        self.mon, self.tm = mon, tm

    def __iter__(self):
        return self

    def __next__(self):
        return self.mon.on_next(self.tm)


def gen_case(rng, self_ops):
    def target():
        r = rng.random()
        if self_ops and r < 0.15:
            return "self"
        return rng.randrange(16)

    def small_op(allow_cb=True):
        r = rng.random()
        if r < 0.25:
            return ["pause", target()]
        if r < 0.47:
            return ["resume", target()]
        if r < 0.50:
            return ["uresume", target()]
        if r < 0.70:
            return ["stop", target()]
        if r < 0.80:
            return ["whendone", target(), small_op(False) if allow_cb and rng.random() < 0.5 else None]
        if r < 0.84:
            return ["cstop"]
        if r < 0.88:
            return ["cstart"]
        return ["add", rng.randrange(8), rng.choice(["cooperate", "coiterate"])]

    inline_p = rng.choice([0.0, 0.1, 0.3])
    fail_p = rng.choice([0.0, 0.05, 0.2])
    progs = []
    for _ in range(8):
        steps = []
        for _ in range(rng.randrange(0, 7)):
            r = rng.random()
            if r < fail_p:
                k = "raise"
            elif r < fail_p + 0.2:
                k = "defer"    # a fresh, unfired Deferred
            elif r < fail_p + 0.27:
                k = "dchain"   # already fired, but its callback chain waits on an inner unfired Deferred
            elif r < fail_p + 0.32:
                k = "dpaused"  # already fired (ok or failed) and pause()d: delivers at unpause()
            elif r < fail_p + 0.37:
                k = "dnow"     # already fired, nothing pending: no wait (ok) / immediate TaskFailed (failed)
            else:
                k = "val"
            steps.append([k, small_op() if rng.random() < inline_p else None, rng.random() >= fail_p])
            if k == "raise":
                steps[-1].append(rng.choice(["BoomBase", "KeyboardInterrupt", "SystemExit", "GeneratorExit", "CancelledError"])
                                 if rng.random() < 0.3 else "Boom")
            if k == "raise":
                break
        end_inline = small_op() if rng.random() < inline_p / 2 else None
        # a long tail of plain values makes a task outlive the history, so unfair scheduling shows up as starvation
        tail = rng.choice([40, 150]) if (steps and steps[-1][0] != "raise" and rng.random() < 0.3) else 0
        progs.append({"steps": steps, "end_inline": end_inline, "tail": tail})
    ops = []
    n_tasks = 0
    for _ in range(rng.randrange(10, 70)):
        r = rng.random()
        if n_tasks == 0 or (r < 0.14 and n_tasks < 8):
            ops.append(["add", rng.randrange(8), "cooperate" if rng.random() < 0.8 else "coiterate"])
            n_tasks += 1
        elif r < 0.50:
            ops.append(["tick"])
        elif r < 0.60:
            ops.append(["pause", rng.randrange(16)])
        elif r < 0.685:
            ops.append(["resume", rng.randrange(16)])
        elif r < 0.70:
            ops.append(["uresume", rng.randrange(16)])  # resume() not matched by any pause(), aimed at a task waiting on a Deferred
        elif r < 0.76:
            ops.append(["stop", rng.randrange(16)])
        elif r < 0.90:
            ops.append(["fire", rng.randrange(16), rng.random() >= fail_p])
        elif r < 0.95:
            ops.append(["whendone", rng.randrange(16), small_op(False) if rng.random() < 0.4 else None])
        elif r < 0.965:
            ops.append(["cstop"])
        elif r < 0.985:
            ops.append(["cstart"])
        else:
            ops.append(["tick"])
    return {"started": rng.random() < 0.85, "u": rng.choice([1, 1, 2, 3, None]), "progs": progs, "ops": ops}


class Monitor:
    def __init__(self, ctx, case):
        from twisted.internet import task

        self.ctx, self.case, self.task = ctx, case, task
        self.tasks = []
        self.outstanding = []  # [(TaskM, Deferred to fire | None = unpause, yielded Deferred, preset outcome | None)]
        self.yielded = []
        self.pending_tick = None
        self.coop_stopped = False
        self.coop_started = case["started"]
        self.in_tick = False
        self.units = 0
        self.events = []
        self.bad = False
        self.stats = {}
        self.depth = 0
        self.stopping = None  # tids of the running set while a real Cooperator.stop() is in progress
        self.reentrant = None
        self.orphaned_in_tick = False
        self.base_raised_in_tick = False
        self.coop = task.Cooperator(terminationPredicateFactory=self.tpf, scheduler=self.sched, started=case["started"])

    # ---- plumbing
    def stat(self, k, n=1):
        self.stats[k] = self.stats.get(k, 0) + n

    def fail(self, key, what, soft=False, **extra):
        if self.bad:
            return
        if not soft:
            self.bad = True
        w = {"case": self.case, "events": self.events[-80:],
             "model": [{"task": t.tid, "pos": t.pos, "user_pauses": t.user_pauses, "waiting": t.waiting is not None, "done": t.done,
                        "orphan": t.orphan} for t in self.tasks]}
        w.update(extra)
        self.ctx.violation(key, what, w)

    def tpf(self):
        u = self.case["u"]
        n = [0]

        def terminator():
            n[0] += 1
            if n[0] > 5000 and not self.bad:
                self.fail("tick-runaway", "one tick performed more than 5000 work units (finite iterators of <= 160 steps, <= 8 tasks)")
            # once a violation is reported the case is wound down: end the tick (a broken run list could spin forever)
            return self.bad or (u is not None and n[0] >= u)

        return terminator

    def sched(self, fn):
        if self.pending_tick is not None and not self.pending_tick.cancelled and not self.pending_tick.called:
            self.fail("two-ticks-scheduled", "the Cooperator scheduled a tick while one is still outstanding")
        self.pending_tick = FakeDC(fn)
        return self.pending_tick

    def finish_kind(self, tm):
        t = self.task
        return {"done": t.TaskDone, "failed": t.TaskFailed, "stopped": t.TaskStopped, "sched_stopped": t.SchedulerStopped}[tm.done]

    def became_runnable(self, tm):
        """Call when a task's last obstacle went away; a stopped Cooperator completes it instead."""
        if not tm.live_runnable():
            return
        if self.coop_stopped:
            self.set_done(tm, "sched_stopped")
        else:
            tm.since = self.units

    def set_done(self, tm, kind, exc=None):
        if tm.done is None:
            tm.done = kind
            tm.done_exc = exc
            self.stat("done_" + {"done": "exhausted"}.get(kind, kind))

    # ---- monitor events
    def on_next(self, tm):
        self.events.append(("next", tm.tid, tm.pos))
        if tm.orphan and tm.unmatched and tm.waiting is not None and not self.bad:
            self.fail("unmatched-resume-advances-waiting-task", "task %d is advanced while the Deferred it yielded is unfired: an "
                      "unmatched resume() was accepted and cancelled the Cooperator's own wait" % tm.tid, soft=True, task=tm.tid)
            tm.unmatched = False
        if tm.orphan:
            self.stat("orphan_next_ignored")
            tm.advanced += 1
            if tm.orphan_steps >= 2:
                raise StopIteration
            tm.orphan_steps += 1
            return 0
        if not self.bad:
            why = None
            if tm.done is not None:
                why = "advanced-after-finished"
            elif tm.user_pauses > 0:
                why = "advanced-while-paused"
            elif tm.waiting is not None:
                why = "advanced-while-waiting-on-deferred"
            elif not self.in_tick:
                why = "advanced-outside-tick"
            if why:
                self.fail(why, "next() on task %d: model has done=%s user_pauses=%d waiting=%s" %
                          (tm.tid, tm.done, tm.user_pauses, tm.waiting is not None), task=tm.tid)
            else:
                self.stat("next_checks")
                self.units += 1
                tm.advanced += 1
                tm.since = self.units
                n = len(self.tasks)
                bound = n * (n + 1) + 2
                for o in self.tasks:
                    if o is not tm and o.live_runnable():
                        self.stat("starvation_checks")
                        self.ctx.maxi("wait_percent_of_starvation_bound", 100 * (self.units - o.since) // bound)
                        if self.units - o.since > bound:
                            self.fail("starved", "task %d runnable but not advanced for %d work units (bound %d, %d tasks)"
                                      % (o.tid, self.units - o.since, bound, n), task=o.tid)
                            break
        if self.bad:
            raise StopIteration  # wind the case down
        steps = tm.prog["steps"]
        if tm.pos >= len(steps) + tm.prog.get("tail", 0):
            inline, kind = tm.prog["end_inline"], "end"
        elif tm.pos >= len(steps):
            kind, inline = "val", None
        else:
            kind, inline = steps[tm.pos][0], steps[tm.pos][1]
            preset_ok = steps[tm.pos][2] if len(steps[tm.pos]) > 2 else True
            exc_name = steps[tm.pos][3] if len(steps[tm.pos]) > 3 else "Boom"
        tm.pos += 1
        if inline is not None:
            self.stat("ops_inside_next")
            live = tm.done is None
            self.do_op(inline, me=tm, where="next")
            if live and tm.done is not None and kind != "val" and not tm.orphan:
                # the task was completed (stop / Cooperator.stop) during its own next(), which now ends or yields a Deferred
                self.reentrant = (tm.tid, tm.done, kind)
                self.stat("finished_inside_own_next_then_" + kind)
        if kind == "end":
            self.set_done(tm, "done")
            raise StopIteration
        if kind == "raise":
            exc = raised_exception(exc_name, tm.tid)
            if not isinstance(exc, Exception):
                self.stat("iterators_raising_baseexception_only")
                self.base_raised_in_tick = True
            self.set_done(tm, "failed", exc)
            raise exc
        if kind in ("defer", "dchain", "dpaused"):
            from twisted.internet import defer

            # `token` is what the iterator yields; the task waits until its callback chain delivers
            if kind == "defer":
                token = fire = defer.Deferred()
                preset = None
            elif kind == "dchain":
                fire = defer.Deferred()
                token = defer.succeed(None)
                token.addCallback(lambda _, inner=fire: inner)
                preset = None
            else:
                exc = None if preset_ok else Boom("paused deferred of task %d" % tm.tid)
                token = defer.succeed(None) if preset_ok else defer.fail(exc)
                token.pause()
                fire = None  # delivered by token.unpause()
                preset = (preset_ok, exc)
            if tm.done is None:
                tm.waiting = token
                self.stat("deferred_waits")
                self.stat("waits_on_" + kind)
            self.outstanding.append((tm, fire, token, preset))
            self.yielded.append(token)
            return token
        if kind == "dnow":
            from twisted.internet import defer

            self.stat("already_fired_deferreds_yielded")
            if preset_ok:
                token = defer.succeed(None)
            else:
                exc = Boom("fired deferred of task %d" % tm.tid)
                self.set_done(tm, "failed", exc)
                token = defer.fail(exc)
            self.yielded.append(token)
            return token
        return tm.pos

    def on_completion(self, res, tm, rec, action):
        from twisted.python.failure import Failure

        rec["fired"].append(res)
        self.events.append(("completion", tm.tid, type(res.value).__name__ if isinstance(res, Failure) else "iterator"))
        if tm.orphan or self.bad:
            return None
        if len(rec["fired"]) > 1:
            self.fail("completion-fired-twice", "a completion Deferred of task %d fired twice" % tm.tid, task=tm.tid)
        elif tm.done is None:
            self.fail("completion-before-finish", "a completion Deferred of task %d fired (%r) but the model has it unfinished"
                      % (tm.tid, res), task=tm.tid)
        else:
            ok = False
            if tm.done == "done":
                ok = res is tm.it
            elif isinstance(res, Failure):
                if tm.done == "failed":
                    ok = res.value is tm.done_exc
                elif tm.done == "stopped":
                    ok = res.check(self.task.TaskStopped) is not None
                else:
                    ok = res.check(self.task.SchedulerStopped) is not None
            if not ok:
                self.fail("completion-wrong-result", "completion Deferred of task %d (model: %s) fired with %r" % (tm.tid, tm.done, res),
                          task=tm.tid)
            else:
                self.stat("completion_checks")
        if action is not None and not self.bad:
            self.stat("ops_inside_callback")
            self.do_op(action, me=tm, where="callback")
        return None

    # ---- operations (executed on the real objects and on the model)
    def resolve(self, r, me):
        if r == "self":
            return me
        if not self.tasks:
            return None
        return self.tasks[r % len(self.tasks)]

    def call(self, name, fn):
        try:
            fn()
            return None
        except Exception as e:  # noqa: BLE001 - the type is the observation
            return type(e)

    def do_op(self, op, me=None, where="top"):
        k = op[0]
        self.depth += 1
        try:
            if self.depth > 6 or self.bad:
                return
            if k == "add":
                self.op_add(op[1], op[2], where)
            elif k in ("cstop", "cstart") and self.stopping is not None:
                return  # re-entrant stop()/start() from a callback fired by Cooperator.stop(): don't-care
            elif k == "cstop":
                self.op_cstop(where)
            elif k == "cstart":
                self.events.append(("cstart", where))
                self.coop_stopped = False
                self.coop_started = True
                got = self.call("start", self.coop.start)
                if got is not None:
                    self.fail("unexpected-exception", "Cooperator.start() raised %s" % got.__name__)
            elif k == "tick":
                self.op_tick()
            elif k == "fire":
                self.op_fire(op[1], op[2])
            else:
                tm = self.resolve(op[1], me)
                if tm is None or tm.orphan or (tm.handle is None and k != "whendone"):
                    return
                if self.stopping is not None and tm.tid in self.stopping and not tm.recs[0]["fired"]:
                    return  # transient: Cooperator.stop() has not reached this task yet; don't-care
                getattr(self, "op_" + k)(tm, op, where)
        finally:
            self.depth -= 1
        if where == "top":
            self.settle_check(op)

    def op_add(self, prog_id, how, where):
        if len(self.tasks) >= 8:
            return
        tm = TaskM(len(self.tasks), self.case["progs"][prog_id % len(self.case["progs"])])
        tm.it = It(self, tm)
        self.tasks.append(tm)
        self.events.append(("add", tm.tid, how, where))
        if self.coop_stopped:
            self.set_done(tm, "sched_stopped")
        tm.since = self.units
        rec = {"fired": [], "probe": True}
        tm.recs.append(rec)
        try:
            if how == "cooperate":
                tm.handle = self.coop.cooperate(tm.it)
                d = tm.handle.whenDone()
            else:
                d = self.coop.coiterate(tm.it)
                self.stat("coiterate_tasks")
            d.addBoth(self.on_completion, tm, rec, None)
        except Exception as e:  # noqa: BLE001
            self.fail("unexpected-exception", "%s() raised %s: %s" % (how, type(e).__name__, e))

    def op_tick(self):
        t = self.pending_tick
        if t is None or t.cancelled or t.called or self.in_tick:
            return
        self.pending_tick = None
        t.called = True
        self.events.append(("tick",))
        self.in_tick = True
        self.reentrant = None
        self.orphaned_in_tick = False
        self.base_raised_in_tick = False
        self.stat("ticks")
        try:
            t.fn()
        except BaseException as e:  # noqa: BLE001 - whatever escapes a tick is reported, it must not kill the driver
            r = self.reentrant
            if not isinstance(e, Exception):
                self.fail("exception-escaped-scheduler-tick", "%s escaped from Cooperator._tick (an iterator's next() raised a "
                          "BaseException that is not an Exception: the task is not completed, the tick did not reschedule)"
                          % type(e).__name__, exception=type(e).__name__, raised_by_iterator_in_this_tick=self.base_raised_in_tick)
            elif self.orphaned_in_tick:
                # cascade of cooperator-stop-skips-tasks (already reported): a skipped task was inside its own next()
                self.stat("tick_raised_after_stop_skipped_tasks")
                self.bad = True
            elif r is not None and type(e).__name__ in ("ValueError", "TaskStopped", "SchedulerStopped"):
                self.fail("completed-inside-own-next", "task %d was completed (%s) from inside its own next(), which then %s; "
                          "Cooperator._tick raised %s: %s (and did not reschedule)" % (r[0], r[1], {"end": "ended", "raise": "raised"}.get(r[2], "yielded a Deferred"), type(e).__name__, e), exception=type(e).__name__, task=r[0])
            else:
                self.fail("tick-raised", "Cooperator._tick raised %s: %s" % (type(e).__name__, e), exception=type(e).__name__)
        finally:
            self.in_tick = False

    def op_pause(self, tm, op, where):
        expect = self.finish_kind(tm) if tm.done is not None else None
        got = self.call("pause", tm.handle.pause)
        self.events.append(("pause", tm.tid, where, got.__name__ if got else None))
        if got is not expect:
            return self.fail("wrong-exception", "pause() on task %d (model done=%s) raised %s, expected %s"
                             % (tm.tid, tm.done, getattr(got, "__name__", None), getattr(expect, "__name__", None)), task=tm.tid)
        if expect is not None:
            return self.stat("finished_op_refused")
        tm.user_pauses += 1
        self.stat("pauses")
        if tm.waiting is not None:
            self.stat("pause_while_waiting")

    def op_resume(self, tm, op, where):
        if tm.user_pauses == 0:
            if tm.done is not None or tm.waiting is not None:
                return  # don't-care inputs (see module docstring)
            got = self.call("resume", tm.handle.resume)
            self.events.append(("resume", tm.tid, where, got.__name__ if got else None))
            if got is not self.task.NotPaused:
                return self.fail("wrong-exception", "resume() on never-paused task %d raised %s, expected NotPaused"
                                 % (tm.tid, getattr(got, "__name__", None)), task=tm.tid)
            return self.stat("not_paused_raised")
        tm.user_pauses -= 1
        self.became_runnable(tm)
        got = self.call("resume", tm.handle.resume)
        self.events.append(("resume", tm.tid, where, got.__name__ if got else None))
        self.stat("resumes")
        if got is not None:
            self.fail("wrong-exception", "resume() matching an earlier pause() of task %d raised %s" % (tm.tid, got.__name__), task=tm.tid)

    def op_uresume(self, tm, op, where):
        """resume() that no pause() of ours matches, on a live task waiting on a Deferred.  What the call
        itself does is not judged (NotPaused would be the documented answer); judged is the statement:
        the task must not be advanced while that Deferred is unfired."""
        if tm.user_pauses or tm.done is not None or tm.waiting is None:
            return
        # if the implementation takes it for the end of its own wait, the real task and the model differ from here on
        # (set before the call: accepting it on a stopped Cooperator completes the task synchronously)
        tm.unmatched = tm.orphan = True
        got = self.call("resume", tm.handle.resume)
        self.events.append(("unmatched-resume", tm.tid, where, got.__name__ if got else None))
        self.stat("unmatched_resumes_while_waiting")
        self.stat("unmatched_resume_outcome_%s" % (got.__name__ if got else "accepted"))
        if got is not None:
            tm.unmatched = tm.orphan = False

    def op_stop(self, tm, op, where):
        expect = self.finish_kind(tm) if tm.done is not None else None
        if expect is None:
            self.set_done(tm, "stopped")
            if tm is not None and where == "next":
                self.stat("stops_inside_next")
        got = self.call("stop", tm.handle.stop)
        self.events.append(("stop", tm.tid, where, got.__name__ if got else None))
        if got is not expect:
            return self.fail("wrong-exception", "stop() on task %d (model before: %s) raised %s, expected %s"
                             % (tm.tid, "live" if expect is None else tm.done, getattr(got, "__name__", None),
                                getattr(expect, "__name__", None)), task=tm.tid)
        if expect is not None:
            self.stat("finished_op_refused")

    def op_whendone(self, tm, op, where):
        if tm.handle is None:
            return
        rec = {"fired": []}
        tm.recs.append(rec)
        was_done = tm.done is not None
        d = tm.handle.whenDone()
        d.addBoth(self.on_completion, tm, rec, op[2])
        self.events.append(("whendone", tm.tid, where))
        if was_done and not self.bad:
            if len(rec["fired"]) != 1:
                self.fail("whendone-after-completion-not-fired", "whenDone() on finished task %d did not fire at once" % tm.tid, task=tm.tid)
            else:
                self.stat("whendone_after_completion")

    def op_fire(self, k, ok):
        if not self.outstanding:
            return
        tm, fire, d, preset = self.outstanding.pop(k % len(self.outstanding))
        exc = None
        if preset is not None:
            ok, exc = preset
        elif not ok:
            exc = Boom("deferred of task %d" % tm.tid)
        self.events.append(("fire" if fire is not None else "unpause", tm.tid, ok))
        was_waiting = tm.waiting is d
        if was_waiting:
            tm.waiting = None
        if ok:
            if was_waiting:
                self.became_runnable(tm)
        elif was_waiting:
            self.set_done(tm, "failed", exc)
        try:
            if fire is None:
                d.unpause()
            elif ok:
                fire.callback(None)
            else:
                fire.errback(exc)
        except Exception as e:  # noqa: BLE001
            return self.fail("unexpected-exception", "firing a yielded Deferred raised %s: %s" % (type(e).__name__, e))
        from twisted.python.failure import Failure

        if isinstance(d.result, Failure) and not tm.orphan and was_waiting:  # (not waiting: the Cooperator never owned it)
            f = d.result
            d.addErrback(lambda _: None)
            if tm.done == "stopped" and was_waiting and not ok and f.type.__name__ == "AlreadyCalledError":
                self.fail("stopped-while-waiting-then-deferred-fails", "task %d was stop()ped while waiting on a Deferred; when that "
                          "Deferred failed the task was completed a second time: AlreadyCalledError inside the Deferred" % tm.tid,
                          soft=True, task=tm.tid)
                tm.orphan = True  # its real completion state flipped to TaskFailed; ignore it from here on
                return
            self.fail("yielded-deferred-left-with-failure", "after firing (%s) the Deferred yielded by task %d (model: %s) holds %s: %s"
                      % ("ok" if ok else "failure", tm.tid, tm.done, f.type.__name__, f.getErrorMessage()), task=tm.tid,
                      exception=f.type.__name__)
        else:
            d.addErrback(lambda _: None)

    def op_cstop(self, where):
        running = [t for t in self.tasks if t.live_runnable()]
        self.events.append(("cstop", where, [t.tid for t in running]))
        self.coop_stopped = True
        for t in running:
            self.set_done(t, "sched_stopped")
        if len(running) >= 2:
            self.stat("coop_stops_with_2plus_running")
        self.stopping = {t.tid for t in running}
        try:
            got = self.call("stop", self.coop.stop)
        finally:
            self.stopping = None
        if got is not None:
            return self.fail("unexpected-exception", "Cooperator.stop() raised %s" % got.__name__)
        left = [t for t in running if not t.recs[0]["fired"]]
        if left:
            done = [t.tid for t in running if t.recs[0]["fired"]]
            # causal signature of the known defect: >= 2 tasks in the running set, the walk over the
            # mutating list completed some of them and skipped others
            key = "cooperator-stop-skips-tasks" if len(running) >= 2 and done else "cooperator-stop-did-not-complete-task"
            self.fail(key, "Cooperator.stop() with running tasks %s completed only %s; %s keep an unfired whenDone()"
                      % ([t.tid for t in running], done, [t.tid for t in left]), soft=(key == "cooperator-stop-skips-tasks"),
                      running=[t.tid for t in running], completed=done, skipped=[t.tid for t in left])
            self.orphaned_in_tick = self.in_tick
            for t in left:
                t.orphan = True
            self.stat("orphaned_tasks", len(left))

    def settle_check(self, after):
        """At the end of a top-level operation every finished task's completion Deferreds have fired."""
        if self.bad:
            return
        for tm in self.tasks:
            if tm.orphan:
                continue
            for rec in tm.recs:
                n = len(rec["fired"])
                if tm.done is not None and n != 1:
                    return self.fail("completion-not-fired", "task %d finished (%s) but a completion Deferred fired %d times after %r"
                                     % (tm.tid, tm.done, n, after), task=tm.tid)
                if tm.done is None and n:
                    return self.fail("completion-before-finish", "task %d unfinished in the model, completion Deferred fired" % tm.tid,
                                     task=tm.tid)

    # ---- whole case
    def run(self):
        for op in self.case["ops"]:
            if self.bad:
                break
            self.do_op(op)
        if not self.bad:
            self.drain()
        for _, fire, d, _ in self.outstanding:  # (only after a violation cut the case short)
            if fire is None:
                try:
                    d.unpause()
                except Exception:  # noqa: BLE001
                    pass
        for d in self.yielded:  # Deferreds the Cooperator never owned (task finished during that next()) may hold a failure
            d.addErrback(lambda _: None)
        return self

    def drain(self):
        self.stat("drains")
        if not self.coop_started:
            self.do_op(["cstart"])
        ticks = 0
        for _ in range(5000):
            if self.bad:
                return
            n = len(self.tasks)  # recomputed every round: operations run from iterators may add tasks during the drain
            budget = sum(len(t.prog["steps"]) + t.prog.get("tail", 0) + 1 for t in self.tasks) + n * n + 10
            progress = False
            while self.outstanding and not self.bad:
                self.do_op(["fire", 0, True])
                progress = True
            for i, t in enumerate(self.tasks):
                while t.user_pauses > 0 and t.handle is not None and not t.orphan and not self.bad:
                    self.do_op(["resume", i])
                    progress = True
            t = self.pending_tick
            if t is not None and not t.cancelled and not t.called and not self.bad:
                ticks += 1
                if ticks > budget:
                    return self.fail("starved-at-drain", "tasks still unfinished after %d drain ticks (budget %d)" % (ticks, budget),
                                     unfinished=[x.tid for x in self.tasks if x.done is None and not x.orphan])
                self.do_op(["tick"])
                progress = True
            if not progress:
                break
        if self.bad:
            return
        left = [x.tid for x in self.tasks if x.done is None and not x.orphan]
        if left:
            self.fail("never-completed", "after the drain phase tasks %s are unfinished and no tick is scheduled" % left, unfinished=left)

    def nontrivial(self):
        s = self.stats
        return sum(1 for t in self.tasks if t.advanced) >= 2 and (
            s.get("pauses", 0) + s.get("done_stopped", 0) + s.get("deferred_waits", 0) + s.get("done_sched_stopped", 0)) >= 1


SELF_OPS = True


def run_case(ctx, case):
    m = Monitor(ctx, case).run()
    for k, v in m.stats.items():
        ctx.count(k, v)
    ctx.evaluated()
    if m.nontrivial():
        ctx.distinct(repr(case))
    return m


def run(ctx):
    from vf.engines.logcap import LogCapture

    with LogCapture() as cap:
        for n, i in enumerate(ctx.cases(10000, 400000)):
            rng = ctx.case_rng("case", i)
            case = gen_case(rng, SELF_OPS)
            n0 = len(cap.events)
            m = run_case(ctx, case)
            if i < 2 * ctx.nshards:
                ctx.sample({"case": case, "events": m.events[:60]})
            fl = [e for e in cap.events[n0:] if e.get("log_failure") is not None]
            if fl and not m.bad:
                f = fl[0]["log_failure"]
                m.fail("logged-failure", "a failure was logged during the case: %s: %s" % (getattr(f.type, "__name__", "?"), f.getErrorMessage()[:200]))
            del m
            if n % 200 == 199:
                gc.collect()
                fl = [e for e in cap.events if e.get("log_failure") is not None]
                if fl:
                    f = fl[0]["log_failure"]
                    ctx.violation("logged-failure-late", "a failure was logged (found at GC) during the last 200 cases: %s"
                                  % f.getErrorMessage()[:200], {"around_case_index": i, "traceback": f.getTraceback()[-1500:]})
                del cap.events[:]


def replay(ctx, w):
    run_case(ctx, w["witness"]["case"])
