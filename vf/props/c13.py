"""C13 callFromThread runs each call once, in the reactor thread, in per-thread order; idle wake-up.

Engine E6 x E5: one subprocess per real reactor class (select, poll, epoll, asyncio).  Inside,
K producer threads each issue M calls `reactor.callFromThread(record, tid, seq)` with seeded
micro-pauses while `sys.monitoring` LINE events inject GIL yields inside `callFromThread`,
`runUntilCurrent`, `wakeUp` and the waker (nowhere else).  Every k-th call, when it runs, issues a
further call re-entrantly from the reactor thread (pseudo-thread "R"), and every 5th of those issues
yet another one while it runs (nested re-entrancy; the last "R" call is found by a sentinel that goes
round again as long as new calls were issued behind it).  About 4 % of the calls RAISE
(PlannedFailure, after recording themselves; the reactor's logged failure is whitelisted), and so
does every second thread's last call, which is alone in its batch: a failing call must still count
as run exactly once and must not disturb its neighbours.  The argument shape of the calls of one
thread alternates per call (positional only / keyword only / both / none via functools.partial).

Monitor (log appended under a lock, in practice always from the reactor thread): (tid, seq,
executing thread ident).  Oracle, evaluated once the per-thread *sentinel* calls have run (a
sentinel is the last call of its thread, so by the per-thread order guarantee everything issued
before it must have run; no clock is involved in deciding that a call is lost):

* every planned (tid, seq) executed exactly once, nothing else executed;
* every execution happened in the thread that runs the reactor;
* per tid the executed seq are strictly increasing.

Idle phase (the only wall-clock verdict of the suite, DESIGN C13): the harness's ticker is gone, the
reactor has no timers and no I/O; a thread sleeps 0.2 s, then issues one call and waits for it; a
call not run within IDLE_BOUND_S = 10 s is a missed wake-up.  During the burst rounds a 50 ms ticker
keeps the reactor turning so that a broken wake-up cannot stall the exactly-once/order verdicts
(they are decided independently of promptness).

Idle burst phase (same bound, same key): still no ticker/timers/I/O; 240 (quick) repetitions of K in
{2,4,8} threads released together by a barrier, each issuing 1-3 calls with yield injection inside
callFromThread/wakeUp - a wake-up that only one of several racing callers is supposed to perform
must not get lost.  Shutdown phase: reactor.stop() is called with the shutdown held open by a
"before shutdown" trigger returning a Deferred; the loop is still running ("while a reactor runs"),
threads keep issuing calls, each must run within the idle bound, exactly once, in order; finally
the Deferred is fired through callFromThread itself and the reactor must exit.
Guards: cross-thread order is NOT constrained; batch boundaries are evidence only; a round whose
sentinels do not arrive within the watchdog, a subprocess timeout or a missing reactor type are
INCONCLUSIVE.
"""
import functools
import hashlib
import random
import threading
import time

LEVEL = "exploration"
ENGINE = "E6-reactorproc+E5-threads"
TECHNIQUE = "runtime monitoring: exactly-once / reactor-thread / per-thread FIFO check of a recorded execution log on real reactors with injected yields"
RULE = ("one case = one burst round (reactor class, K producer threads, M calls each, yield probability, "
        "seed) executed on a real reactor in a subprocess with LINE-event yield injection; distinct by "
        "(reactor, K, M, p, batch-size sequence observed at runUntilCurrent) - the batch-size sequence is "
        "the interleaving actually produced; non-trivial = at least K*M calls executed with more than one "
        "batch.  Plus one idle phase of 20 isolated calls per subprocess.")
ASSUMPTIONS = [
    "interleavings are those produced by the OS scheduler plus statement-level yield injection; they are not enumerated",
    "idle wake-up bound 10 s is the only wall-clock verdict; all other time-outs are inconclusive",
    "trusted base: CPython threading/sys.monitoring, vf.engines.reactorproc, vf.engines.threads",
]
SHARDS = {"quick": 4, "thorough": 16}
FLOORS = {
    "quick": {"calls_executed": 4 * 9000, "idle_calls_measured": 4 * 20, "rounds_decided": 16, "yields_injected": 2000, "reentrant_calls_executed": 100, "raising_calls_executed": 1000, "nested_reentrant_calls_executed": 300, "calls_with_keyword_arguments": 10000, "asyncio_reactor_rounds": 4,
              "idle_burst_calls_measured": 4 * 400, "shutdown_calls_measured": 4 * 16},
    "thorough": {"calls_executed": 100000, "idle_calls_measured": 4 * 20, "rounds_decided": 16, "yields_injected": 10000, "reentrant_calls_executed": 500, "raising_calls_executed": 2000, "nested_reentrant_calls_executed": 1000, "calls_with_keyword_arguments": 20000, "asyncio_reactor_rounds": 4,
                 "idle_burst_calls_measured": 4 * 400, "shutdown_calls_measured": 4 * 16},
}
WATCHDOG_S = {"quick": 600, "thorough": 3000}
READY = True

IDLE_BOUND_S = 10.0
IDLE_SLEEP_S = 0.2
IDLE_REPS = 20
ROUND_WATCHDOG_S = 60.0
R_WATCHDOG_S = 20.0
REENTRANT_EVERY = 17
SHAPES = ["pos", "kw", "pos", "both", "none", "kw", "kw", "pos"]  # per call: (seq + tid) % 8
NEST_EVERY = 5
RAISE_EVERY = 23


class PlannedFailure(Exception):
    """Raised on purpose by some recorded calls (logged by the reactor; whitelisted)."""


# ------------------------------------------------------------------------------------------ child
def scenario(reactor, inp):
    """Runs inside the reactor subprocess (vf.engines.reactorproc)."""
    from twisted.internet import base, _signals, asyncioreactor
    from vf.engines.threads import YieldInjector, code_objects_of

    codes = code_objects_of(
        base.ReactorBase.callFromThread, base.ReactorBase.runUntilCurrent, base.ReactorBase.wakeUp,
        _signals._UnixWaker.wakeUp, _signals._FDWaker.doRead,
        asyncioreactor.AsyncioSelectorReactor.callFromThread,
    )
    import sys

    sys.setswitchinterval(inp.get("switchinterval", 0.0002))  # finer preemption than the 5 ms default
    lock = threading.Lock()
    st = {"log": [], "rseq": 0, "reactor_ident": None, "in_batch": 0, "batches": [], "rid": 0, "stale": 0}
    result = {"rounds": [], "idle": None, "idle_burst": None, "shutdown": None, "problems": []}

    def record(rid, tid, seq):
        with lock:
            if rid != st["rid"]:
                st["stale"] += 1  # left over from an earlier round that was given up (already inconclusive)
                return False
            st["log"].append((tid, seq, threading.get_ident()))
            st["in_batch"] += 1
            return True

    def record_and_raise(rid, tid, seq):
        # a call that fails AFTER recording itself: it still counts as run exactly once; the reactor
        # logs the failure (whitelisted: PlannedFailure) and must carry on with the next call
        if record(rid, tid, seq):
            raise PlannedFailure("%s:%s" % (tid, seq))

    def record_and_spawn(rid, tid, seq):
        if not record(rid, tid, seq):
            return
        with lock:
            j = st["rseq"]
            st["rseq"] += 1
        reactor.callFromThread(record_r, rid, j)  # re-entrant: issued from the reactor thread

    def record_r(rid, j):
        # a re-entrantly issued call that (every NEST_EVERY-th) issues a further call itself
        if record(rid, "R", j) and j % NEST_EVERY == 2:
            with lock:
                k = st["rseq"]
                st["rseq"] += 1
            reactor.callFromThread(record_r, rid, k)

    # evidence only: number of our calls executed per runUntilCurrent() invocation
    real_ruc = reactor.runUntilCurrent

    def ruc_wrapper():
        with lock:
            st["in_batch"] = 0
        try:
            return real_ruc()
        finally:
            with lock:
                if st["in_batch"]:
                    st["batches"].append(st["in_batch"])

    reactor.runUntilCurrent = ruc_wrapper

    logged = {"planned": 0, "other": []}

    def observer(event):
        f = event.get("log_failure")
        if f is not None:
            with lock:
                if f.check(PlannedFailure):
                    logged["planned"] += 1
                elif len(logged["other"]) < 5:
                    logged["other"].append("%s: %s" % (getattr(f.type, "__name__", "?"), f.getErrorMessage()[:200]))

    from twisted.logger import globalLogPublisher

    globalLogPublisher.addObserver(observer)

    ticker = {"stop": False, "stopped": threading.Event(), "left": None}

    def tick():
        if ticker["stop"]:
            ticker["left"] = len(reactor.getDelayedCalls())
            ticker["stopped"].set()
            return
        reactor.callLater(0.05, tick)

    def producer(rid, tid, M, seed, go, sentinel, pace, pause_s, barrier, errors):
        rng = random.Random("%s:%s" % (seed, tid))
        go.wait()
        try:
            for seq in range(M):
                r = rng.random()
                if r < pace:
                    time.sleep(pause_s)
                elif r < 0.15:
                    time.sleep(0)
                if seq % REENTRANT_EVERY == 3:
                    fn = record_and_spawn
                elif seq % RAISE_EVERY == 5:
                    fn = record_and_raise
                else:
                    fn = record
                # the argument shape varies from call to call within one thread's sequence:
                # positional only / keyword only / both / none (a reactor must not treat them differently)
                shape = SHAPES[(seq + tid) % len(SHAPES)]
                if shape == "pos":
                    reactor.callFromThread(fn, rid, tid, seq)
                elif shape == "kw":
                    reactor.callFromThread(fn, rid=rid, tid=tid, seq=seq)
                elif shape == "both":
                    reactor.callFromThread(fn, rid, tid, seq=seq)
                else:
                    reactor.callFromThread(functools.partial(fn, rid, tid, seq))
        except BaseException as e:
            errors.append([tid, seq, "%s: %s" % (type(e).__name__, e)])  # list.append: atomic
        # The thread's LAST call (seq == M).  It is issued when the queue is quiet (all producers
        # done, staggered) so that even a reactor that drops calls racing with a drain is likely to
        # run it and the round can be DECIDED; for a correct reactor the pause changes nothing.
        try:
            barrier.wait(ROUND_WATCHDOG_S + 16 * M / 400.0)
        except threading.BrokenBarrierError:
            pass
        time.sleep(0.05 + 0.03 * tid)
        try:
            reactor.callFromThread(sentinel, tid)
        except BaseException as e:
            errors.append([tid, M, "%s: %s" % (type(e).__name__, e)])

    def run_round(rd):
        K, M, p, seed, pace = rd["K"], rd["M"], rd["p"], rd["seed"], rd.get("pace", 0.004)
        pause_s = rd.get("pause_s", 0.0005)
        with lock:
            st["rid"] += 1
            rid = st["rid"]
            st["log"] = []
            st["rseq"] = 0
            st["batches"] = []
        watchdog = ROUND_WATCHDOG_S + K * M / 400.0
        done = threading.Event()
        done_r = threading.Event()
        pending = {"n": K}

        def sentinel(tid):
            if not record(rid, tid, M):
                return
            pending["n"] -= 1  # reactor thread only
            if pending["n"] == 0:
                done.set()
                # last call of pseudo-thread R: issued after every spawner has run; from a timed
                # call, i.e. not while the thread-call queue is being drained (same reason as above)
                reactor.callLater(0.05, lambda: reactor.callFromThread(r_sentinel, st["rseq"]))
            if tid % 2 == 0:
                raise PlannedFailure("sentinel %s" % tid)  # a raising call that is the last (only) one of its batch

        def r_sentinel(seen_rseq):
            with lock:
                grown = st["rseq"] != seen_rseq or st["rid"] != rid
                j = st["rseq"]
                if not grown:
                    st["rseq"] += 1
            if st["rid"] != rid:
                return
            if grown:
                # nested calls were issued after this sentinel: it is not the last one, go round again
                reactor.callFromThread(r_sentinel, j)
            elif record(rid, "R", j):
                done_r.set()

        inj = YieldInjector(codes, p=p, seed=seed)
        go = threading.Event()
        barrier = threading.Barrier(K)
        errors = []
        threads = [threading.Thread(target=producer, args=(rid, t, M, seed, go, sentinel, pace, pause_s, barrier, errors), daemon=True) for t in range(K)]
        inj.start()
        try:
            for t in threads:
                t.start()
            go.set()
            for t in threads:
                t.join()
            complete = done.wait(5.0 if errors else watchdog)
            complete_r = complete and done_r.wait(R_WATCHDOG_S + K * M / 1000.0)
        finally:
            inj.stop()
        with lock:
            log = list(st["log"])
            batches = list(st["batches"])
            nspawn = st["rseq"]
        out = analyse(log, K, M, st["reactor_ident"])
        out.update({"K": K, "M": M, "p": p, "pace": pace, "seed": seed, "complete": bool(complete), "complete_r": bool(complete_r), "lines": inj.lines,
                    "yields": inj.yields, "n_batches": len(batches), "max_batch": max(batches or [0]),
                    "batch_sig": hashlib.blake2b(repr(batches).encode(), digest_size=8).hexdigest(),
                    "batch_head": batches[:40], "r_calls_issued": nspawn, "log_head": log[:12], "raised": errors[:10], "n_raised": len(errors)})
        return out

    def idle_phase():
        ticker["stop"] = True
        if not ticker["stopped"].wait(30):
            result["problems"].append("ticker did not stop")
            return None
        lat = []
        missed = None
        for rep in range(inp["idle_reps"]):
            time.sleep(IDLE_SLEEP_S)  # lets the reactor block in its wait with nothing to do
            ev = threading.Event()
            box = {}

            def idle_child(ev=ev, box=box):
                box["t"] = time.monotonic()
                box["ident"] = threading.get_ident()
                ev.set()

            def idle_record(rep=rep, ev=ev, box=box):
                if rep % 2:
                    # re-entrant call issued while the reactor is otherwise idle: it must not wait
                    # for an unrelated event either
                    reactor.callFromThread(idle_child)
                else:
                    idle_child()

            t0 = time.monotonic()
            try:
                reactor.callFromThread(idle_record)
            except BaseException as e:
                return {"raised": "%s: %s" % (type(e).__name__, e), "rep": rep}
            if not ev.wait(IDLE_BOUND_S):
                missed = {"rep": rep, "waited_s": round(time.monotonic() - t0, 3)}
                break
            lat.append(round(box["t"] - t0, 6))
            if box["ident"] != st["reactor_ident"]:
                result["problems"].append("idle call ran outside the reactor thread")
        return {"latencies": lat, "missed": missed, "timers_left_when_idle": ticker["left"],
                "readers": len(reactor.getReaders()), "writers": len(reactor.getWriters())}

    def nudge():
        """Harness-only escape hatch: wake the reactor without going through the code under test, so
        that a verdict already recorded can be reported although a wake-up was lost."""
        try:
            w = getattr(reactor, "waker", None)
            if w is not None:
                w.wakeUp()
            reactor.wakeUp()
        except BaseException:
            pass

    def simultaneous_calls(tag, rep, K, rng, seen_log):
        """K threads released together by a barrier, each issuing 1-3 calls to the (idle) reactor.
        Returns None when every call ran within the idle bound, else a description of the miss."""
        plan_ = [rng.randint(1, 3) for _ in range(K)]
        total = sum(plan_)
        ev = threading.Event()
        box = {"n": 0, "raised": None}
        barrier = threading.Barrier(K)

        def rec(tid, j):
            with lock:
                seen_log.append((tag, rep, tid, j, threading.get_ident()))
                box["n"] += 1
                if box["n"] >= total:
                    ev.set()

        def issuer(tid):
            try:
                barrier.wait(30)
            except threading.BrokenBarrierError:
                pass
            for j in range(plan_[tid]):
                try:
                    reactor.callFromThread(rec, tid, j)
                except BaseException as e:
                    box["raised"] = "%s: %s" % (type(e).__name__, e)

        threads = [threading.Thread(target=issuer, args=(t,), daemon=True) for t in range(K)]
        t0 = time.monotonic()
        for t in threads:
            t.start()
        for t in threads:
            t.join(60)
        if box["raised"]:
            return {"raised": box["raised"], "rep": rep, "K": K}
        if not ev.wait(IDLE_BOUND_S):
            with lock:
                n = box["n"]
            return {"rep": rep, "K": K, "calls_issued": total, "calls_run": n, "waited_s": round(time.monotonic() - t0, 3)}
        return None

    def check_small_log(seen_log, expected_n):
        """exactly once / reactor thread / per-thread order for the calls of the idle-burst and shutdown phases"""
        bad = []
        seen, last = {}, {}
        for tag, rep, tid, j, ident in seen_log:
            key = (tag, rep, tid, j)
            seen[key] = seen.get(key, 0) + 1
            if ident != st["reactor_ident"]:
                bad.append(["wrong-thread", list(key)])
            if last.get((tag, rep, tid), -1) >= j:
                bad.append(["order", list(key)])
            last[(tag, rep, tid)] = j
        bad += [["duplicated", list(k)] for k, v in seen.items() if v > 1]
        return bad[:10]

    def idle_burst_phase():
        """No ticker, no timers, no I/O: simultaneous calls from several threads to an idle reactor,
        with yield injection inside callFromThread/wakeUp."""
        rng = random.Random("burst:%s" % inp.get("burst_seed", 0))
        seen_log = []
        out = {"reps_done": 0, "calls": 0, "missed": None, "yields": 0, "timers": None}
        inj = YieldInjector(codes, p=0.5, seed=rng.randrange(2 ** 31))
        inj.start()
        try:
            for rep in range(inp.get("burst_reps", 0)):
                time.sleep(0.004 if rep % 10 else IDLE_SLEEP_S / 4)  # the reactor goes back to its blocking wait
                K = (2, 2, 4, 8)[rep % 4]
                miss = simultaneous_calls("burst", rep, K, rng, seen_log)
                if miss is not None:
                    out["missed"] = miss
                    break
                out["reps_done"] += 1
        finally:
            inj.stop()
        with lock:
            out["calls"] = len(seen_log)
            out["bad"] = check_small_log(seen_log, None)
        out["yields"] = inj.yields
        return out

    def shutdown_phase():
        """reactor.stop() with the shutdown held open by a 'before shutdown' trigger: the main loop
        is still running, so callFromThread must still wake it.  The trigger's Deferred is fired
        through callFromThread itself at the end."""
        from twisted.internet.defer import Deferred

        rng = random.Random("shutdown:%s" % inp.get("burst_seed", 0))
        hold = Deferred()
        stop_called = threading.Event()
        info = {}

        def install_and_stop():
            reactor.addSystemEventTrigger("before", "shutdown", lambda: hold)
            info["timers"] = len(reactor.getDelayedCalls())
            reactor.stop()
            stop_called.set()

        out = {"reps_done": 0, "calls": 0, "missed": None, "stop_requested": False, "timers": None, "released": False}
        reactor.callFromThread(install_and_stop)
        if not stop_called.wait(IDLE_BOUND_S):
            out["missed"] = {"rep": -1, "what": "the call that was to stop the reactor did not run"}
            return out
        out["stop_requested"] = True
        seen_log = []
        inj = YieldInjector(codes, p=0.3, seed=rng.randrange(2 ** 31))
        inj.start()
        try:
            for rep in range(inp.get("shutdown_reps", 0)):
                time.sleep(IDLE_SLEEP_S / 2 if rep < 4 else 0.01)
                miss = simultaneous_calls("shutdown", rep, (1, 1, 2, 4)[rep % 4], rng, seen_log)
                if miss is not None:
                    out["missed"] = miss
                    break
                out["reps_done"] += 1
        finally:
            inj.stop()
        out["timers"] = info.get("timers")
        with lock:
            out["calls"] = len(seen_log)
            out["bad"] = check_small_log(seen_log, None)
        # release the shutdown through the API under test
        time.sleep(0.05)
        try:
            reactor.callFromThread(hold.callback, None)
        except BaseException as e:
            out["release_raised"] = "%s: %s" % (type(e).__name__, e)
        if stopped.wait(IDLE_BOUND_S):
            out["released"] = True
        elif out["missed"] is None:
            out["missed"] = {"rep": "release", "what": "the call firing the shutdown trigger's Deferred did not run; the reactor never exited"}
        return out

    def driver():
        stop_in_progress = False
        try:
            for rd in inp["rounds"]:
                result["rounds"].append(run_round(rd))
            result["idle"] = idle_phase()
            if result["idle"] is not None and result["idle"].get("missed") is None and "raised" not in result["idle"]:
                result["idle_burst"] = idle_burst_phase()
                if result["idle_burst"]["missed"] is None:
                    stop_in_progress = True
                    result["shutdown"] = shutdown_phase()
        except BaseException as e:  # harness trouble -> inconclusive in the parent
            import traceback

            result["problems"].append("driver exception: " + "".join(traceback.format_exception(type(e), e, e.__traceback__))[-1200:])
        finally:
            try:
                if not stop_in_progress:
                    reactor.callFromThread(reactor.stop)
                # explicit nudge: with a broken wake-up the stop/release request would sit in the
                # queue forever and the verdict already recorded could not be reported
                time.sleep(0.05)
                nudge()
            except BaseException:
                pass
            if not stopped.wait(20):
                from vf.engines import reactorproc

                result["problems"].append("reactor could not be stopped through callFromThread")
                reactorproc.emit_and_exit(result, reactor)
            driver_done.set()

    def begin():
        st["reactor_ident"] = threading.get_ident()
        tick()
        threading.Thread(target=driver, daemon=True).start()

    stopped = threading.Event()
    driver_done = threading.Event()
    reactor.callWhenRunning(begin)
    reactor.run()
    stopped.set()
    if not driver_done.wait(120):  # the driver stores its last phase result after the reactor has exited
        result["problems"].append("driver thread did not finish")
    result["planned_failures_logged"] = logged["planned"]
    result["other_failures_logged"] = logged["other"]
    return result


def analyse(log, K, M, reactor_ident):
    """The oracle over one round's execution log [(tid, seq, ident)]; plan = K threads x (M calls +
    sentinel seq M) + pseudo-thread R with one call per spawner + its sentinel."""
    n0 = sum(1 for s in range(M) if s % REENTRANT_EVERY == 3) * K
    n_spawn = n0
    while True:  # calls R_j with j % NEST_EVERY == 2 issue one more call: least fixed point
        t = n0 + sum(1 for j in range(n_spawn) if j % NEST_EVERY == 2)
        if t == n_spawn:
            break
        n_spawn = t
    expected = {}
    for t in range(K):
        for s in range(M + 1):
            expected[(t, s)] = 0
    for j in range(n_spawn + 1):
        expected[("R", j)] = 0
    unexpected, wrong_thread, order = [], [], []
    last = {}
    for pos, (tid, seq, ident) in enumerate(log):
        key = (tid, seq)
        if key in expected:
            expected[key] += 1
        else:
            unexpected.append([tid, seq, pos])
        if ident != reactor_ident:
            wrong_thread.append([tid, seq, pos])
        prev = last.get(tid)
        if prev is not None and seq <= prev[0]:
            order.append({"tid": tid, "seq": seq, "pos": pos, "after_seq": prev[0], "after_pos": prev[1]})
        last[tid] = (seq, pos)
    lost = sorted((k for k, v in expected.items() if v == 0 and k[0] != "R"), key=repr)
    lost_r = sorted((k for k, v in expected.items() if v == 0 and k[0] == "R"), key=repr)
    dup = sorted(((k, v) for k, v in expected.items() if v > 1), key=repr)
    raising = sum(1 for (t, q), v in expected.items() if t != "R" and v and ((q < M and q % REENTRANT_EVERY != 3 and q % RAISE_EVERY == 5) or (q == M and t % 2 == 0)))
    kw_calls = sum(1 for (t, q), v in expected.items() if t != "R" and v and q < M and SHAPES[(q + t) % len(SHAPES)] in ("kw", "both"))
    return {"executed": len(log), "planned": len(expected), "raising_executed": raising, "kw_calls": kw_calls, "nested_reentrant_planned": n_spawn - n0, "reentrant_executed": sum(v for (t, _), v in expected.items() if t == "R"),
            "lost": [list(k) for k in lost[:10]], "n_lost": len(lost),
            "lost_r": [list(k) for k in lost_r[:10]], "n_lost_r": len(lost_r),
            "duplicated": [[list(k), v] for k, v in dup[:10]], "n_dup": len(dup),
            "unexpected": unexpected[:10], "n_unexpected": len(unexpected),
            "wrong_thread": wrong_thread[:10], "n_wrong_thread": len(wrong_thread),
            "order": order[:10], "n_order": len(order)}


# ----------------------------------------------------------------------------------------- parent
def plan(ctx):
    """[(job index, reactor, input)] for the whole tier (before sharding)."""
    from vf.engines.reactorproc import REACTORS

    reps = ctx.size(1, 5)
    scale = 1.0 if ctx.quick else max(0.02, min(1.0, ctx.size(100, 100) / 100.0))
    jobs = []
    for rep in range(reps):
        for ri, name in enumerate(REACTORS):
            rng = ctx.case_rng("job", rep, name)
            # pace = probability of a pause (pause_s) between two calls of a producer: fast producers
            # give few huge batches, slow ones many small batches (more drain/append races)
            if ctx.quick:
                shapes = [(1, 1500, 0.004, 0.0005), (4, 2000, 0.5, 0.002), (4, 1000, 0.004, 0.0005), (16, 250, 0.8, 0.004)]
            else:
                m = int(10000 * scale)
                shapes = [(1, m, 0.004, 0.0005), (4, m, 0.5, 0.002), (4, m, 0.004, 0.0005), (16, max(40, int(m * 0.3)), 0.8, 0.004), (16, m, 0.05, 0.0005)]
            rounds = [{"K": K, "M": max(40, M), "pace": pace, "pause_s": ps, "p": rng.choice([0.1, 0.25, 0.5]), "seed": rng.randrange(2 ** 31)} for K, M, pace, ps in shapes]
            jobs.append((rep * len(REACTORS) + ri, name, {"rounds": rounds, "idle_reps": IDLE_REPS, "burst_seed": rng.randrange(2 ** 31),
                                                          "burst_reps": 240 if ctx.quick else 800, "shutdown_reps": 16 if ctx.quick else 60}))
    return jobs


def judge(ctx, name, out):
    """Turn one subprocess's observations into counters / violations."""
    for pb in out.get("problems", []):
        ctx.inconclusive("C13 %s: %s" % (name, pb[-400:]))
    for rd in out.get("rounds", []):
        ctx.evaluated()
        base = {k: rd[k] for k in ("K", "M", "p", "pace", "seed", "executed", "planned", "n_batches", "max_batch", "batch_head", "yields")}
        base["reactor"] = name
        ctx.count("calls_executed", rd["executed"])
        ctx.count("reentrant_calls_executed", rd["reentrant_executed"])
        ctx.count("raising_calls_executed", rd["raising_executed"])
        ctx.count("calls_with_keyword_arguments", rd["kw_calls"])
        if name == "asyncio":
            ctx.count("asyncio_reactor_rounds")
        if rd["complete_r"] and not rd["n_lost_r"]:
            ctx.count("nested_reentrant_calls_executed", rd["nested_reentrant_planned"])
        ctx.count("yields_injected", rd["yields"])
        ctx.count("monitored_lines", rd["lines"])
        ctx.count("batches", rd["n_batches"])
        ctx.maxi("batch", rd["max_batch"])
        ctx.maxi("threads", rd["K"])
        ctx.seen("reactors", name)
        # order / duplicates / wrong thread are decided by what DID run, complete or not
        if rd["n_raised"]:
            ctx.violation("callfromthread-raised", "callFromThread raised in the issuing thread while the reactor was running (the call cannot run)",
                          dict(base, raised=rd["raised"], n=rd["n_raised"]))
        if rd["n_dup"]:
            ctx.violation("call-duplicated", "a callFromThread call ran more than once", dict(base, duplicated=rd["duplicated"], n=rd["n_dup"]))
        if rd["n_unexpected"]:
            ctx.violation("call-never-issued", "a call ran that no thread issued", dict(base, unexpected=rd["unexpected"]))
        if rd["n_wrong_thread"]:
            ctx.violation("ran-outside-reactor-thread", "a callFromThread call ran in a thread other than the reactor's", dict(base, calls=rd["wrong_thread"], n=rd["n_wrong_thread"]))
        if rd["n_order"]:
            ctx.violation("per-thread-order", "calls issued by one thread ran out of issue order", dict(base, inversions=rd["order"], n=rd["n_order"]))
        if not rd["complete"]:
            ctx.inconclusive("C13 %s: round K=%d M=%d did not reach its sentinels within its watchdog (%d/%d executed)" % (name, rd["K"], rd["M"], rd["executed"], rd["planned"]))
            continue
        ctx.count("rounds_decided")
        if rd["n_lost"]:
            ctx.violation("call-lost", "a callFromThread call issued before its thread's last call never ran", dict(base, lost=rd["lost"], n=rd["n_lost"]))
        if not rd["complete_r"]:
            ctx.inconclusive("C13 %s: round K=%d M=%d: last re-entrant call did not run within its watchdog" % (name, rd["K"], rd["M"]))
        elif rd["n_lost_r"]:
            ctx.violation("reentrant-call-lost", "a callFromThread call issued from the reactor thread (inside another such call) never ran",
                          dict(base, lost=rd["lost_r"], n=rd["n_lost_r"]))
        if rd["n_batches"] > 1:
            ctx.distinct((name, rd["K"], rd["M"], rd["p"], rd["pace"], rd["batch_sig"]))
        ctx.sample({"reactor": name, "K": rd["K"], "M": rd["M"], "p": rd["p"], "pace": rd["pace"], "executed": rd["executed"], "batches": rd["n_batches"],
                    "batch_head": rd["batch_head"][:20], "log_head": rd["log_head"], "yields": rd["yields"]}, limit=4)
    ctx.count("planned_failures_logged", out.get("planned_failures_logged", 0))
    for txt in out.get("other_failures_logged", []):
        ctx.count("unexpected_logged_failures")  # evidence only
        ctx.seen("unexpected_logged_failures", txt)
    idle = out.get("idle")
    if idle is None:
        ctx.inconclusive("C13 %s: idle phase not reached" % name)
        return
    if "raised" in idle:
        ctx.violation("callfromthread-raised", "callFromThread raised in the issuing thread while the reactor was running (the call cannot run)",
                      {"reactor": name, "phase": "idle", "raised": idle["raised"], "rep": idle["rep"]})
        return
    if idle["timers_left_when_idle"] or idle["writers"]:
        ctx.inconclusive("C13 %s: reactor was not idle in the idle phase: %r" % (name, idle))
        return
    ctx.count("idle_calls_measured", len(idle["latencies"]))
    if idle["latencies"]:
        ctx.maxi("idle_latency_ms_" + name, round(max(idle["latencies"]) * 1000, 3))
    if idle["missed"] is not None:
        ctx.violation("idle-wakeup-missed", "a call issued while the reactor was idle (no timers, no I/O) did not run within %.0f s" % IDLE_BOUND_S,
                      {"reactor": name, "phase": "idle, one thread", "missed": idle["missed"], "latencies_before": idle["latencies"]})
        return
    for phase, what in (("idle_burst", "calls issued simultaneously by several threads while the reactor was idle (no timers, no I/O)"),
                        ("shutdown", "calls issued while the reactor, after stop(), kept running its loop with the shutdown held open by a 'before shutdown' trigger")):
        ph = out.get(phase)
        if ph is None:
            ctx.inconclusive("C13 %s: %s phase not reached" % (name, phase))
            return
        ctx.count(phase + "_calls_measured", ph["calls"])
        ctx.count(phase + "_reps", ph["reps_done"])
        if phase == "idle_burst":
            ctx.count("yields_injected", ph["yields"])
        miss = ph["missed"]
        if miss is not None and "raised" in miss:
            ctx.violation("callfromthread-raised", "callFromThread raised in the issuing thread while the reactor was running (the call cannot run)",
                          {"reactor": name, "phase": phase, "raised": miss})
            return
        if miss is not None:
            ctx.violation("idle-wakeup-missed", "%s did not all run within %.0f s" % (what, IDLE_BOUND_S), {"reactor": name, "phase": phase, "missed": miss})
            return
        if ph.get("timers"):
            ctx.inconclusive("C13 %s: reactor had timers during the %s phase" % (name, phase))
        for kind, key in ph.get("bad", []):
            ctx.violation({"duplicated": "call-duplicated", "order": "per-thread-order", "wrong-thread": "ran-outside-reactor-thread"}[kind],
                          "a call of the %s phase broke exactly-once / reactor-thread / per-thread order" % phase, {"reactor": name, "phase": phase, "call": key})
    if not out["shutdown"].get("released"):
        ctx.inconclusive("C13 %s: reactor did not exit after the shutdown trigger was released" % name)


def run(ctx):
    from vf.engines import reactorproc

    mine = [(k, name, inp) for (k, name, inp) in plan(ctx) if ctx.owns(k)]
    timeout = 420 if ctx.quick else 1500
    outs = reactorproc.run_scenarios([(name, "vf.props.c13", inp) for (_, name, inp) in mine], timeout=timeout, max_parallel=4)
    for (k, name, inp), out in zip(mine, outs):
        if not reactorproc.fold_status(ctx, out, "C13 job %d" % k):
            continue
        ctx.count("subprocesses_completed")
        judge(ctx, name, out)


def replay(ctx, w):
    """Interleavings are not reproducible; re-run the same round shape on the same reactor."""
    from vf.engines import reactorproc

    x = w["witness"]
    name = x.get("reactor", "select")
    rd = {"K": x.get("K", 4), "M": x.get("M", 2000), "p": x.get("p", 0.25), "pace": x.get("pace", 0.06), "seed": x.get("seed", 1)}
    out = reactorproc.run_scenario(name, "vf.props.c13", {"rounds": [rd], "idle_reps": IDLE_REPS, "burst_reps": 240, "shutdown_reps": 16, "burst_seed": 1}, timeout=300)
    if reactorproc.fold_status(ctx, out, "C13 replay"):
        judge(ctx, name, out)
