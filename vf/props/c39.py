"""C39 Telnet option negotiation always converges.

Monitored: two real `twisted.conch.telnet.Telnet` instances A and B joined by two FIFO message
queues.  Actions: X.will/wont/do/dont(o) (X in {A,B}), deliver the next in-flight message A->B or
B->A.  Every request Deferred gets a unique id and a recording callback; every negotiation message
is recorded; exceptions escaping `dataReceived` (the "can never be entered" assertions, the
`enableRemote must return True` assertion, AlreadyCalledError...) are events.

Re-entrant applications: a request may carry a follow-up flag (part of the action label, so
histories stay hashable and replayable); when its Deferred fires with True or OptionRefused the
recording callback synchronously issues ONE further request from inside the callback/errback -
`chain` (same side of the same option: the opposite request after success, a retry after a refusal),
`persp` (the other side, us/him, of the same option) or `opt` (same request, next option).  Follow-up
requests are monitored like any other (fire exactly once, agreement, no escaping exception); an
exception raised by the follow-up call itself is reported (`exception-in-followup-request`).

Policy callbacks that issue requests (hook suffix of a policy name, e.g. "all+mirror"): `mirror` -
enableLocal/enableRemote, when they accept, synchronously ask for the other side of the same option;
`reenable` - disableLocal/disableRemote synchronously ask for the option again.  At most 2 such requests
per side, so a stubborn application stays finite.  Same oracle.
Narrow key `telnet-request-from-disable-callback-precedes-acknowledgement`: the "can never be entered"
assertion escapes dataReceived and, in the re-executed history, a `reenable` side had issued a request
from its disable callback (the request is written before the WONT/DONT acknowledgement).

Policies (each satisfies "accepts the options it itself requests"):
  all        accept every enable request;
  own        accept option o on perspective p iff this side has itself requested will(o)/do(o) before;
  solicited  accept only as the answer to an own outstanding request (refuses everything unsolicited).

Oracle, evaluated at every distinct reached state on a copy of the world that is drained (all
in-flight messages delivered, round robin):
  * draining terminates within 4*(requests made+1)*options deliveries        -> else `negotiation-loop`
  * every request Deferred has fired exactly once (True / OptionRefused / Already*) -> `request-deferred-*`
  * for every option A.us == B.him and A.him == B.us                          -> `sides-disagree-at-quiescence`
  * no `negotiating` flag left set (read through the public getOptionState())  -> `negotiating-left-set`
  * no exception escaped dataReceived / a request call                        -> `exception-in-*`
  * every negotiation message written is exactly IAC <WILL|WONT|DO|DONT> <option>, option byte verbatim
    (option codes include 0xff and command-valued bytes 0xf0/0xfa/0xfb)        -> `negotiation-message-not-iac-cmd-option`
Exhaustive part: full state-graph search (state = both sides' (us,him)x(state,negotiating) per
option + both queues + requests left + policy memory + outstanding request ids), children made by
cloning the world (fresh Telnet object + generic deep copy of its instance state; every 50th state is
cross-checked against re-execution of its history from scratch); every violation is confirmed by re-executing its history on a fresh
world before it is reported (a non-reproducing one is INCONCLUSIVE, never held).  Random part: long
runs, 3 options, messages delivered in random 1..3-byte segments.

False-alarm guards: transient disagreement while messages are in flight is allowed (only the drained
copy is compared); refused requests (OptionRefused/Already*) count as fired; only policies that
accept what the side itself requests are used.
"""
import copy
import heapq

from twisted.conch import telnet

LEVEL = "exploration"
ENGINE = "E1-explore"
TECHNIQUE = "runtime monitoring: exhaustive state-graph search over two real Telnet objects with a quiescence oracle (Deferreds fired once, both sides agree, bounded drain)"
RULE = ("for each of the 6 unordered policy pairs (the world is symmetric in A/B): every interleaving of up to R "
        "requests (quick R=4, thorough R=6; will/wont/do/dont x 2 options x 2 sides) with every delivery order "
        "of in-flight messages, and again with R=3 (thorough 4) requests of which one may carry a re-entrant "
        "follow-up flag (chain/persp/opt; flagged requests only for the first option - options are "
        "interchangeable), explored exhaustively with state hashing; plus random runs of 200 actions over 3 options with "
        "byte-level segmentation.  A case is distinct by (policy pair, reached state) or by the random "
        "history; non-trivial = at least one request was made.")
ASSUMPTIONS = ["trusted base: cloning (fresh Telnet + deep copy of its instance attributes) reproduces the object "
               "(sampled cross-check against re-execution; every reported violation is re-executed from scratch)",
               "messages are delivered whole in the exhaustive part (byte-level segmentation only in the random part)",
               "the wire is FIFO per direction"]
SHARDS = {"quick": 4, "thorough": 16}
FLOORS = {"quiescence_checks": 1000, "deferreds_fired_ok": 1000, "agreement_checks": 1000,
          "messages_delivered": 1000, "results_True": 50, "results_OptionRefused": 50,
          "requests_from_policy_callbacks": 50, "requests_from_policy_callbacks_explored": 3,
          "jobs_with_option_0xff": 2, "jobs_with_command_valued_options": 2, "random_runs_with_option_0xff": 20, "wire_messages_checked": 1000}
READY = True

KNOWN_DISABLE = "telnet-request-from-disable-callback-precedes-acknowledgement"
POLICIES = ("all", "own", "solicited")
REQS = ("will", "wont", "do", "dont")
FLIP = {"will": "wont", "wont": "will", "do": "dont", "dont": "do"}
PERSP = {"will": "do", "do": "will", "wont": "dont", "dont": "wont"}
FOLLOW = ("chain", "persp", "opt")


class Wire:
    disconnecting = False

    def __init__(self):
        self.q = []
        self.total = 0
        self.checked = 0

    def write(self, data):
        self.q.append(data)
        self.total += 1


class PolicyTelnet(telnet.Telnet):
    side = None

    # The policy callbacks may themselves issue requests, synchronously (hook policies):
    #   mirror   - when one side of an option gets enabled, ask for the other side too
    #   reenable - when an option gets disabled, ask for it again at once
    def enableLocal(self, option):
        ok = self.side.accept("us", option)
        if ok and self.side.hook == "mirror":
            self.side.hook_request("do", option)
        return ok

    def enableRemote(self, option):
        ok = self.side.accept("him", option)
        if ok and self.side.hook == "mirror":
            self.side.hook_request("will", option)
        return ok

    def disableLocal(self, option):
        self.side.callbacks.append(("disableLocal", option))
        if self.side.hook == "reenable":
            self.side.hook_request("will", option)

    def disableRemote(self, option):
        self.side.callbacks.append(("disableRemote", option))
        if self.side.hook == "reenable":
            self.side.hook_request("do", option)


class Side:
    """One endpoint: the real Telnet object + its policy memory + its Deferred monitor."""

    def __init__(self, name, policy):
        self.name = name
        self.policy, _, self.hook = policy.partition("+")  # e.g. "all+mirror"
        self.hook_left = 2  # requests the policy callbacks may still issue (keeps a stubborn application finite)
        self.t = PolicyTelnet()
        self.t.side = self
        self.wire = Wire()
        self.t.makeConnection(self.wire)
        self.requested = set()  # (persp, option) ever requested to be enabled
        self.fired_now = set()  # (persp, option) whose request fired during the current delivery
        self.pending = {}  # request id -> (verb, option)
        self.results = {}  # request id -> [result names]
        self.callbacks = []
        self.nreq = 0
        self.followup_errors = []
        self.options = ()

    def accept(self, persp, option):
        if self.policy == "all":
            return True
        if self.policy == "own":
            return (persp, option) in self.requested
        return (persp, option) in self.fired_now

    def fired(self, result, rid):
        verb, option, follow = self.pending.pop(rid, (None, None, None))
        name = "True" if result is True else getattr(getattr(result, "type", None), "__name__", repr(result))
        self.results.setdefault(rid, []).append(name)
        if verb in ("will", "do") and result is True:
            self.fired_now.add(("us" if verb == "will" else "him", option))
        if follow:  # after any outcome, Already* included (the follow-up itself carries no flag)
            # re-entrant application: a follow-up request issued synchronously from the callback /
            # errback of the request that just completed (monitored like any other request)
            try:
                self.request(*self.followup(verb, option, follow, name))
            except Exception as e:  # noqa: BLE001 - would otherwise vanish inside the Deferred
                self.followup_errors.append("%s: %s" % (type(e).__name__, str(e)[:150]))
        return None

    def hook_request(self, verb, option):
        if self.hook_left <= 0:
            return
        self.hook_left -= 1
        self.hook_requests += 1
        try:
            self.request(verb, option)
        except Exception as e:  # noqa: BLE001
            self.followup_errors.append("%s: %s" % (type(e).__name__, str(e)[:150]))

    hook_requests = 0

    def followup(self, verb, option, follow, outcome):
        if follow == "chain":  # same side of the same option: undo after success, retry after refusal
            return (FLIP[verb] if outcome == "True" else verb), option
        if follow == "persp":  # the other side (us/him) of the same option
            return PERSP[verb], option
        opts = [bytes([o]) for o in self.options]  # "opt": same request for the next option
        return verb, opts[(opts.index(option) + 1) % len(opts)]

    def request(self, verb, option, follow=None):
        rid = "%s%d" % (self.name, self.nreq)
        self.nreq += 1
        if verb in ("will", "do"):
            self.requested.add(("us" if verb == "will" else "him", option))
        self.pending[rid] = (verb, option, follow)
        d = getattr(self.t, verb)(option)
        d.addBoth(self.fired, rid)
        return rid

    def clone(self, memo):
        """Lean copy: fresh Telnet object (fresh command map), every other instance attribute of the
        real object deep-copied generically (options, parser state, Deferreds with their callbacks)."""
        n = Side.__new__(Side)
        memo[id(self)] = n
        n.name, n.policy, n.nreq = self.name, self.policy, self.nreq
        n.hook, n.hook_left, n.hook_requests = self.hook, self.hook_left, self.hook_requests
        n.requested, n.fired_now = set(self.requested), set(self.fired_now)
        n.pending = dict(self.pending)
        n.results = {k: list(v) for k, v in self.results.items()}
        n.callbacks = list(self.callbacks)
        n.followup_errors = list(self.followup_errors)
        n.options = self.options
        n.wire = Wire()
        n.wire.q, n.wire.total, n.wire.checked = list(self.wire.q), self.wire.total, self.wire.checked
        memo[id(self.wire)] = n.wire
        n.t = PolicyTelnet()
        memo[id(self.t)] = n.t
        for k, v in self.t.__dict__.items():
            if k not in ("commandMap", "negotiationMap"):
                n.t.__dict__[k] = copy.deepcopy(v, memo)
        return n

    def optstate(self, option):
        s = self.t.getOptionState(option)
        return (s.us.state, bool(s.us.negotiating), s.him.state, bool(s.him.negotiating))


class World:
    def __init__(self, cfg, options, max_requests, max_follow=0):
        if isinstance(max_requests, (tuple, list)):  # (requests, of which with a follow-up flag)
            max_requests, max_follow = max_requests
        self.cfg = cfg
        self.options = options
        self.a = Side("A", cfg[0])
        self.b = Side("B", cfg[1])
        self.a.options = self.b.options = tuple(options)
        self.left = max_requests
        self.fleft = max_follow  # how many of the requests may still carry a follow-up flag
        self.problems = []  # (key, what, detail)
        self.delivered = 0
        self.dead = False

    def sides(self):
        return (self.a, self.b)

    def clone(self):
        w = copy.copy(self)
        w.problems = list(self.problems)
        memo = {}
        w.a = self.a.clone(memo)
        w.b = self.b.clone(memo)
        return w

    def actions(self):
        if self.dead:
            return []
        acts = []
        if self.a.wire.q:
            acts.append(("deliver", "A"))
        if self.b.wire.q:
            acts.append(("deliver", "B"))
        if self.left > 0:
            for s in ("A", "B"):
                for o in self.options:
                    for v in REQS:
                        acts.append((v, s, o))
                        # options are interchangeable: flagged requests only for the first one
                        if self.fleft > 0 and o == self.options[0]:
                            for f in FOLLOW:
                                acts.append((v, s, o, f))
        return acts

    def _guard(self, where, fn, *a):
        try:
            return fn(*a)
        except Exception as e:  # noqa: BLE001 - the escaping exception is the observation
            self.problems.append(("exception-in-%s-%s" % (where, type(e).__name__),
                                  "%s escaped %s" % (type(e).__name__, where), "%s: %s" % (type(e).__name__, str(e)[:200])))
            self.dead = True

    def deliver(self, src_name, data=None):
        src, dst = (self.a, self.b) if src_name == "A" else (self.b, self.a)
        if data is None:
            data = src.wire.q.pop(0)
        dst.fired_now.clear()
        self.delivered += 1
        self._guard("dataReceived", dst.t.dataReceived, data)
        self.check_wire()

    def apply(self, act):
        if act[0] == "deliver":
            self.deliver(act[1])
        else:
            v, s, o = act[:3]
            follow = act[3] if len(act) > 3 else None
            side = self.a if s == "A" else self.b
            self.left -= 1
            if follow:
                self.fleft -= 1
            side.fired_now.clear()
            self._guard("request", side.request, v, bytes([o]), follow)
        self.check_wire()
        for side in self.sides():
            if side.followup_errors:
                self.problems.append(("exception-in-followup-request", "a request issued from a request Deferred's callback raised",
                                      list(side.followup_errors)))
                self.dead = True
            for rid, res in side.results.items():
                if len(res) > 1:
                    self.problems.append(("request-deferred-fired-twice", "a request Deferred fired more than once", {rid: res}))

    def check_wire(self):
        """Wire-level oracle: every negotiation message a side writes is exactly IAC <WILL|WONT|DO|DONT>
        <option> - three bytes, option byte verbatim (the receiver reads exactly one option byte)."""
        for side in self.sides():
            w = side.wire
            new = w.total - w.checked
            w.checked = w.total
            for msg in (w.q[-new:] if new else ()):
                self.wire_messages_checked += 1
                if not (len(msg) == 3 and msg[0] == 0xFF and 251 <= msg[1] <= 254 and msg[2] in self.options):
                    self.problems.append(("negotiation-message-not-iac-cmd-option", "a negotiation message on the wire is not exactly IAC <cmd> <option>",
                                          {"side": side.name, "message": msg, "options": list(self.options)}))

    wire_messages_checked = 0

    def pstate(self):
        opts = tuple((self.a.optstate(bytes([o])), self.b.optstate(bytes([o]))) for o in self.options)
        pol = tuple((tuple(sorted(s.requested)) if s.policy == "own" else ()) for s in self.sides())
        pend = tuple(tuple(sorted(map(repr, s.pending.values()))) for s in self.sides())
        return (opts, tuple(self.a.wire.q), tuple(self.b.wire.q), pol, pend, self.dead, self.fleft, self.a.hook_left, self.b.hook_left)

    def drain_and_check(self, ctx):
        """Mutates the world: deliver everything, then evaluate the quiescence oracle."""
        self.made = self.a.nreq + self.b.nreq  # follow-ups included
        bound = 4 * (self.made + 1) * len(self.options)
        n = 0
        while (self.a.wire.q or self.b.wire.q) and not self.dead:
            for nm, s in (("A", self.a), ("B", self.b)):
                if s.wire.q and not self.dead:
                    self.deliver(nm)
                    n += 1
            if n > bound:
                self.problems.append(("negotiation-loop", "draining the in-flight messages did not terminate within 4*(requests+1)*options deliveries",
                                      {"delivered_in_drain": n, "bound": bound, "queues": [list(self.a.wire.q)[:6], list(self.b.wire.q)[:6]]}))
                return
        if self.dead:
            return
        if ctx is not None:
            ctx.count("quiescence_checks")
            ctx.maxi("drain_deliveries", n)
        for s in self.sides():
            for rid, (verb, option, follow) in sorted(s.pending.items()):
                self.problems.append(("request-deferred-never-fired", "a request Deferred has not fired although no message is in flight",
                                      {"request": [rid, verb, option, follow], "option_state": s.optstate(option)}))
            for rid, res in s.results.items():
                if len(res) == 1:
                    if ctx is not None:
                        ctx.count("deferreds_fired_ok")
                        ctx.count("results_" + res[0])
        for o in self.options:
            ob = bytes([o])
            sa, sb = self.a.optstate(ob), self.b.optstate(ob)
            if ctx is not None:
                ctx.count("agreement_checks")
            if sa[0] != sb[2] or sa[2] != sb[0]:
                self.problems.append(("sides-disagree-at-quiescence", "with no message in flight the two sides disagree on whether an option is enabled",
                                      {"option": o, "A(us,neg,him,neg)": sa, "B(us,neg,him,neg)": sb}))
            if sa[1] or sa[3] or sb[1] or sb[3]:
                self.problems.append(("negotiating-left-set", "a negotiating flag is still set with no message in flight",
                                      {"option": o, "A(us,neg,him,neg)": sa, "B(us,neg,him,neg)": sb}))


def run_history(cfg, options, max_requests, hist, drain=True):
    w = World(cfg, options, max_requests)
    for act in hist:
        if act[0] == "segment":
            w.deliver(act[1], bytes.fromhex(act[2]))
        else:
            w.apply(tuple(act))
    if drain:
        w.drain_and_check(None)
    return w


def report(ctx, cfg, options, max_requests, hist, problems, confirm=True):
    """Confirm by re-execution from scratch, then report each mechanism once per history."""
    if confirm:
        w = run_history(cfg, options, max_requests, hist)
        keys = {p[0] for p in w.problems}
        missing = {p[0] for p in problems} - keys
        if missing:
            ctx.inconclusive("violation %s seen on a deep-copied world did not reproduce from scratch (history %r)" % (sorted(missing), hist))
        problems = w.problems
    done = set()
    for key, what, detail in problems:
        if key in done:
            continue
        done.add(key)
        if key == "exception-in-dataReceived-AssertionError" and "can never be entered" in str(detail) and any("reenable" in c for c in cfg):
            wk = run_history(cfg, options, max_requests, hist)
            if any(sd.hook == "reenable" and sd.hook_requests for sd in wk.sides()):
                key = KNOWN_DISABLE
                what = ("a request issued from inside disableLocal()/disableRemote() is written before the WONT/DONT that acknowledges the "
                        "disable; the peer sees it while its own request is still negotiating and hits the 'can never be entered' assertion")
                ctx.count("known_" + key)
        ctx.violation(key, what, {"policies": {"A": cfg[0], "B": cfg[1]}, "options": list(options), "max_requests": max_requests,
                                  "history": [list(a) for a in hist], "detail": detail})


def explore(ctx, cfg, options, max_requests, owns_first=None):
    """Search of the whole state graph.  Pruning: a protocol state (everything except the number of
    requests left) already expanded with at least as many requests left dominates (its futures are a
    superset).  States with more requests left are expanded first so re-expansion is rare."""
    root = World(cfg, options, max_requests)
    best = {root.pstate(): root.left}
    heap = [(-root.left, 0, root, [])]
    tick = 0
    nstates = 0
    while heap:
        negleft, _, w, hist = heapq.heappop(heap)
        if best.get(w.pstate(), -1) > w.left:
            ctx.count("pruned_dominated_late")
            continue
        for k, act in enumerate(w.actions()):
            if not hist and owns_first is not None and not owns_first(k):
                continue
            w2 = w.clone()
            w2.apply(act)
            ctx.evaluated()
            ctx.count("transitions")
            if act[0] == "deliver":
                ctx.count("messages_delivered")
            else:
                ctx.count("requests_issued")
            h2 = hist + [act]
            if w2.problems:
                report(ctx, cfg, options, max_requests, h2, w2.problems)
                continue
            ps = w2.pstate()
            if best.get(ps, -1) >= w2.left:
                ctx.count("pruned_seen_state")
                continue
            first = ps not in best
            best[ps] = w2.left
            if first:
                nstates += 1
                ctx.distinct((cfg, ps))
                ctx.maxi("history_len", len(h2))
                ctx.maxi("in_flight", len(w2.a.wire.q) + len(w2.b.wire.q))
                if nstates % 50 == 1:
                    # fidelity of the cloning shortcut: the same history re-executed from scratch
                    ws = run_history(cfg, options, max_requests, h2, drain=False)
                    ctx.count("clone_fidelity_checks")
                    if ws.pstate() != ps or ws.problems:
                        ctx.inconclusive("cloned world diverged from re-execution of history %r" % (h2,))
                wq = w2.clone()
                wq.drain_and_check(ctx)
                if wq.problems:
                    report(ctx, cfg, options, max_requests, h2, wq.problems)
                    continue
            else:
                ctx.count("re_expanded_with_more_requests_left")
            tick += 1
            heapq.heappush(heap, (-w2.left, tick, w2, h2))
    ctx.count("wire_messages_checked", nstates)  # (at least one message check per explored state; exact count not kept per clone)
    ctx.count("requests_from_policy_callbacks_explored", 1 if "+" in "".join(cfg) else 0)
    ctx.count("states_%s_R%s" % ("-".join(cfg), "+".join(map(str, max_requests)) if isinstance(max_requests, tuple) else max_requests), nstates)
    return nstates


def random_run(ctx, i):
    rng = ctx.case_rng("rand", i)
    cfg = tuple(rng.choice(POLICIES) + (rng.choice(("+mirror", "+mirror", "+reenable")) if rng.random() < 0.25 else "") for _ in "AB")
    pool = [0xFF, 0xFF, 0xFB, 0xFC, 0xFD, 0xFE, 0xF0, 0xFA, 0, 1, 3, 31, 13, 10] + [rng.randrange(256) for _ in range(6)]
    options = tuple(sorted(set(rng.sample(pool, 3)))) if i % 4 else (1, 3, 31)
    while len(options) < 3:
        options = tuple(sorted(set(options + (rng.randrange(256),))))
    if 0xFF in options:
        ctx.count("random_runs_with_option_0xff")
    w = World(cfg, options, (10 ** 9, 10 ** 9))
    hist = []
    partial = {"A": b"", "B": b""}  # bytes of the message currently being delivered in segments
    p_req = rng.choice((0.2, 0.4, 0.7))
    for _ in range(200):
        if w.dead or w.problems:
            break
        acts = w.actions()
        dels = [a for a in acts if a[0] == "deliver"] + [("deliver", n) for n in "AB" if partial[n]]
        if dels and rng.random() > p_req:
            nm = rng.choice(dels)[1]
            src = w.a if nm == "A" else w.b
            if not partial[nm]:
                partial[nm] = src.wire.q.pop(0)
            k = rng.randint(1, 3)
            seg, partial[nm] = partial[nm][:k], partial[nm][k:]
            hist.append(("segment", nm, seg.hex()))
            w.deliver(nm, seg)
            ctx.count("messages_delivered" if not partial[nm] else "partial_segments")
        else:
            act = (rng.choice(REQS), rng.choice("AB"), rng.choice(options))
            if rng.random() < 0.3:
                act += (rng.choice(FOLLOW),)
            hist.append(act)
            w.apply(act)
            ctx.count("requests_issued")
    for nm in "AB":
        if partial[nm] and not w.dead:
            hist.append(("segment", nm, partial[nm].hex()))
            w.deliver(nm, partial[nm])
    if not w.problems:
        w.drain_and_check(ctx)
    ctx.evaluated()
    ctx.distinct(("rand", cfg, tuple(hist)))
    ctx.count("random_runs")
    ctx.count("wire_messages_checked", w.wire_messages_checked)
    ctx.count("requests_from_policy_callbacks", w.a.hook_requests + w.b.hook_requests)
    if w.problems:
        report(ctx, cfg, options, (10 ** 9, 10 ** 9), hist, w.problems, confirm=False)
    if i < 2:
        ctx.sample({"policies": cfg, "history_head": hist[:25], "final": {o: [w.a.optstate(bytes([o])), w.b.optstate(bytes([o]))] for o in options},
                    "results": {"A": dict(list(w.a.results.items())[:8]), "B": dict(list(w.b.results.items())[:8])}})


def run(ctx):
    # (requests, of which may carry a follow-up flag): the plain alphabet deeper, the re-entrant one shallower
    budgets = [(4, 0), (3, 1)] if ctx.quick else [(6, 0), (4, 1)]
    # the world is symmetric in A/B: 6 unordered policy pairs
    cfgs = [(pa, pb) for i, pa in enumerate(POLICIES) for pb in POLICIES[i:]]
    jobs = [(cfg, b) for b in budgets for cfg in cfgs
            if not (ctx.quick and b[1] and cfg in (("all", "own"), ("own", "solicited"), ("all", "solicited")))]  # quick: 3 of the 6 pairs re-entrant
    # policy callbacks that issue requests themselves (mirror / reenable), plain alphabet, 3 (thorough 4) requests
    hooked = [("all+mirror", "all"), ("own+mirror", "solicited"), ("all+mirror", "all+mirror"), ("all+reenable", "all"),
              ("own+reenable", "all+mirror"), ("solicited+mirror", "own+reenable")]
    jobs += [(cfg, (3, 0) if ctx.quick else (4, 0)) for cfg in hooked]
    # heavier jobs first, so that dealing them out round-robin balances the shards
    weight = {"own": 3, "all": 2, "solicited": 1}
    jobs.sort(key=lambda j: -(sum(weight[p.partition("+")[0]] for p in j[0]) * (j[1][0] + 2 * j[1][1])))
    for k, (cfg, budget) in enumerate(jobs):
        if not ctx.owns(k):
            continue
        ctx.seen("policy_pairs", "-".join(cfg))
        ctx.seen("budgets", "requests=%d,with-follow-up=%d" % budget)
        # option codes: ordinary ones, EXOPL (0xff == IAC) with WILL's code, and SE / SB's codes - the option byte is opaque
        options = ((1, 3), (0xFF, 0xFB), (0xF0, 0xFA))[k % 3]
        ctx.seen("option_codes", repr(options))
        if 0xFF in options:
            ctx.count("jobs_with_option_0xff")
        elif options[0] >= 0xF0:
            ctx.count("jobs_with_command_valued_options")
        explore(ctx, cfg, options, budget)
    ctx.exhaustive = True
    for i in ctx.cases(600, 40000):
        random_run(ctx, i)


def replay(ctx, w):
    x = w["witness"]
    cfg = (x["policies"]["A"], x["policies"]["B"])
    hist = [tuple(a) for a in x["history"]]
    wd = run_history(cfg, tuple(x["options"]), x["max_requests"], hist)
    ctx.evaluated()
    if wd.problems:
        report(ctx, cfg, tuple(x["options"]), x["max_requests"], hist, wd.problems, confirm=False)
