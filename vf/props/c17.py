"""C17 TLS memory-BIO layer delivers application bytes intact and terminates cleanly.

Runs under /usr/bin/python3 (3.11: the only interpreter with pyOpenSSL); keep 3.11 compatible.

Monitored objects: a real TLS client and server (`TLSMemoryBIOFactory`, both `BufferingTLSTransport`
with a harness clock and plain `TLSMemoryBIOProtocol`, TLS 1.3 and TLS 1.2) over the E2 in-memory
network; self-signed EC certificate generated once per process with the system `cryptography`;
the client context does no verification (service_identity is absent; verification is not C17).

Events per side (all at the API boundary): every application write with its bytes, `dataReceived`
bytes, `connectionLost` calls, `handshakeCompleted` (IHandshakeListener), producer pause/resume,
and the state of the underlying fake transport.  One internal read, as DESIGN prescribes: just
before each write, whether the layer still accepts it (`connected`, `disconnecting`/producer,
`_lostTLSConnection`).  That flag is kept honest by a cross-check: a side may refuse writes only
after it called loseConnection itself, after bytes the peer emitted at/after its own close were
delivered to it, or after its transport was lost.

Oracle, per direction X->Y, once the scheduler has drained everything:
  * received(Y) is a prefix of the accepted writes of X (no corruption, duplication, reordering);
  * it is *equal* when Y never called loseConnection/abort and no transport loss was injected (then
    only X's own loseConnection ends the stream, and everything written before it must arrive);
  * when both closed, Y gracefully (not the abort-by-design below) and X's own loseConnection() was
    effective (X was still accepting writes when it called it), everything X wrote before that call
    must arrive as well: a graceful closer keeps reading until the peer's close_notify;
  * exactly one connectionLost per application, nothing delivered after it;
  * both underlying transports end up closed (disconnecting / aborted / lost);
  * no refused write without cause; nothing logged as a failure.

Latitude / guards against false alarms:
  * when the receiver closed and the sender's loseConnection() came too late to be effective (or never
    came), only the prefix guarantee holds: bytes still in the sender's write aggregator or in flight
    when the receiver's close_notify is processed are legitimately dropped, as with TCP;
  * loseConnection before the side's handshake completed with no byte written is an abort by design
    (tls.py: loseConnection -> abortConnection): prefix guarantee only, in both directions;
  * zero-length writes carry nothing; injected transport loss gives prefix + exactly-once only;
  * `_PullToPush`'s cooperator is bound to the harness clock (one pull per tick).
"""
import sys

LEVEL = "exploration"
ENGINE = "E2-netsim"
TECHNIQUE = "runtime monitoring: per-direction byte-stream oracle (accepted writes vs delivered bytes) + exactly-once connectionLost over a scheduled in-memory network"
RULE = ("random sessions from (seed, index): protocol class (buffering/plain) and TLS version per side, write plans "
        "(0..200 KiB, many > 16 KiB records) issued in connectionMade / during / after the handshake, push and pull "
        "producers, ciphertext cut at arbitrary points (1-byte cuts during the handshake) with random interleaving of "
        "directions, clock ticks, transport backpressure, loseConnection by client / server / both at any step (also "
        "before and during the handshake), rare transport loss; 30 % of the sessions are 'coalesced flights': both "
        "sides write from connectionMade, one or both close before/while the handshake completes, and every delivery "
        "hands over the whole pending buffer (Finished + data + close alert in one dataReceived).  Distinct by (configuration, plan, schedule); "
        "non-trivial = the handshake completed on at least one side or a close raced it (counted).")
ASSUMPTIONS = [
    "pyOpenSSL 23 / OpenSSL 3.0 of the system interpreter is the TLS engine on both sides (trusted)",
    "certificate verification, ALPN and session resumption are not exercised",
    "the accepted-write flag reads three attributes of TLSMemoryBIOProtocol (DESIGN C17) and is cross-checked against events",
    "the simulated transport closes like TCP: after loseConnection() nothing more is delivered to that side",
]
SHARDS = {"quick": 4, "thorough": 16}
FLOORS = {"sessions_handshake_done": 1000, "bytes_compared": 20000000, "writes_before_handshake": 500, "close_before_handshake": 100,
          "close_before_handshake_with_data": 100, "close_during_transfer": 500, "complete_directions_checked": 1000,
          "producer_sessions": 500, "records_over_16k": 1000,
          # coalesced-flights family and the equality demanded although the receiver closed as well
          "coalesced_sessions": 500, "coalesced_both_closed_around_handshake_with_data": 150,
          "complete_demanded_receiver_closed_too": 400, "complete_demanded_sender_closed_before_handshake": 300}
READY = True
# Writes made after the writer's own loseConnection() (legal while its producer is registered) are outside the
# statement ("the bytes the peer wrote before its loseConnection").  Their loss is counted, not judged.
STRICT_WRITES_AFTER_CLOSE = False

_CTX = {}


def contexts():
    """(server context factory per version, client context factory per version), generated once."""
    if _CTX:
        return _CTX
    import datetime

    from cryptography import x509
    from cryptography.hazmat.primitives import hashes
    from cryptography.hazmat.primitives.asymmetric import ec
    from cryptography.x509.oid import NameOID
    from OpenSSL import crypto

    from twisted.internet import ssl

    key = ec.generate_private_key(ec.SECP256R1())
    name = x509.Name([x509.NameAttribute(NameOID.COMMON_NAME, u"vf.test")])
    now = datetime.datetime(2024, 1, 1)
    cert = (x509.CertificateBuilder().subject_name(name).issuer_name(name).public_key(key.public_key())
            .serial_number(1).not_valid_before(now).not_valid_after(now + datetime.timedelta(days=36500))
            .sign(key, hashes.SHA256()))
    pkey = crypto.PKey.from_cryptography_key(key)
    xcert = crypto.X509.from_cryptography(cert)
    # lowerMaximumSecurityTo excludes the named version itself (_getExcludedTLSProtocols): "TLSv1_3" = at most 1.2
    for ver, kw in (("1.3", {}), ("1.2", {"lowerMaximumSecurityTo": ssl.TLSVersion.TLSv1_3})):
        _CTX["server" + ver] = ssl.CertificateOptions(privateKey=pkey, certificate=xcert, **kw)
        _CTX["client" + ver] = ssl.CertificateOptions(**kw)  # no trust root: no verification
    return _CTX


# ------------------------------------------------------------------------------------------------
_ROT = bytes(range(256)) * 2
_PAT = {}


def stream_bytes(tag, start, n):
    """n bytes of the stream of side `tag` from stream offset `start`.  The stream is made of 251-byte
    blocks (251 is prime), block q being a run of consecutive byte values starting at a phase that
    depends on (side, q): a misplaced, repeated or missing stretch shows up at its first byte."""
    if tag not in _PAT:
        base = 17 if tag == "a" else 101
        _PAT[tag] = b"".join(_ROT[(base + 3 * q) % 256:][:251] for q in range((1 << 20) // 251 + 1))
    assert start + n <= (1 << 20)
    return _PAT[tag][start:start + n]


class _Call:
    def __init__(self, f, a, kw):
        self.f, self.a, self.kw = f, a, kw
        self.cancelled = self.called = False

    def cancel(self):
        self.cancelled = True

    def active(self):
        return not (self.cancelled or self.called)


class TickClock:
    """IReactorTime for the write aggregator and the pull-producer cooperator: a call scheduled during a
    tick runs in the next tick (task.Clock.advance(0) would loop for ever on a streaming cooperator)."""

    def __init__(self):
        self.ready = []
        self.ticks = 0

    def seconds(self):
        return float(self.ticks)

    def callLater(self, delay, f, *a, **kw):
        c = _Call(f, a, kw)
        self.ready.append(c)
        return c

    def advance(self, _=0):
        calls, self.ready = self.ready, []
        self.ticks += 1
        for c in calls:
            if not c.cancelled:
                c.called = True
                c.f(*c.a, **c.kw)
        return len(calls)


class Side:
    """One end: application protocol + its TLS wrapper + plan."""

    def __init__(self, sess, tag, rng):
        self.sess = sess
        self.tag = tag
        self.received = bytearray()
        self.lost = 0
        self.data_after_lost = 0
        self.hs = False
        self.writes = []  # (nbytes, accepted)
        self.offered = 0  # stream offset of the next byte the application will write
        self.accepted_len = 0
        self.accepted_before_close = None  # accepted_len at the moment this side called loseConnection
        self.close_called = False
        self.close_effective = False
        self.hs_at_close = False
        self.close_was_abort = False
        self.close_mark = None  # len(transport.written) when loseConnection was first called
        self.peer_close_seen = False  # bytes beyond the peer's close_mark were delivered to us
        self.refused_without_cause = None
        self.paused = False
        self.pauses = 0
        self.registered = None
        self.app = None
        self.tls = None
        # plan
        sizes = [0, 1, 5, 100, 1000, 4096, 16383, 16384, 16385, 20000, 32768, 40000, 65536, 100000, 200000]
        self.plan = [rng.choice(sizes) if rng.random() < 0.6 else rng.randint(1, 30000) for _ in range(rng.choice([0, 1, 2, 3, 4, 6, 8]))]
        while sum(self.plan) > 600000:
            self.plan.pop()
        self.early = rng.choice([0, 0, 1, 2]) if self.plan else 0  # writes issued from connectionMade
        self.use_sequence = rng.random() < 0.2
        self.producer = rng.choice([None, None, None, "push", "pull"])
        self.prod_chunks = [rng.choice([1, 100, 5000, 16384, 20000, 70000]) for _ in range(rng.randint(1, 5))] if self.producer else []
        self.prod_at = rng.randint(0, 3)

    def describe(self):
        return {"plan": list(self.plan), "early": self.early, "producer": self.producer, "prod_chunks": list(self.prod_chunks),
                "sequence": self.use_sequence}

    # ---- the monitored write ----
    def accepts(self):
        t = self.tls
        return bool(t.connected and not t._lostTLSConnection and not (t.disconnecting and t._producer is None))

    def write(self, n):
        data = stream_bytes(self.tag, self.offered, n)
        acc = self.accepts() and self.lost == 0
        if not acc and n and not (self.close_called or self.lost or self.peer_close_seen) and self.refused_without_cause is None:
            self.refused_without_cause = {"offset": self.offered, "n": n, "handshake_done": self.hs}
        if acc:
            # the accepted stream must be gap-free: re-base the pattern on accepted bytes only
            data = stream_bytes(self.tag, self.accepted_len, n)
            self.accepted_len += n
            if not self.hs and n:
                self.sess.ctx.count("writes_before_handshake")
            if n > 16384:
                self.sess.ctx.count("records_over_16k")
        self.writes.append((n, acc))
        self.offered += n
        tr = self.app.transport
        if tr is None:
            return
        if self.use_sequence and n > 2:
            tr.writeSequence([data[:1], data[1:n // 2], data[n // 2:]])
        else:
            tr.write(data)

    def lose(self):
        if self.close_called or self.lost:
            return False
        self.close_called = True
        # "effective": the layer was still accepting writes when the application asked to close, i.e. this side had
        # not yet processed the peer's close and its transport was up -- its close is a real TLS shutdown of its own
        self.close_effective = self.accepts() and self.lost == 0
        self.accepted_before_close = self.accepted_len
        self.producer_at_close = self.registered
        self.hs_at_close = self.hs
        self.close_mark = len(self.tls.transport.written)
        if not self.hs and self.accepted_len == 0:
            self.close_was_abort = True  # tls.py: loseConnection before the handshake with nothing buffered aborts
            self.sess.ctx.count("close_before_handshake")
        elif not self.hs:
            self.sess.ctx.count("close_before_handshake_with_data")
        else:
            self.sess.ctx.count("close_during_transfer")
        self.app.transport.loseConnection()
        return True

    # ---- producer interface (registered on the TLS transport by the application) ----
    def start_producer(self):
        if self.registered or self.lost or self.close_called or not self.prod_chunks:
            return False
        self.registered = self.producer
        self.paused = False
        self.sess.ctx.seen("producers", self.producer)
        self.app.transport.registerProducer(self, self.producer == "push")
        return True

    def produce(self):
        """One chunk, then unregister when exhausted."""
        if not self.registered:
            return False
        if self.prod_chunks:
            self.write(self.prod_chunks.pop(0))
        if not self.prod_chunks:
            self.registered = None
            if self.app.transport is not None and not self.lost:
                self.app.transport.unregisterProducer()
        return True

    def step_producer(self):
        if self.registered == "push" and not self.paused and not self.lost:
            return self.produce()
        return False

    def pauseProducing(self):
        self.paused = True
        self.pauses += 1

    def resumeProducing(self):
        self.paused = False
        if self.registered == "pull" and not self.lost:
            self.produce()

    def stopProducing(self):
        self.registered = None
        self.prod_chunks = []


def make_app(side):
    from zope.interface import implementer

    from twisted.internet.interfaces import IHandshakeListener
    from twisted.internet.protocol import Protocol

    @implementer(IHandshakeListener)
    class App(Protocol):
        def connectionMade(self):
            for _ in range(side.early):
                if side.plan:
                    side.write(side.plan.pop(0))

        def handshakeCompleted(self):
            side.hs = True

        def dataReceived(self, data):
            if side.lost:
                side.data_after_lost += 1
            side.received += data

        def connectionLost(self, reason):
            side.lost += 1
            side.lost_reason = reason
            side.registered = None

    return App()


class Session:
    def __init__(self, ctx, i):
        self.ctx = ctx
        self.i = i
        self.rng = ctx.case_rng("session", i)
        self.steps = []
        self.injected_loss = False

    def setup(self):
        from twisted.internet.protocol import Factory
        from twisted.protocols.tls import TLSMemoryBIOFactory, TLSMemoryBIOProtocol
        from vf.engines.netsim import Link

        rng = self.rng
        cx = contexts()
        self.clock = TickClock()
        self.ver_c = rng.choice(["1.3", "1.3", "1.2"])
        self.ver_s = rng.choice(["1.3", "1.3", "1.2"])
        self.a = Side(self, "a", rng)  # client
        self.b = Side(self, "b", rng)  # server
        self.plain = {}
        for side, key, is_client in ((self.a, "client" + self.ver_c, True), (self.b, "server" + self.ver_s, False)):
            side.app = make_app(side)
            f = TLSMemoryBIOFactory(cx[key], is_client, Factory.forProtocol(lambda app=side.app: app), clock=self.clock)
            self.plain[side.tag] = rng.random() < 0.35
            if self.plain[side.tag]:
                f.protocol = TLSMemoryBIOProtocol
            side.tls = f.buildProtocol(None)
        self.link = Link(self.a.tls, self.b.tls)
        self.la, self.lb = self.link.a, self.link.b
        self.params = {"client": dict(self.a.describe(), tls=self.ver_c, plain=self.plain["a"]),
                       "server": dict(self.b.describe(), tls=self.ver_s, plain=self.plain["b"])}
        self.closer = rng.choice(["a", "b", "both", "a", "b"])
        self.close_at = {"a": None, "b": None}
        nsteps = rng.randint(4, 60)
        for s in ("a", "b"):
            if self.closer in (s, "both"):
                self.close_at[s] = rng.choice([0, 1, 2, 3]) if rng.random() < 0.25 else rng.randint(0, nsteps)
        # "coalesced flights" family: both sides write from connectionMade, closes come before / while the handshake
        # completes, and every delivery hands over the whole pending buffer (a Finished message, application data and a
        # close alert arrive in ONE dataReceived call)
        self.coalesced = rng.random() < 0.3
        if self.coalesced:
            for side in (self.a, self.b):
                if side.early == 0 or not side.plan or not any(side.plan[:side.early]):
                    side.plan.insert(0, rng.choice([1, 47, 1000, 16384, 20000, 70000]))
                    side.early = max(1, side.early)
            self.closer = rng.choice(["a", "b", "both", "both"])
            for s in ("a", "b"):
                self.close_at[s] = rng.choice([0, 0, 1, 2, 4]) if self.closer in (s, "both") else None
            self.params = {"client": dict(self.a.describe(), tls=self.ver_c, plain=self.plain["a"]),
                           "server": dict(self.b.describe(), tls=self.ver_s, plain=self.plain["b"])}
        self.params["coalesced"] = self.coalesced
        self.nsteps = nsteps
        self.lose_at = rng.randint(0, nsteps) if rng.random() < 0.04 else None
        self.params.update(closer=self.closer, close_at=self.close_at, steps=nsteps, inject_loss_at=self.lose_at)
        self.link.connect(first=rng.choice(["a", "b"]))

    def lside(self, side):
        return self.la if side is self.a else self.lb

    def other(self, side):
        return self.b if side is self.a else self.a

    # ---- network ----
    def deliver(self, src, n):
        """Move up to n ciphertext bytes written by `src` to the other side."""
        ls = self.lside(src)
        dst = self.other(src)
        before = len(src.tls.transport.written) - src.tls.transport.pending()
        moved = self.link.deliver(ls, n)
        if moved and src.close_mark is not None and before + moved > src.close_mark:
            dst.peer_close_seen = True
        return moved

    def lose(self, ls, reason=None):
        """connectionLost the way abstract.FileDescriptor does it: a registered producer is stopped first."""
        if ls.lost:
            return
        t = ls.transport
        if t.producer is not None:
            p, t.producer = t.producer, None
            p.stopProducing()
        self.link.lose(ls, reason)

    def finish_close(self, ls):
        from twisted.internet import error
        from twisted.python import failure

        other = self.link.other(ls)
        if ls.transport.aborted:
            self.lose(ls, failure.Failure(error.ConnectionAborted()))
            self.lose(other, failure.Failure(error.ConnectionLost()))
            return
        guard = 0
        while ls.transport.pending() and not other.lost and not other.transport.disconnecting and guard < 10000:
            self.link.deliver(ls)
            guard += 1
        self.lose(ls)
        self.lose(other)

    def closes(self):
        """The simulator completes closes the way a TCP transport would."""
        did = False
        for side in (self.a, self.b):
            ls = self.lside(side)
            t = ls.transport
            if t.disconnecting and not ls.lost and (t.producer is None or t.aborted):
                # everything this side still had queued is flushed to the peer first (unless aborted)
                o = self.other(side)
                if not t.aborted and side.close_mark is not None and t.pending():
                    o.peer_close_seen = True
                self.finish_close(ls)
                did = True
        return did

    def piece(self):
        rng = self.rng
        if self.coalesced:
            return None
        hs = not (self.a.hs and self.b.hs)
        r = rng.random()
        if hs and r < 0.3:
            return rng.choice([1, 1, 2, 3, 5, 7, 64])
        if r < 0.2:
            return rng.randint(1, 40)
        if r < 0.5:
            return rng.randint(41, 5000)
        if r < 0.8:
            return rng.randint(5001, 70000)
        return None  # everything pending

    def step(self, k):
        rng = self.rng
        for s, side in (("a", self.a), ("b", self.b)):
            if self.close_at[s] == k and side.lose():
                self.steps.append(("lose", s))
        if self.lose_at == k and not self.la.lost:
            self.injected_loss = True
            self.steps.append(("transport-loss",))
            victim = rng.choice([self.la, self.lb])
            from twisted.internet import error
            from twisted.python import failure

            self.lose(victim, failure.Failure(error.ConnectionLost()))
            self.lose(self.link.other(victim), failure.Failure(error.ConnectionLost()))
            return
        r = rng.random()
        side = rng.choice([self.a, self.b])
        act = None
        if r < 0.40:
            n = self.piece()
            moved = self.deliver(side, n)
            if moved:
                act = ("deliver", side.tag, moved)
        elif r < 0.58:
            if side.plan and not side.lost:
                n = side.plan.pop(0)
                side.write(n)
                act = ("write", side.tag, n)
        elif r < 0.68:
            if side.producer and not side.registered and side.prod_chunks and side.prod_at <= k:
                if side.start_producer():
                    act = ("register", side.tag, side.producer)
            elif side.step_producer():
                act = ("produce", side.tag)
        elif r < 0.80:
            self.clock.advance(0)
            act = ("tick",)
        elif r < 0.86:
            t = self.lside(side).transport
            if t.producer is not None:
                if t.producer_paused:
                    t.sim_resume_producer()
                    act = ("net-resume", side.tag)
                else:
                    t.sim_pause_producer()
                    act = ("net-pause", side.tag)
        elif r < 0.90:
            if self.closes():
                act = ("close-completes",)
        else:
            # a burst: both directions fully, a few rounds (lets handshakes finish quickly)
            for _ in range(3):
                self.deliver(self.a, None)
                self.deliver(self.b, None)
            act = ("burst",)
        if act:
            self.steps.append(act)

    def drain(self):
        """Everything that can still happen, happens (bounded)."""
        for rnd in range(400):
            progress = bool(self.clock.advance(0))
            for side in (self.a, self.b):
                t = self.lside(side).transport
                if t.producer is not None and t.producer_paused:
                    t.sim_resume_producer()
                    progress = True
                if not side.lost and not side.close_called:
                    if side.plan:
                        side.write(side.plan.pop(0))
                        progress = True
                    if side.producer and not side.registered and side.prod_chunks:
                        progress = side.start_producer() or progress
                if side.step_producer():
                    progress = True
                if self.deliver(side, None):
                    progress = True
            if self.closes():
                progress = True
            if not progress:
                if self.la.lost and self.lb.lost:
                    return
                # nothing moves and the connection is still up: the planned closer(s) may have had nothing
                # left to do; if nobody has closed yet, let the planned closer close now
                pending = [s for s in ("a", "b") if self.closer in (s, "both") and not (self.a if s == "a" else self.b).close_called]
                if pending:
                    for s in pending:
                        side = self.a if s == "a" else self.b
                        if side.lose():
                            self.steps.append(("lose-final", s))
                    continue
                return
        self.ctx.inconclusive("session %d did not quiesce in 400 drain rounds" % self.i)

    def run(self):
        for k in range(self.nsteps):
            self.step(k)
        self.steps.append(("drain",))
        self.drain()

    # ---- verdicts ----
    def judge(self, cap):
        ctx = self.ctx
        a, b = self.a, self.b
        wit = {"session": self.i, "params": self.params, "steps": self.steps[-150:], "n_steps": len(self.steps)}
        if a.hs or b.hs:
            ctx.count("sessions_handshake_done")
        if a.producer or b.producer:
            ctx.count("producer_sessions")
        if self.coalesced:
            ctx.count("coalesced_sessions")
            if a.close_called and b.close_called and not (a.close_was_abort or b.close_was_abort) and not (a.hs_at_close and b.hs_at_close):
                ctx.count("coalesced_both_closed_around_handshake_with_data")
        ctx.seen("tls_versions", "%s/%s" % (self.ver_c, self.ver_s))
        if a.hs or b.hs or a.close_called or b.close_called:
            ctx.distinct((self.i, repr(self.params), repr(self.steps)))
        for x, y in ((a, b), (b, a)):
            expected = stream_bytes(x.tag, 0, x.accepted_len)
            got = bytes(y.received)
            ctx.count("bytes_compared", len(got))
            info = {"direction": "%s->%s" % (x.tag, y.tag), "accepted_len": x.accepted_len, "received_len": len(got),
                    "writes": x.writes[-20:], "sender_closed": x.close_called, "receiver_closed": y.close_called,
                    "sender_handshake_done": x.hs, "receiver_handshake_done": y.hs, "sender_abort": x.close_was_abort}
            if got != expected[:len(got)]:
                j = next((k for k in range(min(len(got), len(expected))) if got[k] != expected[k]), min(len(got), len(expected)))
                info.update(first_bad_offset=j, got=got[j:j + 16], expected=expected[j:j + 16])
                key = "more-bytes-than-written" if j >= len(expected) else "stream-corrupted"
                ctx.violation(key, "bytes delivered to an application are not a prefix of what its peer wrote", dict(wit, detail=info))
                continue
            excused = self.injected_loss or x.close_was_abort or y.close_was_abort
            if not excused and y.close_called and x.close_called and x.close_effective:
                # Both closed (the receiver gracefully: it had bytes buffered or its handshake was done, so it keeps reading
                # until the sender's close_notify).  What the sender wrote before its own, effective, loseConnection()
                # still has to arrive: "each application receives exactly the bytes the peer wrote before its loseConnection".
                ctx.count("complete_demanded_receiver_closed_too")
                if not x.hs_at_close:
                    ctx.count("complete_demanded_sender_closed_before_handshake")
                if len(got) < x.accepted_before_close:
                    info.update(missing_from=len(got), accepted_before_own_close=x.accepted_before_close,
                                sender_handshake_done_at_close=x.hs_at_close, receiver_abort=y.close_was_abort)
                    ctx.violation("bytes-lost-before-close", "both sides closed gracefully, yet an application did not get every byte its "
                                  "peer wrote before the peer's own loseConnection", dict(wit, detail=info))
                continue
            must_be_complete = not y.close_called and not excused
            if must_be_complete:
                ctx.count("complete_directions_checked")
                if len(got) != len(expected):
                    info["missing_from"] = len(got)
                    info["accepted_before_own_close"] = x.accepted_before_close
                    if x.accepted_before_close is not None and len(got) >= x.accepted_before_close:
                        # everything written before X's loseConnection arrived; the missing tail was written afterwards
                        # by/while a registered producer (tls.py accepts such writes: the close waits for unregisterProducer)
                        # The statement only promises "the bytes the peer wrote BEFORE its loseConnection": this is outside
                        # C17 and therefore only an observation (see findings/other-tls-...md), unless STRICT is set.
                        info["producer_at_close"] = x.producer_at_close
                        info["sender_buffering"] = not self.plain[x.tag]
                        key = "write-after-loseconnection-with-producer-lost" + ("-aggregated" if not self.plain[x.tag] else "")
                        what = ("bytes written after loseConnection() while a producer was still registered (accepted by write()) never "
                                "arrive: unregisterProducer() starts the TLS shutdown without flushing the write aggregator")
                        ctx.count("observed_" + key.replace("-", "_"))
                        if not STRICT_WRITES_AFTER_CLOSE:
                            continue
                    else:
                        key = "bytes-lost-before-close"
                        what = "the receiver never closed, yet it did not get every byte its peer wrote before loseConnection"
                    ctx.violation(key, what, dict(wit, detail=info))
        for s in (a, b):
            if s.lost != 1:
                ctx.violation("connectionlost-%s" % ("never" if s.lost == 0 else "twice"),
                              "an application did not get exactly one connectionLost after the scheduler drained everything",
                              dict(wit, detail={"side": s.tag, "connectionLost_calls": s.lost}))
            if s.data_after_lost:
                ctx.violation("data-after-connectionlost", "dataReceived after connectionLost", dict(wit, detail={"side": s.tag}))
            if s.refused_without_cause:
                ctx.violation("write-refused-without-cause", "the TLS layer stopped accepting writes although neither side had closed, "
                              "no peer close had been delivered and the transport was up", dict(wit, detail=dict(s.refused_without_cause, side=s.tag)))
        for ls, s in ((self.la, a), (self.lb, b)):
            t = ls.transport
            if not (t.disconnecting or t.aborted or t.disconnected):
                ctx.violation("underlying-transport-left-open", "after everything drained an underlying transport is neither closing nor closed",
                              dict(wit, detail={"side": s.tag, "closer": self.closer}))
        for typ, msg in cap.failures():
            ctx.violation("logged-" + typ, "a failure was logged during the session", dict(wit, detail={"error": msg}))


class clock_cooperator:
    """Bind _PullToPush's cooperator to the session clock (one pull per tick)."""

    def __init__(self, sess):
        self.sess = sess

    def __enter__(self):
        from twisted.internet import _producer_helpers, task

        sess = self.sess
        self.mod = _producer_helpers
        self.saved = _producer_helpers.cooperate
        coop = task.Cooperator(terminationPredicateFactory=lambda: (lambda: True),
                               scheduler=lambda f: sess.clock.callLater(0, f))
        _producer_helpers.cooperate = coop.cooperate

    def __exit__(self, *a):
        self.mod.cooperate = self.saved
        return False


def run_session(ctx, i):
    from vf.engines.logcap import LogCapture

    s = Session(ctx, i)
    cap = LogCapture()
    with cap:
        with clock_cooperator(s):
            try:
                s.setup()
                s.run()
            except Exception as e:  # a reactor would log it and drop the connection; never "held"
                import traceback

                ctx.violation("exception-escaped-" + type(e).__name__, "an exception escaped from the TLS layer into the transport/reactor",
                              {"session": i, "params": getattr(s, "params", None), "steps": s.steps[-60:],
                               "traceback": "".join(traceback.format_exception(type(e), e, e.__traceback__))[-1500:]})
                ctx.evaluated()
                return
    s.judge(cap)
    ctx.evaluated()
    if i < 3:
        ctx.sample({"session": i, "params": s.params, "steps": s.steps[:40], "received": {"a": len(s.a.received), "b": len(s.b.received)},
                    "connectionLost": {"a": s.a.lost, "b": s.b.lost}})


def run(ctx):
    try:
        import OpenSSL  # noqa
        from twisted.protocols import tls  # noqa
        contexts()
    except Exception as e:  # no pyOpenSSL under this interpreter: never "held"
        ctx.inconclusive("TLS prerequisites missing under %s: %r" % (sys.executable, e))
        return
    import warnings

    warnings.filterwarnings("ignore", message=".*service_identity.*")
    for i in ctx.cases(3000, 150000):
        run_session(ctx, i)


def replay(ctx, w):
    contexts()
    run_session(ctx, w["witness"]["session"])
