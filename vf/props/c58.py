"""C58 ClientService keeps one connection and resolves every waiter — E1 exploration of the real service.

World: a real ClientService(endpoint, factory, retryPolicy, clock=task.Clock, prepareConnection)
over a fake endpoint whose connect() Deferreds the scheduler resolves, a fake transport, a retry
policy with a distinct, exactly representable delay per attempt count, and prepareConnection in one
of four modes (none / sync ok / sync raising on odd connections / Deferred fired by the scheduler).
(plus Deferreds that have already fired when prepareConnection returns them), and optionally an
endpoint that ignores cancellation (a cancelled attempt is later resolved with a connection or a
failure anyway), and optionally ('lostraises') an application protocol whose own connectionLost()
raises - the harness transport swallows that as a real transport logs it, and every obligation stays.  Actions: start, stop, whenConnected(None|1|2; 3 in the random walks), attempt ok/fail, drop connection i, prepare ok/fail,
advance the clock to the next timer / half way.  Every action is wrapped: any escaping exception
(automat NoTransition, RuntimeError ...) and any failure left in the attempt Deferred are events.

Monitors (all at the API boundary; internals are read only for the pruning hash):
 * at every endpoint.connect(): open connections (connected, not yet lost) + pending attempts == 0;
 * retries: after a failure/rejection/drop at time t with the service running, the next connect()
   happens exactly at t + policy(c); the count passed to the policy must be a possible number of
   consecutive failures (guards: a drop may or may not be counted as a failure; a stop/start may or
   may not reset the count - both readings are accepted, then the model follows the service; when
   the service itself is closing a rejected connection, the delay may start at that connection's
   loss instead of at the rejection; a connection lost while its prepareConnection Deferred is
   pending counts as a failed attempt with the loss reason);
 * every whenConnected Deferred fires at most once; with the protocol of the connection
   established (and prepared) in that action or still open and current; with the connection failure
   no earlier than its limit and no later than it; with CancelledError only when the service is not
   running; all outstanding ones are fired when a connection is established and when a stop
   completes without restart;
 * every stopService Deferred fires at most once, not while a connection/attempt that existed at
   the stop call is still alive, and no later than the action in which the last of them dies.
After the first violation a world is dead (no cascades; narrow keys from the causal signature).
"""
import gc

from vf.engines import explore
from vf.engines.logcap import LogCapture

LEVEL = "exploration"
ENGINE = "E1-explore"
TECHNIQUE = "runtime monitoring: connection/attempt census at connect(), clock-exact retry oracle, waiter and stop obligations, escaping exceptions"
RULE = ("exhaustive histories (DFS with state hashing over machine state, counters, outstanding Deferreds, clock "
        "queue and monitor state) up to depth 7 (quick; 6 for the synchronous-connect configurations, 6 for the late-resolution and 5 for the fired-prepare ones) / 11 (thorough) for each configuration "
        "prepare in {none, sync-ok, sync-raise-odd, deferred} x connect in {async, first connect fails synchronously, "
        "first connect succeeds synchronously}, for prepare Deferreds that are already fired (ok / failing on odd "
        "connections) and for endpoints that resolve a cancelled attempt anyway (late connection / late failure), plus a "
        "re-entrant-callback configuration; random histories of 300 "
        "actions.  Distinct = (configuration, history); non-trivial = history containing at least one connect().")
ASSUMPTIONS = ["trusted base: fake endpoint/transport/factory, the model of this module (about 150 lines)",
               "outside the 'late' configurations the endpoint honours cancellation (a cancelled attempt never produces a connection)",
               "waiter callbacks do not call back into the service except in the dedicated 're-entrant' configuration"]
SHARDS = {"quick": 4, "thorough": 16}
FLOORS = {"connects_checked": 2000, "retry_times_checked": 500, "waiter_fires_checked": 500, "stop_fires_checked": 500,
          "established": 500, "explore_states": 3000, "walk_actions": 2000,
          "late_resolutions": 200, "raising_application_connectionLost": 200, "fired_prepare_deferreds": 300, "limit_waiters_pending_at_restart": 100}
READY = True


def policy_delay(n):
    return 2.0 + 0.5 * n + n * n  # distinct per n, exact in binary floating point


class FakeTransport:
    def __init__(self, conn):
        self.conn = conn
        self.disconnecting = False

    def loseConnection(self):
        self.conn.closing = True
        self.disconnecting = True

    abortConnection = loseConnection

    def write(self, data):
        pass

    def writeSequence(self, seq):
        pass

    def getPeer(self):
        return None

    def getHost(self):
        return None


class Conn:
    def __init__(self, cid):
        self.id = cid
        self.open = True
        self.closing = False      # the service asked the transport to close
        self.prepare = "n/a"      # n/a | pending | ok | rejected | cancelled | lost-during-prepare
        self.prep_d = None
        self.proxy = None
        self.app = None
        self.transport = None
        self.current = False
        self.orphan = False       # made by an endpoint that ignored the cancellation of its attempt

    def tag(self):
        return (self.prepare, self.closing, self.current, self.orphan)


class AppLostBoom(Exception):
    """Raised by the application protocol's own connectionLost in the 'lostraises' configurations
    (a real transport logs it and carries on; the harness transport does the same)."""


class Attempt:
    def __init__(self, aid, d, factory):
        self.id = aid
        self.d = d
        self.factory = factory
        self.state = "pending"    # pending | ok | failed | cancelled
        self.trapped = False
        self.late = False         # a cancelled attempt that the endpoint resolved anyway


_FAKES = []
_TW = []


def _tw():
    if not _TW:
        from twisted.internet.error import ConnectionDone, ConnectionRefusedError
        from twisted.python.failure import Failure

        _TW.extend([ConnectionDone, ConnectionRefusedError, Failure])
    return _TW



def _fakes():
    if not _FAKES:
        from twisted.internet.protocol import Factory, Protocol

        class App(Protocol):
            boom = False

            def connectionLost(self, reason):
                if self.boom:
                    raise AppLostBoom("application protocol's connectionLost raises")

        class F(Factory):
            def buildProtocol(self, addr):
                p = App()
                p.boom = bool(self.world.cfg.get("lostraises"))
                self.world.last_app = p
                return p

        class Endpoint:
            def connect(self, factory):
                return self.world._connect(factory)

        _FAKES.extend([App, F, Endpoint])
    return _FAKES


class World:
    def __init__(self, ctx, cfg):
        from twisted.application.internet import ClientService
        from twisted.internet import defer, task

        self.ctx = ctx
        self.cfg = cfg
        self.defer = defer
        self.clock = task.Clock()
        self.dead = False
        self.history = []
        self.attempts = []
        self.conns = []
        self.nconnect = 0
        self.policy_calls = []
        self.sync_conns = []
        self.events = []
        self.fires = []           # (kind, record, value) produced during the current action
        self.swallowed = []
        self.waiters = []
        self.stops = []
        # model
        self.running = False
        self.ever_started = False
        self.start_pending = False
        self.c_set = frozenset([0])
        self.expected_retry = None   # frozenset of absolute times
        self.deferred_retry = None   # rejected connection being closed by the service; retry delay starts at its loss
        App, F, Endpoint = _fakes()

        def policy(n):
            self.policy_calls.append(n)
            return policy_delay(n)

        kw = {}
        if cfg["prepare"] != "none":
            kw["prepareConnection"] = self._prepare
        f = F()
        f.world = self
        ep = Endpoint()
        ep.world = self
        self.svc = ClientService(ep, f, retryPolicy=policy, clock=self.clock, **kw)

    # ---- fakes -----------------------------------------------------------------------------------
    def live(self):
        return [c for c in self.conns if c.open], [a for a in self.attempts if a.state == "pending"]

    def _connect(self, factory):
        self.nconnect += 1
        opened, pend = self.live()
        now = self.clock.seconds()
        self.ctx.count("connects_checked")
        if opened or pend:
            self._census_violation(opened, pend, "endpoint.connect() called")
        if self.expected_retry is not None:
            self.ctx.count("retry_times_checked")
            if now not in self.expected_retry:
                self.violation("retry-at-wrong-time", "a retry attempt did not start exactly at failure time + retryPolicy(consecutive failures)",
                               {"expected_times": sorted(self.expected_retry), "observed_time": now, "possible_failure_counts": sorted(self.c_set)})
            self.expected_retry = None
        elif self.start_pending:
            self.start_pending = False
        elif not self.dead:
            self.violation("unexpected-connect", "connect() that is neither the start of the service nor a due retry",
                           {"time": now, "model_running": self.running})
        a = Attempt(len(self.attempts) + 1, None, factory)
        mode = "async"
        if self.nconnect == 1 and self.cfg["connect"] in ("syncfail", "syncok"):
            mode = self.cfg["connect"]
        elif isinstance(self.cfg["connect"], list):
            mode = self.cfg["connect"][(self.nconnect - 1) % len(self.cfg["connect"])]
        self.attempts.append(a)
        if mode == "syncfail":
            ConnectionRefusedError = _tw()[1]
            a.state = "failed"
            a.exc = ConnectionRefusedError("sync refused %d" % a.id)
            self.events.append(("fail", a.exc, False, None))
            a.d = self.defer.fail(a.exc)
        elif mode == "syncok":
            c = self._make_conn(a)
            a.d = self.defer.succeed(c.proxy)
            self.sync_conns.append(c)
        else:
            def cancel(d, a=a):
                a.state = "cancelled"

            # an endpoint that ignores cancellation has no canceller: the Deferred then swallows its late result
            a.d = self.defer.Deferred() if self.cfg.get("late") else self.defer.Deferred(cancel)
        return a.d

    def _make_conn(self, a):
        c = Conn(len(self.conns) + 1)
        self.conns.append(c)
        a.state = "ok"
        a.conn = c
        c.proxy = a.factory.buildProtocol(None)
        c.app = self.last_app
        c.transport = FakeTransport(c)
        c.proxy.makeConnection(c.transport)
        return c

    def _prepare(self, proto):
        c = [x for x in self.conns if x.proxy is proto or x.app is proto]
        if not c:
            self.violation("prepare-unknown-protocol", "prepareConnection called with an unknown protocol", {})
            return None
        c = c[0]
        mode = self.cfg["prepare"]
        if mode == "sync-ok":
            c.prepare = "ok"
            return "ignored value"
        if mode == "sync-raise-odd":
            if c.id % 2 == 1:
                c.prepare = "rejected"
                c.exc = ValueError("rejected connection %d" % c.id)
                self.events.append(("fail", c.exc, self.start_pending, c))
                raise c.exc
            c.prepare = "ok"
            return None
        if mode in ("fired-ok", "fired-fail-odd"):   # a Deferred that has already fired when it is returned
            self.ctx.count("fired_prepare_deferreds")
            if mode == "fired-fail-odd" and c.id % 2 == 1:
                c.prepare = "rejected"
                c.exc = ValueError("rejected connection %d" % c.id)
                self.events.append(("fail", c.exc, self.start_pending, c))
                return self.defer.fail(c.exc)
            c.prepare = "ok"
            return self.defer.succeed("ignored value")
        c.prepare = "pending"

        def cancel(d, c=c):
            if c.prepare == "pending":
                c.prepare = "cancelled"

        c.prep_d = self.defer.Deferred(cancel)
        return c.prep_d

    # ---- reporting -------------------------------------------------------------------------------
    def violation(self, key, what, detail):
        if self.dead:
            return
        self.dead = True
        if not isinstance(self.ctx, _Quiet) and key not in self.ctx.violations and len(self.history) > 3:
            small = shrink(self.cfg, self.history, key)
            if len(small) < len(self.history):
                detail = dict(detail, shrunk_from=len(self.history))
                w = run_history(self.ctx, self.cfg, small)   # reports the same key with the short history
                if key in self.ctx.violations:
                    return
        w = {"config": self.cfg, "history": list(self.history), "time": self.clock.seconds(), "detail": detail,
             "connections": [{"id": c.id, "open": c.open, "prepare": c.prepare, "closing_requested_by_service": c.closing, "current": c.current} for c in self.conns],
             "attempts": [{"id": a.id, "state": a.state} for a in self.attempts], "machine_state": self.machine_state()}
        self.ctx.violation(key, what, w)

    def _leak_key(self, opened):
        """Narrow key from the fate of the open connections the service no longer tracks."""
        for c in opened:
            if c.orphan and not c.closing:
                return ("clientservice-cancelled-attempt-connects-anyway",
                        "an attempt cancelled by stopService produced a connection anyway (endpoint ignored the cancellation); the service built its protocol and left it open")
        for c in opened:
            if c.prepare == "rejected" and not c.closing:
                return "clientservice-rejected-connection-leaks", "a connection rejected by prepareConnection is left open"
        for c in opened:
            if c.prepare == "cancelled" and not c.closing:
                return "clientservice-stop-during-prepare-leaks", "a connection whose prepareConnection was cancelled by stopService is left open"
        for c in opened:
            if c.closing:
                return "overlap-with-closing-connection", "the service moved on while a connection it is closing is still open"
        return None, None

    def _census_violation(self, opened, pend, when):
        key, what = self._leak_key(opened)
        d = {"when": when, "open_connections": [c.id for c in opened], "pending_attempts": [a.id for a in pend]}
        if key:
            self.violation(key, what + "; " + when + " with it still open", d)
        else:
            self.violation("more-than-one-connection", "more than one open connection or attempt in progress", d)

    def machine_state(self):
        try:
            return self.svc._machine.__automat_transitioner__._state.name
        except Exception:
            return "?"

    # ---- actions ---------------------------------------------------------------------------------
    def actions(self):
        if self.dead:
            return []
        acts = ["start", "stop"]
        if sum(1 for w in self.waiters if w["fired"] is None) < 3:
            acts += ["wc", "wc1", "wc2"]
            if self.cfg.get("wc3"):
                acts.append("wc3")
        opened, pend = self.live()
        if self.cfg.get("late") and any(a.state == "cancelled" and not a.late for a in self.attempts):
            acts += ["late-ok", "late-fail"]
        if pend:
            acts += ["att-ok", "att-fail"]
        for i, c in enumerate(opened[:2]):
            acts.append("drop%d" % i)
        if any(c.prepare == "pending" for c in self.conns):
            acts += ["prep-ok", "prep-fail"]
        calls = self.clock.getDelayedCalls()
        if calls:
            acts.append("tick")
            if min(x.getTime() for x in calls) - self.clock.seconds() > 0:
                acts.append("tick-part")
        return acts

    def apply(self, act):
        ConnectionDone, ConnectionRefusedError, Failure = _tw()

        if self.dead:
            return
        self.history.append(act)
        self.fires = []
        self.policy_calls = []
        self.sync_conns = []
        self.events = []
        ev = {"stop": None, "context": None}
        now = self.clock.seconds()
        try:
            if act == "start":
                if not self.running:
                    n = sum(1 for w in self.waiters if w["fired"] is None and w["limit"] is not None)
                    if n and self.ever_started:
                        self.ctx.count("limit_waiters_pending_at_restart", n)
                    self.running = True
                    self.ever_started = True
                    self.start_pending = True
                    self.c_set = self.c_set | frozenset([0])
                self.svc.startService()
            elif act == "stop":
                opened, pend = self.live()
                rec = {"id": len(self.stops) + 1, "alive": [("c", c.id) for c in opened] + [("a", a.id) for a in pend], "fired": 0,
                       "prep_pending_at_stop": [c.id for c in opened if c.prepare == "pending"]}
                self.stops.append(rec)
                self.running = False
                self.start_pending = False
                self.expected_retry = None
                if self.deferred_retry is not None:  # the rejection may or may not have been counted yet
                    self.c_set = self.c_set | frozenset(x + 1 for x in self.c_set)
                self.deferred_retry = None
                ev["stop"] = rec
                d = self.svc.stopService()
                d.addBoth(self._fired, "stop", rec)
            elif act in ("late-ok", "late-fail"):
                # the endpoint ignored the cancellation and resolves the attempt anyway (the Deferred drops the result)
                a = [x for x in self.attempts if x.state == "cancelled" and not x.late][0]
                a.late = True
                self.ctx.count("late_resolutions")
                if act == "late-fail":
                    a.d.errback(Failure(ConnectionRefusedError("late refusal %d" % a.id)))
                else:
                    proxy = a.factory.buildProtocol(None)
                    if proxy is not None:   # (a service that refuses to build a protocol for a cancelled attempt is fine)
                        c = Conn(len(self.conns) + 1)
                        self.conns.append(c)
                        c.orphan = True
                        c.proxy, c.app, c.transport = proxy, self.last_app, FakeTransport(c)
                        ev["context"] = ("late-ok", c)
                        proxy.makeConnection(c.transport)
                        a.d.callback(proxy)
            elif act in ("wc", "wc1", "wc2", "wc3"):
                limit = {"wc": None, "wc1": 1, "wc2": 2, "wc3": 3}[act]
                rec = {"id": len(self.waiters) + 1, "limit": limit, "fails": 0, "fired": None, "nfires": 0, "new": True}
                self.waiters.append(rec)
                d = self.svc.whenConnected(failAfterFailures=limit)
                d.addBoth(self._fired, "wc", rec)
            elif act in ("att-ok", "att-fail"):
                a = self.live()[1][0]
                if act == "att-ok":
                    c = self._make_conn(a)
                    ev["context"] = ("attempt-ok", c)
                    a.d.callback(c.proxy)
                    if c.prepare in ("n/a", "ok"):
                        self.events.append(("established", c))
                else:
                    a.state = "failed"
                    a.exc = ConnectionRefusedError("refused %d" % a.id)
                    self.events.append(("fail", a.exc, self.start_pending, None))
                    a.d.errback(Failure(a.exc))
            elif act.startswith("drop"):
                c = self.live()[0][int(act[4:])]
                ev["context"] = ("drop", c)
                c.open = False
                c.loss_exc = ConnectionDone()
                if c.prepare == "pending":
                    # lost before it was prepared: the attempt as a whole has failed with this reason
                    c.prepare = "lost-during-prepare"
                    self.events.append(("fail", c.loss_exc, self.start_pending, None))
                else:
                    self.events.append(("drop", c, c.current, self.start_pending))
                c.current = False
                try:
                    c.proxy.connectionLost(Failure(c.loss_exc))
                except AppLostBoom:
                    self.ctx.count("raising_application_connectionLost")
            elif act in ("prep-ok", "prep-fail"):
                c = [x for x in self.conns if x.prepare == "pending"][0]
                ev["context"] = (act, c)
                if act == "prep-ok":
                    c.prepare = "ok"
                    self.events.append(("established", c))
                    c.prep_d.callback(None)
                else:
                    c.prepare = "rejected"
                    c.exc = ValueError("rejected connection %d" % c.id)
                    self.events.append(("fail", c.exc, self.start_pending, c))
                    c.prep_d.errback(Failure(c.exc))
            elif act in ("tick", "tick-part"):
                calls = self.clock.getDelayedCalls()
                delta = min(x.getTime() for x in calls) - now
                self.clock.advance(delta if act == "tick" else delta / 2)
            else:
                raise ValueError(act)
        except Exception as x:
            self._escaped(x, act, ev)
        if not self.dead:
            self._post(act, ev, now)

    def _fired(self, result, kind, rec):
        self.fires.append((kind, rec, result))
        if kind == "wc" and self.cfg.get("reentrant") and not self.dead:
            # a callback that immediately asks the service again (a common user pattern)
            try:
                d = self.svc.whenConnected()
                d.addBoth(lambda r: None)
            except Exception as x:
                self.violation("clientservice-reentrant-call-rejected",
                               "whenConnected() called from inside a whenConnected callback is rejected by the state machine",
                               {"exception": "%s: %s" % (type(x).__name__, x), "machine_state": self.machine_state()})
        return None

    def _trap(self, f, a):
        self.swallowed.append((a.id, f))
        return None

    def _escaped(self, x, act, ev):
        name = type(x).__name__
        detail = {"action": act, "exception": "%s: %s" % (name, str(x)[:300])}
        ctxt = ev.get("context")
        if ctxt and ctxt[0] == "drop" and name == "NoTransition":
            c = ctxt[1]
            detail["dropped_connection"] = {"id": c.id, "prepare": c.prepare, "closing_requested_by_service": c.closing}
            if c.orphan and not c.closing:
                return self.violation("clientservice-cancelled-attempt-connects-anyway",
                                      "the loss of a connection made by a cancelled attempt (endpoint ignored the cancellation; the service built its protocol "
                                      "and left it open) is rejected as NoTransition", detail)
            if c.prepare == "rejected" and not c.closing:
                return self.violation("clientservice-rejected-connection-leaks",
                                      "the loss of a connection that prepareConnection rejected (and the service left open) is rejected as NoTransition", detail)
            if c.prepare == "cancelled" and not c.closing:
                return self.violation("clientservice-stop-during-prepare-leaks",
                                      "the loss of a connection whose prepareConnection was cancelled by stopService (left open) is rejected as NoTransition", detail)
            if c.prepare == "lost-during-prepare":
                return self.violation("clientservice-loss-during-prepare-notransition",
                                      "a connection lost while its prepareConnection Deferred is pending is rejected as NoTransition", detail)
        if name == "NoTransition":
            return self.violation("no-transition", "an input was rejected as invalid for the machine state", detail)
        self.violation("unexpected-exception", "an exception escaped a service call or callback", detail)

    # ---- the oracle after each action ------------------------------------------------------------
    def _post(self, act, ev, now):
        ctx = self.ctx
        for a in self.attempts:
            if a.state == "pending" and a.d is not None and a.d.called:   # cancelled by the service (no canceller to tell us)
                a.state = "cancelled"
        # exceptions swallowed into the attempt Deferred chain
        for a in self.attempts:
            if not a.trapped and a.d is not None:
                a.trapped = True
                a.d.addErrback(self._trap, a)
        if self.swallowed:
            aid, f = self.swallowed[0]
            name = f.type.__name__
            opened = [c for c in self.conns if c.open]
            key, what = self._leak_key(opened) if name == "NoTransition" else (None, None)
            return self.violation(key or ("no-transition" if name == "NoTransition" else "unexpected-exception"),
                                  (what + "; " if what else "") + "an exception was swallowed into the connection attempt's Deferred",
                                  {"action": act, "attempt": aid, "exception": "%s: %s" % (name, f.getErrorMessage()[:300])})
        # what happened, in model terms: the events of this action, in the order they occurred
        for c in self.sync_conns:
            if c.prepare in ("n/a", "ok") and c.open:
                self.events.append(("established", c))
        established = None
        failure = None
        pc = list(self.policy_calls)
        for e in self.events:
            if e[0] == "established":
                if self.running:
                    for c in self.conns:
                        c.current = False
                    e[1].current = True
                    established = e[1]
                    self.c_set = frozenset([0])
                    ctx.count("established")
                continue
            if e[0] == "fail":
                failure = e[1]
                if self.running:
                    for w in self.waiters:
                        if w["fired"] is None and not w.get("new") and w["limit"] is not None:
                            w["fails"] += 1
                counts = self.running and not e[2]
                new_c = frozenset(x + 1 for x in self.c_set)
                if counts and e[3] is not None and e[3].open and e[3].closing and not pc:
                    # guard: the service is closing the rejected connection and may start the retry
                    # delay only once it is gone (it must not overlap with the next attempt)
                    self.deferred_retry = e[3]   # counted when the retry is scheduled (at its loss)
                    continue
            else:  # ("drop", conn, was_current, restart_pending)
                counts = self.running and e[2] and not e[3]
                new_c = self.c_set | frozenset(x + 1 for x in self.c_set)
                if e[1] is self.deferred_retry:
                    self.deferred_retry = None
                    counts = self.running and not e[3]
                    new_c = frozenset(x + 1 for x in self.c_set)
            if counts:
                self.c_set = new_c
                if not pc:
                    return self.violation("retry-not-scheduled", "after a %s the retry policy was not consulted" % e[0], {"policy_calls": self.policy_calls})
                n = pc.pop(0)
                if n not in self.c_set:
                    return self.violation("retry-policy-wrong-attempt-count", "the retry policy was asked for a count that is not the number of consecutive failures",
                                          {"asked_for": n, "possible_counts": sorted(self.c_set), "cause": e[0]})
                self.c_set = frozenset([n])
                self.expected_retry = frozenset([self.clock.seconds() + policy_delay(n)])
        if self.expected_retry is not None and self.clock.seconds() >= max(self.expected_retry):
            return self.violation("retry-not-attempted", "the clock passed failure time + retryPolicy(n) without a connection attempt",
                                  {"expected_times": sorted(self.expected_retry), "now": self.clock.seconds()})
        # census at the end of the action
        opened, pend = self.live()
        if len(opened) + len(pend) > 1:
            return self._census_violation(opened, pend, "end of action %s" % act)
        # fires
        stop_fired_now = False
        for kind, rec, res in self.fires:
            if kind == "stop":
                rec["fired"] += 1
                ctx.count("stop_fires_checked")
                stop_fired_now = True
                alive = [(k, i) for k, i in rec["alive"] if (k == "c" and self.conns[i - 1].open) or (k == "a" and self.attempts[i - 1].state == "pending")]
                if rec["fired"] > 1:
                    return self.violation("stop-fired-twice", "a stopService Deferred fired more than once", {"stop": rec["id"]})
                if isinstance(res, self._Failure()):
                    return self.violation("stop-deferred-failed", "a stopService Deferred failed", {"failure": str(res.value)[:200]})
                if alive:
                    oc = [self.conns[i - 1] for k, i in alive if k == "c"]
                    key, what = self._leak_key(oc)
                    if key == "overlap-with-closing-connection":
                        key, what = None, None
                    return self.violation(key or "stop-fired-with-open-connection",
                                          (what + "; " if what else "") + "a stopService Deferred fired while a connection/attempt that existed at the stop call is still alive",
                                          {"stop": rec["id"], "still_alive": alive})
            else:
                rec["nfires"] += 1
                ctx.count("waiter_fires_checked")
                if rec["nfires"] > 1:
                    return self.violation("waiter-fired-twice", "a whenConnected Deferred fired more than once", {"waiter": rec["id"]})
                if isinstance(res, self._Failure()):
                    rec["fired"] = "err:" + res.type.__name__
                    if res.type.__name__ == "CancelledError":
                        if self.running:
                            return self.violation("waiter-cancelled-while-running", "a whenConnected Deferred failed with CancelledError although the service is running",
                                                  {"waiter": rec["id"]})
                    elif failure is None or res.value is not failure:
                        return self.violation("waiter-wrong-failure", "a whenConnected Deferred failed with something that is not this connection failure",
                                              {"waiter": rec["id"], "got": repr(res.value)[:200]})
                    elif rec["limit"] is None or rec["fails"] < rec["limit"]:
                        return self.violation("waiter-failed-before-limit", "a whenConnected Deferred failed before its failAfterFailures limit",
                                              {"waiter": rec["id"], "limit": rec["limit"], "failures_seen": rec["fails"]})
                else:
                    rec["fired"] = "ok"
                    cur = [c for c in self.conns if c.current and c.open]
                    if not cur or res is not cur[0].app:
                        return self.violation("waiter-wrong-protocol", "a whenConnected Deferred fired with something that is not the protocol of the current open, prepared connection",
                                              {"waiter": rec["id"], "got": repr(res)[:100], "current": [c.id for c in cur]})
        # obligations
        pending_w = [w for w in self.waiters if w["fired"] is None]
        if established is not None and self.running:
            late = [w["id"] for w in pending_w]
            if late:
                return self.violation("waiter-not-fired-on-connection", "whenConnected Deferreds still pending after a connection was established", {"waiters": late})
        if failure is not None and self.running:
            late = [w["id"] for w in pending_w if w["limit"] is not None and w["fails"] >= w["limit"]]
            if late:
                return self.violation("waiter-not-failed-at-limit", "whenConnected Deferreds still pending after failAfterFailures consecutive failures", {"waiters": late})
        if stop_fired_now and not self.running and pending_w:
            key = "clientservice-stop-before-start-keeps-waiters" if not self.ever_started else "waiter-not-cancelled-at-stop"
            return self.violation(key, "whenConnected Deferreds still pending after the stop of the service completed", {"waiters": [w["id"] for w in pending_w]})
        for rec in self.stops:
            if not rec["fired"]:
                alive = [(k, i) for k, i in rec["alive"] if (k == "c" and self.conns[i - 1].open) or (k == "a" and self.attempts[i - 1].state == "pending")]
                if not alive:
                    return self.violation("stop-deferred-not-fired", "every connection/attempt that existed at the stop call is finished but the stopService Deferred has not fired",
                                          {"stop": rec["id"]})
        for w in self.waiters:
            w.pop("new", None)

    def _Failure(self):
        return _tw()[2]

    # ---- pruning hash ----------------------------------------------------------------------------
    def state(self):
        core = self.svc._machine.__automat_core__
        now = self.clock.seconds()
        return (self.machine_state(), core.failedAttempts, tuple(r for _, r in core.awaitingConnected), len(core.stopWaiters),
                tuple(sorted(x.getTime() - now for x in self.clock.getDelayedCalls())),
                self.running, self.ever_started, self.start_pending, tuple(sorted(self.c_set)), self.deferred_retry is not None,
                None if self.expected_retry is None else tuple(sorted(t - now for t in self.expected_retry)),
                tuple(c.tag() for c in self.conns if c.open), sum(1 for a in self.attempts if a.state == "pending"),
                tuple((w["limit"], w["fails"]) for w in self.waiters if w["fired"] is None),
                tuple(tuple((k, (self.conns[i - 1].tag() if k == "c" else 0)) for k, i in r["alive"]
                            if (k == "c" and self.conns[i - 1].open) or (k == "a" and self.attempts[i - 1].state == "pending"))
                      for r in self.stops if not r["fired"]),
                min(self.nconnect, 1) if not isinstance(self.cfg["connect"], list) else self.nconnect % len(self.cfg["connect"]),
                len(self.conns) % 2 if self.cfg["prepare"] in ("sync-raise-odd", "fired-fail-odd") else 0,
                sum(1 for a in self.attempts if a.state == "cancelled" and not a.late) if self.cfg.get("late") else 0, self.dead)


class _Quiet:
    """ctx stand-in for shrinking: records violation keys only."""

    def __init__(self):
        self.keys = []

    def violation(self, key, what, w):
        self.keys.append(key)

    def count(self, *a, **k):
        pass


def run_history(ctx, cfg, history):
    w = World(ctx, cfg)
    for a in history:
        if w.dead:
            break
        if a in w.actions():
            w.apply(a)
    return w


def shrink(cfg, history, key):
    """Greedy one-action-at-a-time deletion keeping the same violation key (first witness of a key only)."""
    h = list(history)
    i = len(h) - 1
    budget = 400
    while i >= 0 and budget > 0:
        trial = h[:i] + h[i + 1:]
        q = _Quiet()
        w = run_history(q, cfg, trial)
        budget -= 1
        if q.keys[:1] == [key]:
            h = list(w.history)
            i = min(i, len(h)) - 1
        else:
            i -= 1
    return h


CONFIGS = [{"prepare": p, "connect": c} for p in ("none", "sync-ok", "sync-raise-odd", "deferred") for c in ("async", "syncfail", "syncok")]
REENTRANT = {"prepare": "none", "connect": "async", "reentrant": True}
EXTRA = [{"prepare": "none", "connect": "async", "late": True}, {"prepare": "deferred", "connect": "async", "late": True},
         {"prepare": "none", "connect": "async", "lostraises": True}, {"prepare": "deferred", "connect": "syncok", "lostraises": True},
         {"prepare": "fired-ok", "connect": "async"}, {"prepare": "fired-fail-odd", "connect": "async"}, {"prepare": "fired-fail-odd", "connect": "syncok"}]


def run(ctx):
    cap = LogCapture()
    with cap:
        depth = 7 if ctx.quick else 11
        seen_hist = [0]

        def on_node(w, history):
            ctx.evaluated()
            if w.nconnect:
                ctx.distinct((w.cfg, tuple(history)))

        for cfg in CONFIGS:
            d = depth - 1 if ctx.quick and (cfg["connect"] != "async" or cfg["prepare"] == "sync-ok") else depth
            explore.dfs(ctx, lambda cfg=cfg: World(ctx, cfg), d, shard_depth=3, on_node=on_node)
        for cfg in EXTRA:
            d = depth - 2 if ctx.quick and not cfg.get("late") else depth - 1
            explore.dfs(ctx, lambda cfg=cfg: World(ctx, cfg), d, shard_depth=3, on_node=on_node)
        explore.dfs(ctx, lambda: World(ctx, REENTRANT), 5, shard_depth=3, on_node=on_node)
        # random long histories
        for i in ctx.cases(200, 20000):
            rng = ctx.case_rng("walk", i)
            cfg = {"prepare": rng.choice(["none", "none", "sync-ok", "sync-ok", "fired-ok", "sync-raise-odd", "deferred"]), "wc3": True,
                   "late": rng.random() < 0.3, "lostraises": rng.random() < 0.25, "connect": [rng.choice(["async", "async", "async", "syncfail", "syncok"]) for _ in range(rng.randrange(1, 6))]}
            w = World(ctx, cfg)
            for _ in range(300):
                acts = w.actions()
                if not acts:
                    break
                weights = [3 if a in ("tick", "att-ok", "att-fail", "prep-ok") else (0.5 if a == "stop" else 1) for a in acts]
                w.apply(rng.choices(acts, weights)[0])
                ctx.count("walk_actions")
            ctx.evaluated()
            ctx.maxi("walk_length", len(w.history))
            if w.nconnect:
                ctx.distinct((cfg, tuple(w.history)))
            if i < 2:
                ctx.sample({"config": cfg, "history": w.history[:60], "connects": w.nconnect, "final_machine_state": w.machine_state(), "dead": w.dead})
        gc.collect()
    bad = cap.failures()
    if bad:
        ctx.violation("unattributed-logged-failure", "a failure was logged (unhandled error in a Deferred) that no per-action monitor attributed",
                      {"failures": bad[:5]})


def replay(ctx, w):
    x = w["witness"]
    world = World(ctx, x["config"])
    for a in x["history"]:
        if a not in world.actions():
            break
        world.apply(a)
