"""C03 A Deferred delivers one result; cancellation follows its protocol.

Monitor: every history over {d.callback, d.errback, d.cancel, d.addBoth(returns `inner`) (once),
inner.callback, inner.errback, inner.cancel} up to a bounded length is run on a fresh real pair
(d, inner) for every canceller configuration {no canceller, fires callback, fires errback, does
nothing, raises}.  Observed at the API boundary after EVERY action: the exception type raised by
the call, canceller invocations, the results seen by recorder callbacks (first result of d, first
result of inner, what d continues with after waiting on inner), and `called` / `result`.

Oracle: a 3-state model per Deferred - U(nfired), F(ired), S(fired by a canceller-less cancel;
swallow exactly one later callback/errback):
  callback/errback: U -> F and the result is delivered once; S -> F silently; F -> AlreadyCalledError.
  cancel on U: canceller called exactly once; if it fired the Deferred that result stands, else
      errback(CancelledError); no canceller -> errback(CancelledError) and state S.
  cancel on F/S: if d is waiting on inner -> inner.cancel() (same rules); otherwise no effect at all.
All values carry unique ids, so every delivery identifies the call that produced it.

Guards: for a canceller that RAISES the statement is silent.  Accepted: the exception propagates
out of cancel() and the Deferred stays unfired (what the code does), or it is swallowed and the
Deferred fails with CancelledError; required in both cases: canceller called exactly once per
cancel() on an unfired Deferred, no double delivery, later firing works.  The wait callback is
added at most once per history (returning the same Deferred twice is C01's re-entrancy corner).
Unhandled-failure logging at GC is ignored.
"""
import gc
import itertools
import os

from vf.engines import explore

LEVEL = "exploration"
ENGINE = "core+E1-explore"
TECHNIQUE = "runtime monitoring: 3-state firing/cancellation model per Deferred compared after every action"
RULE = ("all histories of length L (every shorter one is a prefix and is checked step by step) over the 7 "
        "actions {cb, eb, cancel, addwait(once), inner cb, inner eb, inner cancel} x 13 canceller "
        "configurations (outer in {none, fires callback, fires errback, nothing, raises} x inner in {none, "
        "nothing}, plus outer none x inner {fires callback, fires errback, raises}), L = 6 quick / 7 "
        "thorough, enumerated directly; plus E1 depth-first exploration with state pruning to length 12 / "
        "16.  A history is distinct by (configuration, action list) and non-trivial when it contains a "
        "cancel or a firing attempt on an already fired Deferred.")
ASSUMPTIONS = [
    "trusted base: the 3-state model in this module (about 60 lines)",
    "a raising canceller may either propagate (Deferred stays unfired) or be swallowed (CancelledError); the statement does not say",
    "the pruned exploration hashes called/_suppressAlreadyCalled/paused/result kind/queue length of both real Deferreds plus the model state",
]
SHARDS = {"quick": 4, "thorough": 16}
FLOORS = {"steps_compared": 100000, "already_called_errors": 10000, "swallowed_late_results": 1000,
          "canceller_calls": 1000, "cancel_forwarded_to_inner": 1000, "cancel_no_effect": 1000,
          "raising_canceller_calls": 100, "explore_states": 500}
READY = True

ACTIONS = ("cb", "eb", "cancel", "addwait", "icb", "ieb", "icancel")
CONFIGS = ([(o, i) for o in ("none", "cb", "eb", "nothing", "raises") for i in ("none", "nothing")]
           + [("none", i) for i in ("cb", "eb", "raises")])
NORES = "NORESULT"
CANCELLED = "Cancelled"


class _V:
    __slots__ = ("k",)

    def __init__(self, k):
        self.k = k


class _E(Exception):
    def __init__(self, k):
        Exception.__init__(self, k)
        self.k = k


class Boom(Exception):
    pass


_TW = {}
_CNT = {}


def _bump(name):
    _CNT[name] = _CNT.get(name, 0) + 1


def _flush(ctx):
    for k, v in _CNT.items():
        ctx.count(k, v)
    _CNT.clear()


def _tw():
    if not _TW:
        from twisted.internet.defer import AlreadyCalledError, CancelledError, Deferred
        from twisted.logger import globalLogBeginner
        from twisted.python.failure import Failure

        _TW.update(D=Deferred, ACE=AlreadyCalledError, CE=CancelledError, F=Failure, logged=[0])

        def obs(event):
            if event.get("log_failure") is not None:
                _TW["logged"][0] += 1

        # most histories leave failures unhandled on purpose; keep them off stderr
        globalLogBeginner.beginLoggingTo([obs], discardBuffer=True, redirectStandardIO=False)
    return _TW


class World:
    """Real pair (d, inner) + model, compared after every action."""

    def __init__(self, ctx, cfg):
        tw = _tw()
        self.ctx = ctx
        self.cfg = cfg
        self.tw = tw
        self.step = 0
        self.hist = []
        self.log = []        # real events of the current action
        self.bad = False
        self.canc = {"d": cfg[0], "i": cfg[1]}
        self.d = tw["D"](self._canceller("d")) if cfg[0] != "none" else tw["D"]()
        self.inner = tw["D"](self._canceller("i")) if cfg[1] != "none" else tw["D"]()
        self.d.addBoth(self._rec("rec0"))
        self.inner.addBoth(self._rec("recin"))
        # model
        self.ms = {"d": "U", "i": "U"}
        self.res = {"d": NORES, "i": NORES}
        self.waitcb = "absent"   # absent | pending | done
        self.waiting = False
        self.exp = []

    # ---- real side ---------------------------------------------------------------------------
    def rr(self, x):
        tw = self.tw
        if x is None:
            return None
        if type(x) is _V:
            return ("V", x.k)
        if isinstance(x, tw["F"]):
            if x.check(tw["CE"]):
                return CANCELLED
            return ("F", x.value.k) if type(x.value) is _E else ("F?", repr(x.value)[:60])
        if isinstance(x, tw["D"]):
            return ("D",)
        return NORES if x is NORES else ("?", repr(x)[:60])

    def _rec(self, name):
        def rec(x):
            self.log.append((name, self.rr(x)))
            return x
        return rec

    def _canceller(self, who):
        def canceller(dd):
            kind = self.canc[who]
            self.log.append(("canceller", who))
            tag = "c%s%d" % (who, self.step)
            if kind == "cb":
                dd.callback(_V(tag))
            elif kind == "eb":
                dd.errback(_E(tag))
            elif kind == "raises":
                raise Boom(tag)
        return canceller

    def _real(self, a):
        d, inner, k = self.d, self.inner, self.step
        if a == "cb":
            d.callback(_V("d%d" % k))
        elif a == "eb":
            d.errback(_E("d%d" % k))
        elif a == "cancel":
            d.cancel()
        elif a == "addwait":
            d.addBoth(lambda _: inner)
            d.addBoth(self._rec("rec1"))
        elif a == "icb":
            inner.callback(_V("i%d" % k))
        elif a == "ieb":
            inner.errback(_E("i%d" % k))
        else:
            inner.cancel()

    # ---- model side --------------------------------------------------------------------------
    def _deliver(self, who, r):
        self.res[who] = r
        if who == "d":
            self.exp.append(("rec0", r))
            self._progress()
        else:
            self.exp.append(("recin", r))
            if self.waiting:
                self.waiting = False
                self.res["d"], self.res["i"] = r, None
                self.exp.append(("rec1", r))

    def _progress(self):
        if self.waitcb == "pending" and self.ms["d"] != "U":
            self.waitcb = "done"
            if self.ms["i"] == "U":
                self.waiting = True
                self.res["d"] = ("D",)
            else:
                self.res["d"], self.res["i"] = self.res["i"], None
                self.exp.append(("rec1", self.res["d"]))

    def _fire(self, who, r):
        st = self.ms[who]
        if st == "U":
            self.ms[who] = "F"
            self._deliver(who, r)
            return None
        if st == "S":
            self.ms[who] = "F"
            _bump("swallowed_late_results")
            return None
        _bump("already_called_errors")
        return "AlreadyCalledError"

    def _cancel(self, who, boomed):
        """Returns True if a raising canceller ran (exception allowed)."""
        if self.ms[who] != "U":
            if who == "d" and self.waiting:
                _bump("cancel_forwarded_to_inner")
                return self._cancel("i", boomed)
            _bump("cancel_no_effect")
            return False
        kind = self.canc[who]
        tag = "c%s%d" % (who, self.step)
        if kind == "none":
            self.ms[who] = "S"
            self._deliver(who, CANCELLED)
            return False
        self.exp.append(("canceller", who))
        _bump("canceller_calls")
        if kind == "raises":
            _bump("raising_canceller_calls")
            if not boomed:  # swallowed: must then behave like a canceller that did nothing
                self.ms[who] = "F"
                self._deliver(who, CANCELLED)
            return True
        self.ms[who] = "F"
        self._deliver(who, ("V", tag) if kind == "cb" else ("F", tag) if kind == "eb" else CANCELLED)
        return False

    def _model(self, a, boomed):
        k = self.step
        if a == "cb":
            return self._fire("d", ("V", "d%d" % k)), False
        if a == "eb":
            return self._fire("d", ("F", "d%d" % k)), False
        if a == "icb":
            return self._fire("i", ("V", "i%d" % k)), False
        if a == "ieb":
            return self._fire("i", ("F", "i%d" % k)), False
        if a == "addwait":
            self.waitcb = "pending"
            if self.ms["d"] == "U":
                return None, False
            self._progress()
            return None, False
        return None, self._cancel("d" if a == "cancel" else "i", boomed)

    # ---- E1 interface ------------------------------------------------------------------------
    def actions(self):
        if self.bad:
            return []
        return [a for a in ACTIONS if a != "addwait" or self.waitcb == "absent"]

    def apply(self, a):
        self.step += 1
        self.hist.append(a)
        self.log = []
        self.exp = []
        exc = None
        try:
            self._real(a)
        except BaseException as e:  # noqa: B036
            if isinstance(e, (KeyboardInterrupt, SystemExit)):
                raise
            exc = type(e).__name__
        want_exc, boom_ok = self._model(a, exc == "Boom")
        _bump("steps_compared")
        ok_exc = exc == want_exc or (boom_ok and exc == "Boom" and want_exc is None)
        real_state = (self.d.called, self.rr(getattr(self.d, "result", NORES)),
                      self.inner.called, self.rr(getattr(self.inner, "result", NORES)))
        model_state = (self.ms["d"] != "U", self.res["d"], self.ms["i"] != "U", self.res["i"])
        if ok_exc and self.log == self.exp and real_state == model_state:
            return
        self.bad = True
        w = {"config": {"outer_canceller": self.cfg[0], "inner_canceller": self.cfg[1]}, "history": list(self.hist),
             "failing_action": a, "expected_exception": want_exc, "raised": exc,
             "expected_events": self.exp, "observed_events": self.log,
             "expected_called_result": model_state, "observed_called_result": real_state,
             "model_state_before_report": dict(self.ms)}
        if not ok_exc:
            if want_exc == "AlreadyCalledError":
                key, what = "second-result-accepted", "a further callback/errback on a fired Deferred did not raise AlreadyCalledError"
            elif exc == "AlreadyCalledError":
                key, what = "already-called-raised-wrongly", "AlreadyCalledError raised where the protocol accepts or swallows the call"
            else:
                key, what = "unexpected-exception", "a call raised an exception the protocol does not allow"
        else:
            n_exp = sum(1 for e in self.exp if e[0] == "canceller")
            n_got = sum(1 for e in self.log if e[0] == "canceller")
            if n_exp != n_got:
                key, what = "canceller-call-count", "canceller not called exactly once for cancel() on an unfired Deferred (or called on a fired one)"
            elif a in ("cancel", "icancel"):
                key, what = "cancel-effect-mismatch", "the effect of cancel() differs from the cancellation protocol"
            else:
                key, what = "delivery-mismatch", "results delivered to callbacks differ from the one-result model"
        self.ctx.violation(key, what, w)

    def state(self):
        def real(x):
            r = getattr(x, "result", NORES)
            r = self.rr(r)
            return (x.called, x._suppressAlreadyCalled, x.paused, r[0] if isinstance(r, tuple) else r, len(x.callbacks),
                    x._canceller is not None)

        def kind(r):
            return r[0] if isinstance(r, tuple) else r

        return (self.ms["d"], self.ms["i"], self.waitcb, self.waiting, kind(self.res["d"]), kind(self.res["i"]),
                real(self.d), real(self.inner), self.bad)


def _swallow(f):
    return None


def histories(length):
    """All action lists of exactly `length` with addwait at most once."""
    six = [a for a in ACTIONS if a != "addwait"]
    for h in itertools.product(six, repeat=length):
        yield h
    for pos in range(length):
        for h in itertools.product(six, repeat=length - 1):
            yield h[:pos] + ("addwait",) + h[pos:]


def run_history(ctx, cfg, h, origin):
    w = World(ctx, cfg)
    for a in h:
        w.apply(a)
        if w.bad:
            break
    # after the last comparison: consume left-over failures so that GC does not log each of them
    w.d.addErrback(_swallow)
    w.inner.addErrback(_swallow)
    ctx.evaluated()
    fired = {"d": False, "i": False}
    nontrivial = False
    for a in h:
        who = "i" if a[0] == "i" else "d"
        if a in ("cancel", "icancel"):
            nontrivial = True
            fired[who] = True
        elif a != "addwait":
            nontrivial = nontrivial or fired[who]
            fired[who] = True
    if nontrivial:
        ctx.count("nontrivial_histories")
        if origin != "enum" or ctx.counters["nontrivial_histories"] <= 30000:
            ctx.distinct((cfg, h))
    return w


def run(ctx):
    _tw()
    scale = float(os.environ.get("VERIF_SCALE", "1"))
    length = 6 if ctx.quick else 7
    deep = 12 if ctx.quick else 16
    if scale < 1:
        length, deep = 4, 6
    ctx.extra["enumerated_length"] = length
    ctx.extra["explored_length"] = deep
    n = 0
    k = 0
    for cfg in CONFIGS:
        ctx.seen("configs", "outer=%s inner=%s" % cfg)
        for h in histories(length):
            k += 1
            if k % ctx.nshards != ctx.shard:
                continue
            w = run_history(ctx, cfg, h, "enum")
            n += 1
            if n % 5000 == 0:
                gc.collect()
            if n <= 2:
                ctx.sample({"config": cfg, "history": h, "last_events": w.log, "model": dict(w.ms)})
    ctx.count("enumerated_histories", n)
    ctx.exhaustive = None
    # deeper, with state pruning (E1)
    for ci, cfg in enumerate(CONFIGS):
        explore.dfs(ctx, lambda cfg=cfg: World(ctx, cfg), deep, shard_depth=2)
        ctx.evaluated()
    gc.collect()
    _flush(ctx)
    ctx.count("gc_logged_unhandled_failures", _tw()["logged"][0])
    if scale < 1:
        ctx.exhaustive = False


def replay(ctx, w):
    x = w["witness"]
    cfg = (x["config"]["outer_canceller"], x["config"]["inner_canceller"])
    run_history(ctx, cfg, tuple(x["history"]), "replay")
    _flush(ctx)
