"""C03 A Deferred delivers one result; cancellation follows its protocol.

Monitor: every history up to a bounded length over a chain of n = 2 or 3 Deferreds d0, d1(, d2)
with the actions {d_k.callback, d_k.errback, d_k.cancel for every k; wait_k = d_k.addBoth(returns
d_{k+1}) followed by a recorder, at most once per k} is run on fresh real Deferreds for a set of
canceller configurations {no canceller, fires callback, fires errback, does nothing, raises} per
level.  With n = 3 a fired Deferred can wait on a Deferred that has itself fired and waits on a
third one, so cancel() has to be forwarded through two levels.  Observed at the API boundary after
EVERY action: the exception type raised by the call, canceller invocations (which Deferred), the
results seen by recorder callbacks (first result of each d_k; what d_k continues with after its
wait callback), and `called` / `result` of every Deferred.

Oracle: a 3-state model per Deferred - U(nfired), F(ired), S(fired by a canceller-less cancel;
swallow exactly one later callback/errback):
  callback/errback: U -> F and the result is delivered once; S -> F silently; F -> AlreadyCalledError.
  cancel on U: canceller called exactly once; if it fired the Deferred that result stands, else
      errback(CancelledError); no canceller -> errback(CancelledError) and state S.
  cancel on F/S: if the Deferred is waiting on another one -> that one's cancel() (same rules,
      hence recursively down the chain); otherwise no effect at all.
plus the minimum of the chaining rules needed to know who waits on whom: a per-Deferred FIFO of
{recorder, wait callback, continuation of the waiter}; a wait callback takes the result of an
already fired, not waiting d_{k+1} or makes d_k wait; a continuation hands the result up.
All values carry unique ids, so every delivery identifies the call that produced it.

Pause / chainDeferred family: histories may also pause and unpause every Deferred and use
d_{k+1}.chainDeferred(d_k).  "Waiting on another Deferred" is what the statement says - d_k ran its
wait callback, was handed an unfired / paused / waiting d_{k+1} and has not been given the result
yet - and never an implementation field: a fired Deferred that is merely paused, that was the target
of chainDeferred, or that used to wait and has since been handed its result (even if it has not
resumed because it is paused) waits on nothing, and cancel() on it must have no effect at all (key
`cancel-of-fired-not-waiting-had-effect`).  A paused Deferred runs no callbacks; the Deferred that
handed it a result goes on with its own list.  wait_k and chn_k exclude each other (firing d_k from
d_{k+1}'s running chain while d_k returns d_{k+1} is C01's re-entrant corner).

Debugging: the statement does not depend on Deferred.debug, so a block of the histories (all 13
two-level configurations, two three-level, two pause/chainDeferred and two re-entrant-canceller
ones, one action shorter; three pruned explorations) is run again under defer.setDebugging(True)
with the same oracle; the process-global flag is restored afterwards.

Subclass levels: another block (13 two-level and three three-level configurations, one
pause/chainDeferred one; three explorations) runs with every Deferred of the chain being an
instance of a trivial Deferred subclass - "a Deferred" in the statement includes those.

Re-entrant cancellers: a canceller may fire the next or the previous Deferred of the chain (an
AlreadyCalledError there is caught inside the canceller and logged; a Deferred in state S swallows
it), call cancel() on the next one, or fire its own Deferred and then raise.  The model runs those
effects at the point of the canceller call, before deciding whether CancelledError is still due.

Re-entrant late fire: in the kinds "none+re" / "none+reeb" (no canceller) and "nothing+re" (canceller
that does nothing) the Deferred carries, right after its recorder, a callback that reacts to a
CancelledError result by firing ITS OWN Deferred at once - callback() resp. errback(), i.e. the producer
that is told to stop flushes its result while cancel() is still running the chain - records whether the
call raised AlreadyCalledError, and passes the failure on.  By the statement the call is the "one later
callback or errback" after a canceller-less cancel(): silently ignored (model S -> F, so the next one
raises AlreadyCalledError); with a canceller, or when the CancelledError arrived from a Deferred it
waited on / was chained from, the Deferred is simply fired and the call raises AlreadyCalledError (key
`late-fire-during-cancel-not-ignored` / `late-fire-during-cancel-ignored-wrongly`).

Guards: for a canceller that RAISES the statement is silent.  Accepted: the exception propagates
out of cancel() and the Deferred stays unfired (what the code does), or it is swallowed and the
Deferred fails with CancelledError; required in both cases: canceller called exactly once per
cancel() on an unfired Deferred, no double delivery, later firing works.  Each wait callback is
added at most once and only d_k -> d_{k+1} (no re-entrant returns, no user pauses: C01's ground).
Unhandled-failure logging at GC is ignored.
"""
import gc
import os

from vf.engines import explore

LEVEL = "exploration"
ENGINE = "core+E1-explore"
TECHNIQUE = "runtime monitoring: 3-state firing/cancellation model per Deferred over a 2/3-level waiting chain, compared after every action"
RULE = ("all histories of length L (every shorter one is a prefix and is checked step by step): "
        "two-level chain (7 actions: cb/eb/cancel on d0 and d1, wait0 once) x 13 canceller configurations "
        "at L=5 and x 2 configurations (outer none|nothing, inner without canceller) at L=6 quick / x 13 at "
        "L=6 and x 2 at L=7 thorough; three-level chain (11 actions: cb/eb/cancel on d0,d1,d2, wait0 and "
        "wait1 once each) x 4 configurations at L=5 quick / L=6 thorough; all enumerated directly, "
        "unpruned; three-level chain x 8 configurations with re-entrant cancellers (canceller fires the "
        "next / previous Deferred of the chain, cancels the next one, or fires its own and then raises) at "
        "L=4 quick / L=5 (two of them L=6) thorough; four-level chain x 2 configurations at L=5 thorough.  "
        "Plus E1 depth-first exploration with state pruning to length 12 / 16 over all 13 "
        "two-level, 40 three-level (8 with re-entrant cancellers) and 2 quick / 6 thorough four-level "
        "configurations (cancel forwarded through three levels).  Re-entrant late fire (a callback of the "
        "Deferred answers CancelledError by firing that same Deferred): two-level x 4 configurations at L=4 "
        "quick / L=5 thorough, three-level x 2 at L=4 / L=5, one pause/chainDeferred two-level one at L=4, "
        "plus pruned exploration of all seven.  Pause/chainDeferred family: the alphabet "
        "extended by pause_k / unpause_k (at most 2 outstanding) and chn_k = d_{k+1}.chainDeferred(d_k) "
        "(excludes wait_k): two-level x 4 configurations at L=4 quick / L=5 thorough, three-level 'lite' "
        "(no errbacks, one outstanding pause) x 2 configurations at L=4 / L=5, plus pruned exploration to "
        "depth 8 / 11 (two-level) and 7 / 9 (three-level).  A history is distinct by (configuration, action "
        "list) and non-trivial when it contains a cancel or a firing attempt on an already fired Deferred.")
ASSUMPTIONS = [
    "trusted base: the 3-state model plus FIFO chaining rules in this module (about 90 lines)",
    "a raising canceller may either propagate (Deferred stays unfired) or be swallowed (CancelledError); the statement does not say",
    "the debugging-on block covers shorter histories than the debugging-off enumeration",
    "the pruned exploration hashes called/_suppressAlreadyCalled/paused/result kind/queue length of the real Deferreds plus the model state",
]
SHARDS = {"quick": 4, "thorough": 16}
FLOORS = {"steps_compared": 1000000, "already_called_errors": 100000, "swallowed_late_results": 10000,
          "canceller_calls": 10000, "cancel_forwarded_one_level": 5000, "cancel_forwarded_two_levels": 300,
          "cancel_no_effect": 10000, "raising_canceller_calls": 1000, "explore_states": 5000,
          "histories_3level": 100000, "histories_2level": 100000, "cancel_forwarded_three_levels": 100,
          "reentrant_canceller_calls": 10000, "canceller_nested_already_called": 1000,
          "histories_reentrant_cancellers": 50000, "histories_pause_chaindeferred": 30000,
          "chaindeferred_pairs_run": 10000, "cancel_no_effect_fired_paused": 5000,
          "histories_with_debugging_on": 30000, "histories_with_deferred_subclass_levels": 30000,
          "histories_reentrant_late_fire": 20000, "reentrant_late_fires_ignored": 5000,
          "reentrant_late_fires_already_called": 1000, "fires_after_ignored_reentrant_fire": 2000}
READY = True

KINDS = ("none", "cb", "eb", "nothing", "raises")
CONFIGS2 = ([(o, i) for o in KINDS for i in ("none", "nothing")] + [("none", i) for i in ("cb", "eb", "raises")])
CONFIGS2_LONG = [(o, "none") for o in ("none", "nothing")]
CONFIGS3 = [("none", "none", "none"), ("none", "none", "nothing"), ("nothing", "nothing", "cb"), ("raises", "eb", "none")]
# re-entrant cancellers: "firedown"/"fireup" fire the next / previous Deferred of the chain from inside the
# canceller (AlreadyCalledError caught and logged there), "cancelnext" cancels the next one, "cbraise" fires its
# own Deferred and then raises.  (cancelnext is never configured above a raising canceller.)
CONFIGS3_RE = [("firedown", "none", "none"), ("none", "firedown", "nothing"), ("fireup", "fireup", "fireup"),
               ("none", "fireup", "none"), ("cancelnext", "cancelnext", "none"), ("none", "cancelnext", "nothing"),
               ("cbraise", "none", "cbraise"), ("nothing", "cbraise", "firedown")]
CONFIGS3_RE_LONG = [("none", "fireup", "none"), ("cancelnext", "cancelnext", "none")]
CONFIGS4 = [("none", "none", "none", "none"), ("none", "none", "none", "nothing"), ("nothing", "none", "cb", "raises"),
            ("none", "cancelnext", "none", "nothing"), ("fireup", "none", "firedown", "none"), ("cbraise", "eb", "none", "none")]
# re-entrant late fire: "none+re" / "none+reeb" = no canceller, "nothing+re" = canceller that does nothing; a
# callback of the Deferred answers a CancelledError by d.callback() / d.errback() / d.callback() on itself
CONFIGS2_RF = [("none+re", "none"), ("none", "none+reeb"), ("nothing+re", "none+re"), ("none+reeb", "cb")]
CONFIGS3_RF = [("none+re", "none+reeb", "none"), ("nothing", "none+re", "nothing+re")]
NORES = "NORESULT"
CANCELLED = "Cancelled"


EXT = "+ext"   # first element of a configuration: histories also pause/unpause and use chainDeferred
MAXPAUSE = 2
CONFIGS2_EXT = [(EXT, "none", "none"), (EXT, "nothing", "none"), (EXT, "none", "nothing"), (EXT, "cb", "raises")]
LITE = "+lite"  # the same without errback actions, one outstanding pause, no pausing of the last Deferred
CONFIGS3_EXT = [(LITE, "none", "none", "none"), (LITE, "none", "nothing", "nothing")]
CONFIGS2_EXT_RF = [(EXT, "none+re", "none+reeb")]
_RF_ALL = set(CONFIGS2_RF + CONFIGS3_RF + CONFIGS2_EXT_RF)


def nocanceller(kind):
    return kind in ("none", "none+re", "none+reeb")


def split(cfg):
    """(extended alphabet: False | EXT | LITE, canceller kinds per level)"""
    return (cfg[0], tuple(cfg[1:])) if cfg[0] in (EXT, LITE) else (False, tuple(cfg))


def maxpause(ext):
    return 1 if ext == LITE else MAXPAUSE


def actions_for(n, ext=False):
    out = []
    for k in range(n):
        out += ["cb%d" % k, "cancel%d" % k] if ext == LITE else ["cb%d" % k, "eb%d" % k, "cancel%d" % k]
        if ext == EXT or (ext == LITE and k + 1 < n):
            out += ["pause%d" % k, "unpause%d" % k]
        if k + 1 < n:
            out.append("wait%d" % k)
            if ext:
                out.append("chn%d" % k)   # d_{k+1}.chainDeferred(d_k); excludes wait_k and vice versa
    return tuple(out)


class _V:
    __slots__ = ("k",)

    def __init__(self, k):
        self.k = k


class _E(Exception):
    def __init__(self, k):
        Exception.__init__(self, k)
        self.k = k


class Boom(Exception):
    pass


_TW = {}
_CNT = {}
_DEBUGGING = [False]   # defer.setDebugging(True) is in force for the histories being run
_SUBCLS = [None]       # when set: every Deferred of the histories is an instance of this Deferred subclass


def _subclass():
    if "Sub" not in _TW:
        class HarnessDeferred(_tw()["D"]):
            """A trivial application subclass of Deferred."""

        _TW["Sub"] = HarnessDeferred
    return _TW["Sub"]


def _bump(name):
    _CNT[name] = _CNT.get(name, 0) + 1


def _flush(ctx):
    for k, v in _CNT.items():
        ctx.count(k, v)
    _CNT.clear()


def _tw():
    if not _TW:
        from twisted.internet.defer import AlreadyCalledError, CancelledError, Deferred
        from twisted.logger import globalLogBeginner
        from twisted.python.failure import Failure

        _TW.update(D=Deferred, ACE=AlreadyCalledError, CE=CancelledError, F=Failure, logged=[0])

        def obs(event):
            if event.get("log_failure") is not None:
                _TW["logged"][0] += 1

        # most histories leave failures unhandled on purpose; keep them off stderr
        globalLogBeginner.beginLoggingTo([obs], discardBuffer=True, redirectStandardIO=False)
    return _TW


class World:
    """Real chain d0..d{n-1} + model, compared after every action."""

    def __init__(self, ctx, cfg):
        tw = _tw()
        self.ctx = ctx
        self.fullcfg = cfg
        self.ext, cfg = split(cfg)
        self.cfg = cfg
        self.n = n = len(cfg)
        self.acts = actions_for(n, self.ext)
        self.tw = tw
        self.step = 0
        self.hist = []
        self.log = []        # real events of the current action
        self.bad = False
        D = _SUBCLS[0] or tw["D"]
        self.ds = [D() if nocanceller(cfg[k]) else D(self._canceller(k)) for k in range(n)]
        for k, d in enumerate(self.ds):
            d.addBoth(self._rec("rec", k))
            if cfg[k].endswith(("+re", "+reeb")):
                d.addBoth(self._refire(k))
        # model
        self.ms = ["U"] * n
        self.res = [NORES] * n
        self.queue = [["rec", "refire"] if cfg[k].endswith(("+re", "+reeb")) else ["rec"] for k in range(n)]
        # "rec" | "refire" | "wait" | "after" | ("cont", waiter) | ("chain", target)
        self.refired = [False] * n                 # the re-entrant late fire of d_k was ignored
        self.waiting = [False] * n                 # d_k waits on d_{k+1}
        self.waitused = [False] * n                # wait_k or chn_k used
        self.upaused = [0] * n                     # pauses made by the history
        self.exp = []
        self.fwd = 0

    # ---- real side ---------------------------------------------------------------------------
    def rr(self, x):
        tw = self.tw
        if x is None:
            return None
        if type(x) is _V:
            return ("V", x.k)
        if isinstance(x, tw["F"]):
            if x.check(tw["CE"]):
                return CANCELLED
            if type(x.value) is _E:
                return ("F", x.value.k)
            return ("F", "ACE") if x.check(tw["ACE"]) else ("F?", repr(x.value)[:60])
        if isinstance(x, tw["D"]):
            return ("D",)
        return NORES if x is NORES else ("?", repr(x)[:60])

    def _rec(self, name, k):
        def rec(x):
            self.log.append((name, k, self.rr(x)))
            return x
        return rec

    def _refire(self, k):
        """A callback of d_k that answers CancelledError by firing d_k itself, then passes the failure on."""
        def refire(x):
            tw = self.tw
            if isinstance(x, tw["F"]) and x.check(tw["CE"]):
                tag = "r%d.%d" % (k, self.step)
                try:
                    if self.cfg[k].endswith("+reeb"):
                        self.ds[k].errback(_E(tag))
                    else:
                        self.ds[k].callback(_V(tag))
                except tw["ACE"]:
                    self.log.append(("refire", k, "AlreadyCalledError"))
                else:
                    self.log.append(("refire", k, None))
            return x
        return refire

    def _canceller(self, k):
        def canceller(dd):
            kind = self.cfg[k]
            self.log.append(("canceller", k))
            tag = "c%d.%d" % (k, self.step)
            if kind == "cb":
                dd.callback(_V(tag))
            elif kind == "eb":
                dd.errback(_E(tag))
            elif kind == "raises":
                raise Boom(tag)
            elif kind == "firedown" or kind == "fireup":
                j = k + 1 if kind == "firedown" else k - 1
                if 0 <= j < self.n:
                    try:
                        self.ds[j].callback(_V("x%d.%d" % (k, self.step)))
                    except self.tw["ACE"]:
                        self.log.append(("cACE", k))
            elif kind == "cancelnext":
                if k + 1 < self.n:
                    self.ds[k + 1].cancel()
            elif kind == "cbraise":
                dd.callback(_V(tag))
                raise Boom(tag)
        return canceller

    def _real(self, verb, k):
        d = self.ds[k]
        tag = "d%d.%d" % (k, self.step)
        if verb == "cb":
            d.callback(_V(tag))
        elif verb == "eb":
            d.errback(_E(tag))
        elif verb == "cancel":
            d.cancel()
        elif verb == "pause":
            d.pause()
        elif verb == "unpause":
            d.unpause()
        elif verb == "chn":
            self.ds[k + 1].chainDeferred(d)
        else:
            nxt = self.ds[k + 1]
            d.addBoth(lambda _: nxt)
            d.addBoth(self._rec("after", k))

    # ---- model side --------------------------------------------------------------------------
    def _run(self, k):
        q = self.queue[k]
        while q and not self.waiting[k] and not self.upaused[k] and self.ms[k] != "U":
            it = q.pop(0)
            if it == "rec" or it == "after":
                self.exp.append((it, k, self.res[k]))
            elif it == "refire":
                if self.res[k] == CANCELLED:
                    r = self._fire(k, ("V", "r%d.%d" % (k, self.step)))   # d_k is fired: ignored (S) or refused (F)
                    self.exp.append(("refire", k, r))
                    if r is None:
                        self.refired[k] = True
                        _bump("reentrant_late_fires_ignored")
                    else:
                        _bump("reentrant_late_fires_already_called")
            elif it == "wait":
                j = k + 1
                if self.ms[j] != "U" and not self.waiting[j] and not self.upaused[j]:
                    self.res[k], self.res[j] = self.res[j], None
                else:
                    self.waiting[k] = True
                    self.res[k] = ("D",)
                    self.queue[j].append(("cont", k))
            elif it[0] == "chain":
                # chainDeferred pair (d_o.callback, d_o.errback): returns None, or raises AlreadyCalledError
                _bump("chaindeferred_pairs_run")
                r = self._fire(it[1], self.res[k])
                self.res[k] = ("F", "ACE") if r else None
            else:
                o = it[1]
                self.res[o], self.res[k] = self.res[k], None
                self.waiting[o] = False   # d_o has its result: from here on it waits on nothing
                self._run(o)

    def _deliver(self, k, r):
        self.res[k] = r
        self._run(k)

    def _fire(self, k, r):
        st = self.ms[k]
        if st == "U":
            self.ms[k] = "F"
            self._deliver(k, r)
            return None
        if st == "S":
            self.ms[k] = "F"
            _bump("swallowed_late_results")
            return None
        _bump("already_called_errors")
        if self.refired[k]:
            _bump("fires_after_ignored_reentrant_fire")
        return "AlreadyCalledError"

    def _cancel(self, k, boomed):
        """Returns True if a raising canceller ran (exception allowed)."""
        if self.ms[k] != "U":
            if self.waiting[k]:
                self.fwd += 1
                return self._cancel(k + 1, boomed)
            _bump("cancel_no_effect")
            if self.upaused[k]:
                _bump("cancel_no_effect_fired_paused")
            return False
        kind = self.cfg[k]
        tag = "c%d.%d" % (k, self.step)
        if nocanceller(kind):
            self.ms[k] = "S"
            self._deliver(k, CANCELLED)
            return False
        self.exp.append(("canceller", k))
        _bump("canceller_calls")
        if kind == "raises":
            _bump("raising_canceller_calls")
            if not boomed:  # swallowed: must then behave like a canceller that did nothing
                self.ms[k] = "F"
                self._deliver(k, CANCELLED)
            return True
        if kind == "cbraise":
            _bump("raising_canceller_calls")
            _bump("reentrant_canceller_calls")
            self.ms[k] = "F"
            self._deliver(k, ("V", tag))
            return True
        if kind in ("firedown", "fireup", "cancelnext"):
            _bump("reentrant_canceller_calls")
            j = k - 1 if kind == "fireup" else k + 1
            if 0 <= j < self.n:
                if kind == "cancelnext":
                    self._cancel(j, False)
                elif self._fire(j, ("V", "x%d.%d" % (k, self.step))) is not None:
                    self.exp.append(("cACE", k))
                    _bump("canceller_nested_already_called")
            if self.ms[k] == "U":
                self.ms[k] = "F"
                self._deliver(k, CANCELLED)
            return False
        self.ms[k] = "F"
        self._deliver(k, ("V", tag) if kind == "cb" else ("F", tag) if kind == "eb" else CANCELLED)
        return False

    def _model(self, verb, k, boomed):
        tag = "d%d.%d" % (k, self.step)
        if verb == "cb":
            return self._fire(k, ("V", tag)), False
        if verb == "eb":
            return self._fire(k, ("F", tag)), False
        if verb == "wait":
            self.waitused[k] = True
            self.queue[k] += ["wait", "after"]
            self._run(k)
            return None, False
        if verb == "chn":
            self.waitused[k] = True
            self.queue[k + 1].append(("chain", k))
            self._run(k + 1)
            return None, False
        if verb == "pause":
            self.upaused[k] += 1
            return None, False
        if verb == "unpause":
            self.upaused[k] -= 1
            self._run(k)
            return None, False
        self.fwd = 0
        boom_ok = self._cancel(k, boomed)
        if self.fwd == 1:
            _bump("cancel_forwarded_one_level")
        elif self.fwd == 2:
            _bump("cancel_forwarded_two_levels")
        elif self.fwd >= 3:
            _bump("cancel_forwarded_three_levels")
        return None, boom_ok

    # ---- E1 interface ------------------------------------------------------------------------
    def actions(self):
        if self.bad:
            return []
        out = []
        for a in self.acts:
            c, k = a[0], int(a[-1])
            if (c == "w" or a[1] == "h") and self.waitused[k]:
                continue
            if c == "p" and self.upaused[k] >= maxpause(self.ext):
                continue
            if c == "u" and not self.upaused[k]:
                continue
            out.append(a)
        return out

    def apply(self, a):
        self.step += 1
        self.hist.append(a)
        self.log = []
        self.exp = []
        self.fwd = 0
        verb, k = a[:-1], int(a[-1])
        exc = None
        try:
            self._real(verb, k)
        except BaseException as e:  # noqa: B036
            if isinstance(e, (KeyboardInterrupt, SystemExit)):
                raise
            exc = type(e).__name__
        want_exc, boom_ok = self._model(verb, k, exc == "Boom")
        _bump("steps_compared")
        ok_exc = exc == want_exc or (boom_ok and exc == "Boom" and want_exc is None)
        real_state = [(d.called, self.rr(getattr(d, "result", NORES))) for d in self.ds]
        model_state = [(self.ms[i] != "U", self.res[i]) for i in range(self.n)]
        if ok_exc and self.log == self.exp and real_state == model_state:
            return
        self.bad = True
        w = {"config": list(self.fullcfg), "history": list(self.hist), "model_user_pauses": list(self.upaused),
             "failing_action": a, "expected_exception": want_exc, "raised": exc,
             "expected_events": self.exp, "observed_events": self.log,
             "expected_called_result": model_state, "observed_called_result": real_state,
             "model_states": list(self.ms), "model_waiting": list(self.waiting),
             "cancel_forwarded_levels": self.fwd, "debugging": _DEBUGGING[0],
             "deferred_subclass": _SUBCLS[0] is not None}
        if not ok_exc:
            if want_exc == "AlreadyCalledError":
                key, what = "second-result-accepted", "a further callback/errback on a fired Deferred did not raise AlreadyCalledError"
            elif exc == "AlreadyCalledError":
                key, what = "already-called-raised-wrongly", "AlreadyCalledError raised where the protocol accepts or swallows the call"
            else:
                key, what = "unexpected-exception", "a call raised an exception the protocol does not allow"
        else:
            n_exp = sum(1 for e in self.exp if e[0] == "canceller")
            n_got = sum(1 for e in self.log if e[0] == "canceller")
            rf_exp = [e for e in self.exp if e[0] == "refire"]
            rf_got = [e for e in self.log if e[0] == "refire"]
            if rf_exp != rf_got and len(rf_exp) == len(rf_got):
                i = next(i for i in range(len(rf_exp)) if rf_exp[i] != rf_got[i])
                if rf_exp[i][1] == rf_got[i][1] and rf_exp[i][2] is None:
                    key, what = "late-fire-during-cancel-not-ignored", (
                        "the one callback/errback made on a Deferred (by one of its own callbacks, reacting to the "
                        "CancelledError) while its canceller-less cancel() was still running raised AlreadyCalledError")
                else:
                    key, what = "late-fire-during-cancel-ignored-wrongly", (
                        "a callback/errback made on an already fired Deferred by one of its own callbacks was "
                        "silently ignored although no canceller-less cancel() of that Deferred preceded it")
            elif verb == "cancel" and self.fwd >= 2 and not self.log:
                key, what = "nested-cancel-not-forwarded", ("cancel() on a fired Deferred waiting on a fired Deferred that itself "
                                                            "waits on an outstanding one had no effect")
            elif n_exp != n_got:
                key, what = "canceller-call-count", "canceller not called exactly once for cancel() on an unfired Deferred (or called on a fired one)"
            elif verb == "cancel" and not self.exp and self.fwd == 0:
                key, what = "cancel-of-fired-not-waiting-had-effect", ("cancel() on a fired Deferred that is not waiting on another "
                                                                       "Deferred must have no effect")
            elif verb == "cancel":
                key, what = "cancel-effect-mismatch", "the effect of cancel() differs from the cancellation protocol"
            else:
                key, what = "delivery-mismatch", "results delivered to callbacks differ from the one-result model"
        self.ctx.violation(key, what, w)

    def state(self):
        def kind(r):
            return r[0] if isinstance(r, tuple) else r

        out = [self.bad]
        for i, x in enumerate(self.ds):
            r = self.rr(getattr(x, "result", NORES))
            ct = getattr(x, "_chainedTo", None)
            out.append((self.ms[i], self.waiting[i], self.waitused[i], self.upaused[i], kind(self.res[i]),
                        next((j for j, y in enumerate(self.ds) if y is ct), None),
                        tuple(q if isinstance(q, str) else q[0] for q in self.queue[i]),
                        x.called, x._suppressAlreadyCalled, x.paused, kind(r), len(x.callbacks), x._canceller is not None))
        return tuple(out)


def _swallow(f):
    return None


def histories(n, length, ext=False):
    """All action lists of exactly `length`: wait_k / chn_k at most once per k (and not both), at most
    MAXPAUSE outstanding pauses per Deferred, unpause only with an outstanding pause."""
    acts = actions_for(n, ext)
    h = []
    used = [False] * n
    up = [0] * n

    def rec():
        if len(h) == length:
            yield tuple(h)
            return
        for a in acts:
            c, k = a[0], int(a[-1])
            link = c == "w" or a[1] == "h"
            if link:
                if used[k]:
                    continue
                used[k] = True
            elif c == "p":
                if up[k] >= maxpause(ext):
                    continue
                up[k] += 1
            elif c == "u":
                if not up[k]:
                    continue
                up[k] -= 1
            h.append(a)
            yield from rec()
            h.pop()
            if link:
                used[k] = False
            elif c == "p":
                up[k] -= 1
            elif c == "u":
                up[k] += 1

    yield from rec()


def run_history(ctx, cfg, h, origin):
    w = World(ctx, cfg)
    for a in h:
        w.apply(a)
        if w.bad:
            break
    # after the last comparison: consume left-over failures so that GC does not log each of them
    for d in w.ds:
        d.addErrback(_swallow)
    ctx.evaluated()
    fired = set()
    nontrivial = False
    for a in h:
        if a[0] in "wpu" or a[1] == "h":
            continue
        if a[1] == "a":  # cancelN
            nontrivial = True
        elif a[-1] in fired:
            nontrivial = True
        fired.add(a[-1])
    if nontrivial:
        ctx.count("nontrivial_histories")
        if origin != "enum" or ctx.counters["nontrivial_histories"] <= 30000:
            ctx.distinct((cfg, h))
    return w


def plan(ctx):
    """[(configs, length)] enumerated unpruned, and the exploration depth."""
    scale = float(os.environ.get("VERIF_SCALE", "1"))
    if ctx.quick or scale < 1:  # smoke runs of the thorough tier use the quick plan
        return [(CONFIGS2, 5), (CONFIGS2_LONG, 6), (CONFIGS3[:3], 5), (CONFIGS3_RE, 4), (CONFIGS2_EXT, 4), (CONFIGS3_EXT, 4),
                (CONFIGS2_RF, 4), (CONFIGS3_RF, 4), (CONFIGS2_EXT_RF, 4)], 12, True
    return [(CONFIGS2, 6), (CONFIGS2_LONG, 7), (CONFIGS3, 6), (CONFIGS3_RE, 5), (CONFIGS3_RE_LONG, 6), (CONFIGS4[:2], 5),
            (CONFIGS2_EXT, 5), (CONFIGS3_EXT, 5), (CONFIGS2_RF, 5), (CONFIGS3_RF, 5), (CONFIGS2_EXT_RF, 4)], 16, True


def explore_configs(quick=False):
    out = list(CONFIGS2) + list(CONFIGS3)
    for a in ("none", "nothing", "raises"):
        for b in ("none", "nothing", "cb"):
            for c in ("none", "nothing", "eb"):
                if (a, b, c) not in out:
                    out.append((a, b, c))
    for c in [("none", "none", "raises"), ("nothing", "cb", "raises"), ("eb", "none", "raises"), ("raises", "cb", "eb")]:
        if c not in out:
            out.append(c)
    out += CONFIGS3_RE + (CONFIGS4[:1] + CONFIGS4[3:4] if quick else CONFIGS4)
    out += CONFIGS2_RF + CONFIGS3_RF + CONFIGS2_EXT_RF
    out += (CONFIGS2_EXT[:2] + CONFIGS3_EXT[:1]) if quick else (CONFIGS2_EXT + CONFIGS3_EXT + [(EXT, "raises", "nothing"), (EXT, "eb", "cb")])
    return out


def run(ctx):
    _tw()
    spaces, deep, complete = plan(ctx)
    ctx.extra["enumerated"] = ["%d-level chain%s, %d configurations, length %d" % (
        len(split(c[0])[1]), " + pause/unpause/chainDeferred" if c[0][0] in (EXT, LITE) else "", len(c), L) for c, L in spaces]
    ctx.extra["explored_length"] = deep
    from twisted.internet import defer

    was_debugging = defer.getDebugging()
    defer.setDebugging(False)
    tot = [0, 0]  # histories run, running index for sharding

    def enumerate_spaces(spaces, debugging):
        for cfgs, length in spaces:
            for cfg in cfgs:
                ctx.seen("configs", "/".join(cfg) + (" (debugging on)" if debugging else ""))
                first = True
                cnt = 0
                ext, kinds = split(cfg)
                for h in histories(len(kinds), length, ext):
                    tot[1] += 1
                    if tot[1] % ctx.nshards != ctx.shard:
                        continue
                    w = run_history(ctx, cfg, h, "enum")
                    tot[0] += 1
                    cnt += 1
                    if tot[0] % 5000 == 0:
                        gc.collect()
                    if first and cnt > 200 and len(ctx.samples) < 4:
                        first = False
                        ctx.sample({"config": cfg, "history": h, "last_events": w.log, "model": list(w.ms), "debugging": debugging})
                ctx.count("histories_%dlevel" % len(kinds), cnt)
                if ext:
                    ctx.count("histories_pause_chaindeferred", cnt)
                if cfg in CONFIGS3_RE:
                    ctx.count("histories_reentrant_cancellers", cnt)
                if cfg in _RF_ALL:
                    ctx.count("histories_reentrant_late_fire", cnt)
                if debugging:
                    ctx.count("histories_with_debugging_on", cnt)
                if _SUBCLS[0] is not None:
                    ctx.count("histories_with_deferred_subclass_levels", cnt)

    enumerate_spaces(spaces, False)
    # the statement holds whatever Deferred.debug is: a block of histories again with defer.setDebugging(True)
    # (process-global flag, restored afterwards), same oracle
    short = 4 if deep <= 12 else 5
    _DEBUGGING[0] = True
    defer.setDebugging(True)
    try:
        enumerate_spaces([(CONFIGS2, short), (CONFIGS3[:2], short), (CONFIGS2_EXT[:2], short - 1), (CONFIGS3_RE[:2], short - 1),
                          (CONFIGS2_RF[2:3], short - 1)], True)
        if ctx.shard == ctx.nshards - 1:
            for cfg in [("none", "none"), ("nothing", "cb"), ("none", "none", "nothing")]:
                explore.dfs(ctx, lambda cfg=cfg: World(ctx, cfg), 10, shard_depth=0)
                ctx.count("explorations_with_debugging_on")
    finally:
        defer.setDebugging(False)
        _DEBUGGING[0] = False
    # the statement says "a Deferred": a block with every level an instance of a trivial Deferred subclass
    _SUBCLS[0] = _subclass()
    try:
        enumerate_spaces([(CONFIGS2, short), (CONFIGS3[:3], short), (CONFIGS2_EXT[:1], short - 1), (CONFIGS2_RF[:1], short - 1)], False)
        if ctx.shard == 0:
            for cfg in [("none", "nothing"), ("none", "none", "nothing"), ("nothing", "none", "cb", "raises")]:
                explore.dfs(ctx, lambda cfg=cfg: World(ctx, cfg), 10, shard_depth=0)
                ctx.count("explorations_with_deferred_subclass_levels")
    finally:
        _SUBCLS[0] = None
    ctx.count("enumerated_histories", tot[0])
    ctx.exhaustive = None
    # deeper, with state pruning (E1)
    # (the reachable state space saturates from any first action, so splitting one configuration's
    # exploration by prefix would repeat the work in every shard: whole configurations are dealt out,
    # heaviest - the four-level ones - first)
    cfgs = sorted(explore_configs(ctx.quick or float(os.environ.get("VERIF_SCALE", "1")) < 1),
                  key=lambda c: -(len(c) + (3 if c[0] in (EXT, LITE) else 0)))
    for ci, cfg in enumerate(cfgs):
        if ci % ctx.nshards != ctx.shard:
            continue
        ctx.seen("explored_configs", "/".join(cfg))
        # the pause/chainDeferred alphabets have much larger state spaces: shallower bounds there
        d = deep if cfg[0] not in (EXT, LITE) else {EXT: (8, 11), LITE: (7, 9)}[cfg[0]][0 if deep <= 12 else 1]
        explore.dfs(ctx, lambda cfg=cfg: World(ctx, cfg), d, shard_depth=0)
        ctx.evaluated()
    gc.collect()
    _flush(ctx)
    ctx.count("gc_logged_unhandled_failures", _tw()["logged"][0])
    if not complete:
        ctx.exhaustive = False
    defer.setDebugging(was_debugging)


def replay(ctx, w):
    from twisted.internet import defer

    x = w["witness"]
    was = defer.getDebugging()
    defer.setDebugging(bool(x.get("debugging")))
    _DEBUGGING[0] = bool(x.get("debugging"))
    _SUBCLS[0] = _subclass() if x.get("deferred_subclass") else None
    try:
        run_history(ctx, tuple(x["config"]), tuple(x["history"]), "replay")
    finally:
        defer.setDebugging(was)
        _DEBUGGING[0] = False
        _SUBCLS[0] = None
    _flush(ctx)
