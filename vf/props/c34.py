"""C34 RFC 1982 serial-number arithmetic — exhaustive small widths + biased random wide pairs.

Monitor: every comparison operator and addition of the real SerialNumber is evaluated and
compared with a reference written directly from RFC 1982 section 3.2 on Python ints.
"""
import itertools

LEVEL = "exploration"
RULE = ("all ordered pairs (i1,i2) for serial widths 1..8 (quick) / 1..10 (thorough) with all six "
        "comparison operators, plus additions s+n for every s and every n in 0..2^bits (also the "
        "refused ones); random pairs for widths 16/32/64 biased to ring boundaries and to pairs "
        "exactly half the ring apart.  A case is distinct by (bits, i1, i2) or (bits, s, n); "
        "non-trivial = i1 != i2 (comparisons) or n > 0 (additions).")
ASSUMPTIONS = ["the RFC 1982 reference in this module (15 lines on Python ints) is the oracle; "
               "the Lean proof named in the property text is outside this technique family"]
SHARDS = {"quick": 4, "thorough": 16}
READY = True
FLOORS = {"compare_pairs": 1000, "additions": 500, "half_ring_pairs": 10, "refused_additions": 10}


def ref_lt(b, i1, i2):
    h = 2 ** (b - 1)
    return (i1 < i2 and i2 - i1 < h) or (i1 > i2 and i1 - i2 > h)


def ref_gt(b, i1, i2):
    h = 2 ** (b - 1)
    return (i1 < i2 and i2 - i1 > h) or (i1 > i2 and i1 - i2 < h)


def check_pair(ctx, SN, b, i1, i2):
    a, c = SN(i1, b), SN(i2, b)
    m = 2 ** b
    i1 %= m
    i2 %= m
    lt, gt, eq = ref_lt(b, i1, i2), ref_gt(b, i1, i2), i1 == i2
    exp = {"lt": lt, "gt": gt, "eq": eq, "ne": not eq, "le": lt or eq, "ge": gt or eq}
    got = {"lt": a < c, "gt": a > c, "eq": a == c, "ne": a != c, "le": a <= c, "ge": a >= c}
    ctx.count("compare_pairs")
    half = (i1 - i2) % m == m // 2 and b > 1 or (b == 1 and i1 != i2)
    if half:
        ctx.count("half_ring_pairs")
    if not eq:
        ctx.distinct(("cmp", b, i1, i2))
    for op in exp:
        if got[op] is not exp[op] and got[op] != exp[op]:
            ctx.violation("compare-%s-disagrees-with-rfc1982" % op,
                          "SerialNumber comparison %s differs from RFC 1982 3.2" % op,
                          {"bits": b, "i1": i1, "i2": i2, "op": op, "expected": exp[op], "got": got[op], "half_ring_apart": bool(half)})
    # exactly one of lt/eq/gt unless half the ring apart
    n_true = sum(1 for x in (got["lt"], got["eq"], got["gt"]) if x)
    want = 0 if (half and not eq) else 1
    if n_true != want:
        ctx.violation("trichotomy", "lt/eq/gt trichotomy broken",
                      {"bits": b, "i1": i1, "i2": i2, "got": got, "half_ring_apart": bool(half)})


def check_add(ctx, SN, b, s, n):
    m = 2 ** b
    maxadd = 2 ** (b - 1) - 1
    ctx.count("additions")
    if n > 0:
        ctx.distinct(("add", b, s % m, n))
    try:
        r = SN(s, b) + SN(n, b)
    except ArithmeticError:
        ctx.count("refused_additions")
        if 0 <= n <= maxadd:
            ctx.violation("add-refused-in-range", "addition of n <= 2^(bits-1)-1 refused",
                          {"bits": b, "s": s, "n": n})
        return
    if n > maxadd:
        ctx.violation("add-accepted-out-of-range", "addition of n > 2^(bits-1)-1 accepted",
                      {"bits": b, "s": s, "n": n, "result": int(r)})
        return
    if int(r) != (s + n) % m:
        ctx.violation("add-wrong-value", "s+n != (s+n) mod 2^bits", {"bits": b, "s": s, "n": n, "result": int(r)})
    if n > 0 and not (r > SN(s, b)):
        ctx.violation("add-not-greater", "s+n does not compare greater than s", {"bits": b, "s": s, "n": n})
    if n > 0 and not (SN(s, b) < r):
        ctx.violation("add-not-greater", "s does not compare less than s+n", {"bits": b, "s": s, "n": n})


def run(ctx):
    from twisted.names._rfc1982 import SerialNumber as SN

    maxw = 8 if ctx.quick else 10
    k = 0
    for b in range(1, maxw + 1):
        m = 2 ** b
        for i1 in range(m):
            k += 1
            if not ctx.owns(k):
                continue
            for i2 in range(m):
                check_pair(ctx, SN, b, i1, i2)
                ctx.evaluated()
            # additions: every n that is a representable serial number (0..m-1); n > maxAdd must be refused
            for n in range(m):
                check_add(ctx, SN, b, i1, n)
                ctx.evaluated()
    ctx.exhaustive = True
    # widths must match
    try:
        SN(1, 8) < SN(1, 16)
        ctx.violation("width-mismatch-accepted", "comparison across widths did not raise TypeError", {})
    except TypeError:
        ctx.count("width_mismatch_refused")
    try:
        SN(1, 8) + SN(1, 16)
        ctx.violation("width-mismatch-accepted", "addition across widths did not raise TypeError", {})
    except TypeError:
        ctx.count("width_mismatch_refused")
    # wide widths, biased random
    rng = ctx.case_rng("wide", ctx.shard)
    for i in ctx.cases(100000, 10000000):
        b = (16, 32, 64)[i % 3]
        m = 2 ** b
        h = m // 2
        specials = [0, 1, 2, h - 1, h, h + 1, m - 1, m - 2]
        i1 = rng.choice(specials) if rng.random() < 0.4 else rng.randrange(m)
        r = rng.random()
        if r < 0.25:
            i2 = (i1 + h) % m
        elif r < 0.5:
            i2 = (i1 + rng.choice([h - 1, h + 1, 1, m - 1, h - 2, h + 2])) % m
        elif r < 0.6:
            i2 = rng.choice(specials)
        else:
            i2 = rng.randrange(m)
        check_pair(ctx, SN, b, i1, i2)
        n = rng.choice([0, 1, h - 1, h, h + 1, h - 2, m - 1]) if rng.random() < 0.5 else rng.randrange(m)
        check_add(ctx, SN, b, i1, n)
        ctx.evaluated(2)
        if i < 3 * ctx.nshards:
            ctx.sample({"bits": b, "i1": i1, "i2": i2, "lt": SN(i1, b) < SN(i2, b), "gt": SN(i1, b) > SN(i2, b), "add_n": n})


def replay(ctx, w):
    from twisted.names._rfc1982 import SerialNumber as SN

    x = w["witness"]
    if "i1" in x:
        check_pair(ctx, SN, x["bits"], x["i1"], x["i2"])
    else:
        check_add(ctx, SN, x["bits"], x["s"], x["n"])
