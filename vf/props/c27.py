"""C27 RedirectAgent / BrowserLikeRedirectAgent — redirect chains against a recording inner agent.

Monitored: every request the redirect agent issues to the inner agent (method, URI, headers) and
the final result of the outer Deferred.  Oracle, evaluated hop by hop on the *recorded* requests:
request k (k >= 1) must target RFC 3986 5.2 resolution of Location(k-1) against the URI of request
k-1 (own resolver, cross-checked with urllib's urljoin); at most
redirectLimit follows; method rules as documented; sensitive headers absent on every request whose
origin (scheme, host, effective port) differs from the original request's origin.

Also generated: inner-agent Deferreds that are fired synchronously, later, already .called with the chain
waiting on an unfired Deferred, or fired and pause()d (released in request order); a second chain on the same
agent object reusing the caller's Headers object (state left over; a mutated caller object is only counted);
two or three chains in flight at once on one agent object with their hops resolved in interleaved order (per-chain
oracle unchanged); a hop failed by the inner agent (only exactly-once firing is judged, what follows is counted).

Guards (latitude the statement leaves): URIs are compared by components without the fragment and
with default ports normalised, "" and "/" paths equal; where own resolver and urljoin disagree the
case is skipped; 307/308 (and 301/302 for the strict agent) on a method other than GET/HEAD may
either fail with PageRedirect (documented: "not redirecting automatically") or be followed with the
same method, never with another one; 303 (and 301/302 for the browser-like agent) -> GET, a HEAD
may stay HEAD; when the agent stops on a redirect any failure whose precondition holds is accepted
(limit reached -> InfiniteRedirection, no Location -> RedirectWithNoLocation, method ->
PageRedirect); sensitive headers may be withheld even where they would be allowed; header-name
comparison is case-insensitive; non-sensitive headers are not checked.
"""
import re
from urllib.parse import urljoin, urlsplit

LEVEL = "exploration"
ENGINE = "core"
TECHNIQUE = "runtime monitoring: reference redirect walk (RFC 3986 5.2 resolver, method and origin rules) vs. requests recorded by a fake inner agent"
RULE = ("chains of 0..8 redirect responses (301/302/303/307/308, Location absolute / scheme-relative / "
        "absolute-path / relative-path / query-only / fragment-only / empty / missing) over 2 hosts x "
        "{default, 8080} ports x http/https, default ports explicit or implicit; methods GET/HEAD/POST/PUT/"
        "DELETE; redirectLimit 0..20; both agents; request headers with sensitive, configured-sensitive "
        "and harmless names; inner Deferreds fired synchronously or later.  Distinct by (agent, method, "
        "limit, start URI, chain); non-trivial = at least one redirect.")
ASSUMPTIONS = ["trusted base: the 40-line RFC 3986 5.2.2 resolver in this module (self-tested on the RFC 5.4 examples), cross-checked per case with urllib.parse.urljoin",
               "the inner agent is a fake that answers the k-th request with the k-th scripted response"]
SHARDS = {"quick": 4, "thorough": 16}
FLOORS = {"chains": 2000, "hops_checked": 3000, "relative_hops_after_first": 300, "cross_origin_requests_checked": 500,
          "sensitive_header_withheld": 200, "limit_failures": 50, "no_location_failures": 30, "method_switch_checked": 100,
          "chains_with_called_but_unfinished_inner_deferreds": 1000, "agent_reuse_chains": 500, "inner_failure_chains": 100,
          "interleaved_chains_on_one_agent": 1000}
READY = True

REDIRECTS = (301, 302, 303, 307, 308)
DEFAULT_SENSITIVE = ["Authorization", "Cookie", "Cookie2", "Proxy-Authorization", "WWW-Authenticate"]


# ---------------------------------------------------------------- RFC 3986 reference resolution
_URI = re.compile(r"^(([^:/?#]+):)?(//([^/?#]*))?([^?#]*)(\?([^#]*))?(#(.*))?$", re.S)


def _split(u):
    m = _URI.match(u)
    return m.group(2), m.group(4), m.group(5), m.group(7), m.group(9)


def _remove_dots(path):
    out = []
    inp = path
    while inp:
        if inp.startswith("../"):
            inp = inp[3:]
        elif inp.startswith("./"):
            inp = inp[2:]
        elif inp.startswith("/./"):
            inp = inp[2:]
        elif inp == "/.":
            inp = "/"
        elif inp.startswith("/../"):
            inp = inp[3:]
            if out:
                out.pop()
        elif inp == "/..":
            inp = "/"
            if out:
                out.pop()
        elif inp in (".", ".."):
            inp = ""
        else:
            i = inp.find("/", 1)
            seg, inp = (inp, "") if i < 0 else (inp[:i], inp[i:])
            out.append(seg)
    return "".join(out)


def resolve(base, ref):
    """RFC 3986 5.2.2 (strict), fragment of the reference kept."""
    bs, ba, bp, bq, _ = _split(base)
    rs, ra, rp, rq, rf = _split(ref)
    if rs is not None:
        ts, ta, tp, tq = rs, ra, _remove_dots(rp), rq
    else:
        if ra is not None:
            ta, tp, tq = ra, _remove_dots(rp), rq
        else:
            if rp == "":
                tp = bp
                tq = rq if rq is not None else bq
            else:
                if rp.startswith("/"):
                    tp = _remove_dots(rp)
                else:
                    merged = "/" + rp if (ba is not None and bp == "") else bp[:bp.rfind("/") + 1] + rp
                    tp = _remove_dots(merged)
                tq = rq
            ta = ba
        ts = bs
    out = ""
    if ts is not None:
        out += ts + ":"
    if ta is not None:
        out += "//" + ta
    out += tp
    if tq is not None:
        out += "?" + tq
    if rf is not None:
        out += "#" + rf
    return out


def selftest():
    b = "http://a/b/c/d;p?q"
    for ref, want in [("g:h", "g:h"), ("g", "http://a/b/c/g"), ("./g", "http://a/b/c/g"), ("g/", "http://a/b/c/g/"), ("/g", "http://a/g"),
                      ("//g", "http://g"), ("?y", "http://a/b/c/d;p?y"), ("g?y", "http://a/b/c/g?y"), ("#s", "http://a/b/c/d;p?q#s"),
                      ("g#s", "http://a/b/c/g#s"), (";x", "http://a/b/c/;x"), ("", "http://a/b/c/d;p?q"), (".", "http://a/b/c/"), ("./", "http://a/b/c/"),
                      ("..", "http://a/b/"), ("../g", "http://a/b/g"), ("../..", "http://a/"), ("../../g", "http://a/g"), ("../../../g", "http://a/g"),
                      ("/./g", "http://a/g"), ("/../g", "http://a/g"), ("g.", "http://a/b/c/g."), ("..g", "http://a/b/c/..g"), ("./../g", "http://a/b/g"),
                      ("g/./h", "http://a/b/c/g/h"), ("g/../h", "http://a/b/c/h"), ("g;x=1/../y", "http://a/b/c/y"), ("g?y/./x", "http://a/b/c/g?y/./x")]:
        got = resolve(b, ref)
        assert got == want, (ref, got, want)
    assert resolve("http://a", "r") == "http://a/r"
    assert resolve("https://a:8080/p/q/", "//b/k") == "https://b/k"
    assert components("http://A.example:80/x#f") == components("http://a.example/x")
    assert components("https://a.example") == ("https", "a.example", 443, "/", None)
    return True


def components(u):
    """(scheme, host, effective port, path, query) — the level at which targets are compared."""
    s = urlsplit(u)
    scheme = (s.scheme or "").lower()
    host = (s.hostname or "").lower()
    try:
        port = s.port
    except ValueError:
        port = -1
    if port is None:
        port = {"http": 80, "https": 443}.get(scheme)
    path = s.path or "/"
    q = u.split("#", 1)[0]
    query = q.split("?", 1)[1] if "?" in q else None
    return scheme, host, port, path, query


def origin(u):
    return components(u)[:3]


# ------------------------------------------------------------------------------------ generator
HOSTS = ["a.example", "b.example"]
PATHS = ["/", "/x/y", "/p/q/", "/a/b/c.html", "/x", "/deep/er/path/", "/x/y;param", "/one/", "/x/y?k=v", "/x/y#frag", "/x/y?k=v#frag"]


def gen_abs(rng, explicit_default=None):
    scheme = rng.choice(["http", "https"])
    host = rng.choice(HOSTS)
    r = rng.random()
    if r < 0.35:
        port = ":8080"
    elif r < 0.55 if explicit_default is None else explicit_default:
        port = ":80" if scheme == "http" else ":443"
    else:
        port = ""
    return "%s://%s%s" % (scheme, host, port)


def gen_location(rng):
    r = rng.random()
    if r < 0.22:
        return gen_abs(rng) + rng.choice(PATHS)
    if r < 0.30:
        return "//" + rng.choice(HOSTS) + rng.choice(["", ":8080", ":80", ":443"]) + rng.choice(PATHS)
    if r < 0.45:
        return rng.choice(PATHS)
    if r < 0.80:
        return rng.choice(["r", "../r", "./r", "sub/r", "../../r", "two", "r/", "..", ".", "../", "r?z=1", "../r#f", "../../../../up", "g;x=1/../y", "two/three/"])
    if r < 0.86:
        return rng.choice(["?q=1", "?", "?a=b&c=d"])
    if r < 0.91:
        return rng.choice(["#f", "#"])
    if r < 0.94:
        return ""
    return None  # no Location header


def gen_case(rng):
    agent = rng.choice(["strict", "browser"])
    method = rng.choice(["GET", "GET", "GET", "HEAD", "POST", "POST", "PUT", "DELETE"])
    limit = rng.choice([0, 1, 2, 3, 5, 20, 20, 20])
    start = gen_abs(rng) + rng.choice(PATHS)
    n = rng.choice([0, 1, 1, 2, 2, 3, 3, 4, 5, 6, 8])
    chain = []
    for _ in range(n):
        code = rng.choice(REDIRECTS)
        if method not in ("GET", "HEAD") and rng.random() < 0.5:
            code = rng.choice([303, 303, 301, 302, 308, 307])
        chain.append((code, gen_location(rng)))
    final = rng.choice([200, 200, 404, 500, 304, 300, 204])
    hdrs = []
    names = DEFAULT_SENSITIVE + ["X-Api-Key", "X-Custom", "User-Agent", "Accept"]
    for nm in names:
        if rng.random() < 0.5:
            shown = nm if rng.random() < 0.7 else nm.lower() if rng.random() < 0.5 else nm.upper()
            hdrs.append((shown, "v-%s" % nm.lower()))
    use_headers = rng.random() < 0.9
    configured = rng.choice([[], ["X-Api-Key"], ["x-api-key"], ["X-API-KEY", "X-Other"]])
    return {"agent": agent, "method": method, "limit": limit, "start": start, "chain": chain, "final": final,
            "headers": hdrs if use_headers else None, "configured": configured,
            "dkinds": [rng.choice(DKINDS) for _ in range(n + 2)] if rng.random() < 0.7 else [rng.choice(["sync", "later"])] * (n + 2),
            "fail_at": rng.randrange(n + 1) if rng.random() < 0.05 else None}


# -------------------------------------------------------------------------------------- harness
class FakeResponse:
    version = (b"HTTP", 1, 1)
    phrase = b"X"
    length = 0
    previousResponse = None

    def __init__(self, code, headers, index, request=None):
        self.code = code
        self.headers = headers
        self.index = index
        self.request = request  # IResponse.request: method / absoluteURI / headers of the request answered

    def setPreviousResponse(self, r):
        self.previousResponse = r

    def deliverBody(self, protocol):
        pass


class FakeRequest:
    def __init__(self, method, absoluteURI, headers):
        self.method, self.absoluteURI, self.headers = method, absoluteURI, headers


DKINDS = ["sync", "sync", "later", "later", "called-waiting", "fired-paused"]


class InnerFailure(Exception):
    """What the scripted inner agent fails a hop with (case['fail_at'])."""


def execute(case, shared=None):
    """Run one chain.  shared: {'agent', 'headers'} from an earlier chain on the same agent object."""
    from twisted.internet.defer import Deferred, succeed
    from twisted.web import client
    from twisted.web.http_headers import Headers

    script = [(c, l) for c, l in case["chain"]] + [(case["final"], None)]
    dkinds = case.get("dkinds") or ["sync" if case.get("sync", True) else "later"] * (len(script) + 1)
    recorded = []
    pending = []  # release callables, in request order
    responses = []

    def answer(method, uri, headers, bodyProducer):
        k = len(recorded)
        recorded.append({"method": method, "uri": uri, "headers": None if headers is None else
                         [(n, list(v)) for n, v in headers.getAllRawHeaders()], "bodyProducer": bodyProducer is not None})
        code, loc = script[k] if k < len(script) else (200, None)
        h = Headers()
        if loc is not None:
            h.addRawHeader(b"location", loc.encode("latin-1"))
        resp = FakeResponse(code, h, k, FakeRequest(method, uri, headers))
        responses.append(resp)
        value = resp
        if case.get("fail_at") == k:
            from twisted.python.failure import Failure

            value = Failure(InnerFailure("scripted failure of hop %d" % k))
        kind = dkinds[k] if k < len(dkinds) else "sync"
        if kind == "sync":
            d = Deferred()
            d.callback(value) if value is resp else d.errback(value)
            return d
        if kind == "later":
            d = Deferred()
            pending.append(lambda: d.callback(value) if value is resp else d.errback(value))
            return d
        if kind == "called-waiting":  # already .called, but its chain waits on an unfired Deferred
            inner = Deferred()
            d = succeed(None)
            d.addCallback(lambda _: inner)
            pending.append(lambda: inner.callback(value) if value is resp else inner.errback(value))
            return d
        d = Deferred()  # fired, then pause()d
        d.callback(value) if value is resp else d.errback(value)
        d.pause()
        pending.append(d.unpause)
        return d

    class Inner:
        def request(self, method, uri, headers=None, bodyProducer=None):
            return self.answer(method, uri, headers, bodyProducer)

    if shared is None or "agent" not in shared:
        cls = client.RedirectAgent if case["agent"] == "strict" else client.BrowserLikeRedirectAgent
        inner = Inner()
        ag = cls(inner, redirectLimit=case["limit"], sensitiveHeaderNames=[c.encode() for c in case["configured"]])
        if shared is not None:
            shared["agent"], shared["inner"] = ag, inner
    else:
        ag, inner = shared["agent"], shared["inner"]
    inner.answer = answer
    headers = None
    if case["headers"] is not None:
        if shared is not None and shared.get("headers") is not None:
            headers = shared["headers"]  # the caller-owned Headers object of the earlier chain, reused
        else:
            headers = Headers()
            for n, v in case["headers"]:
                headers.addRawHeader(n.encode(), v.encode())
            if shared is not None:
                shared["headers"] = headers
                shared["headers_snapshot"] = sorted((n, list(v)) for n, v in headers.getAllRawHeaders())
    result = []
    raised = None
    try:
        d = ag.request(case["method"].encode(), case["start"].encode("latin-1"), headers, None)
        d.addBoth(result.append)
        steps = 0
        while pending and steps < 64:
            pending.pop(0)()
            steps += 1
    except Exception as e:
        raised = "%s: %s" % (type(e).__name__, e)
    return recorded, result, raised, responses


def execute_interleaved(cases, rng):
    """Several chains in flight at once on ONE agent object; the scheduler fires the outstanding inner Deferreds in
    a random interleaved order.  An inner request belongs to the chain whose outer request() call or whose inner
    Deferred is being run at that moment.  -> [(recorded, result, raised, responses)] per chain."""
    from twisted.internet.defer import Deferred, succeed
    from twisted.python.failure import Failure
    from twisted.web import client
    from twisted.web.http_headers import Headers

    st = [{"script": [(c, l) for c, l in case["chain"]] + [(case["final"], None)], "recorded": [], "responses": [], "result": [], "raised": None}
          for case in cases]
    pending = []
    cur = [0]

    def answer(method, uri, headers, bodyProducer):
        ci = cur[0]
        c, case = st[ci], cases[ci]
        k = len(c["recorded"])
        c["recorded"].append({"method": method, "uri": uri, "headers": None if headers is None else
                              [(n, list(v)) for n, v in headers.getAllRawHeaders()], "bodyProducer": bodyProducer is not None})
        code, loc = c["script"][k] if k < len(c["script"]) else (200, None)
        h = Headers()
        if loc is not None:
            h.addRawHeader(b"location", loc.encode("latin-1"))
        resp = FakeResponse(code, h, k, FakeRequest(method, uri, headers))
        c["responses"].append(resp)
        kind = case["dkinds"][k] if k < len(case["dkinds"]) else "later"
        if kind == "sync" and k > 0:
            return succeed(resp)
        if kind == "called-waiting":
            inner = Deferred()
            d = succeed(None)
            d.addCallback(lambda _: inner)
            pending.append((ci, lambda: inner.callback(resp)))
            return d
        if kind == "fired-paused":
            d = succeed(resp)
            d.pause()
            pending.append((ci, d.unpause))
            return d
        d = Deferred()
        pending.append((ci, lambda: d.callback(resp)))
        return d

    class Inner:
        def request(self, method, uri, headers=None, bodyProducer=None):
            return answer(method, uri, headers, bodyProducer)

    c0 = cases[0]
    cls = client.RedirectAgent if c0["agent"] == "strict" else client.BrowserLikeRedirectAgent
    ag = cls(Inner(), redirectLimit=c0["limit"], sensitiveHeaderNames=[x.encode() for x in c0["configured"]])
    for ci, case in enumerate(cases):
        headers = None
        if case["headers"] is not None:
            headers = Headers()
            for n, v in case["headers"]:
                headers.addRawHeader(n.encode(), v.encode())
        cur[0] = ci
        try:
            ag.request(case["method"].encode(), case["start"].encode("latin-1"), headers, None).addBoth(st[ci]["result"].append)
        except Exception as e:
            st[ci]["raised"] = "%s: %s" % (type(e).__name__, e)
    steps = 0
    while pending and steps < 200:
        ci, rel = pending.pop(rng.randrange(len(pending)))
        cur[0] = ci
        try:
            rel()
        except Exception as e:
            st[ci]["raised"] = st[ci]["raised"] or "%s: %s" % (type(e).__name__, e)
        steps += 1
    return [(c["recorded"], c["result"], c["raised"], c["responses"]) for c in st]


def run_interleaved(ctx, rng):
    n = rng.choice([2, 2, 3])
    cases = [gen_case(rng) for _ in range(n)]
    for c in cases:
        c.update(agent=cases[0]["agent"], limit=cases[0]["limit"], configured=cases[0]["configured"], fail_at=None)
        c["dkinds"] = [rng.choice(["later", "later", "called-waiting", "fired-paused"])] + [rng.choice(DKINDS) for _ in range(len(c["chain"]) + 2)]
    if rng.random() < 0.6 and cases[0]["chain"]:
        # chain 0 carries credentials and is redirected to the origin another chain is talking to meanwhile
        if cases[0]["headers"] is None or not any(nm.lower() in ("authorization", "cookie") for nm, _ in cases[0]["headers"]):
            cases[0]["headers"] = [("Authorization", "v-authorization"), ("Cookie", "v-cookie"), ("X-Custom", "v-x")]
        s1 = urlsplit(cases[1]["start"])
        code = cases[0]["chain"][0][0] if cases[0]["method"] in ("GET", "HEAD") else 303
        cases[0]["chain"][0] = (code, "%s://%s/landing" % (s1.scheme, s1.netloc))
    outs = execute_interleaved(cases, rng)
    ctx.count("interleaved_groups")
    for case, o in zip(cases, outs):
        ctx.count("interleaved_chains_on_one_agent")
        ctx.evaluated()
        if case["chain"]:
            ctx.distinct(("interleaved", case["agent"], case["method"], case["limit"], case["start"], tuple(case["chain"]), case["final"]))
        check(ctx, dict(case, interleaved_with=[c["start"] for c in cases if c is not case]), *o)


def failure_kind(f):
    """Name of the innermost documented error of a failed redirect, or the outer type."""
    try:
        v = f.value
        reasons = getattr(v, "reasons", None)
        if reasons:
            return type(reasons[0].value).__name__
        return type(v).__name__
    except Exception:
        return "?"


def allowed_methods(agent, code, method):
    """-> (set of methods the follow-up may use, may_fail_with_PageRedirect)."""
    safe = method in ("GET", "HEAD")
    if code == 303 or (agent == "browser" and code in (301, 302)):
        return ({"GET", "HEAD"} if method == "HEAD" else {"GET"}), False
    # 307/308 everywhere, 301/302 for the strict agent: the method is preserved
    return {method}, not safe


def check(ctx, case, recorded, result, raised, responses):
    ctx.count("chains")
    sens = {n.lower() for n in DEFAULT_SENSITIVE} | {n.lower() for n in case["configured"]}
    wit = {"case": case, "requests": [{"method": r["method"], "uri": r["uri"], "headers": r["headers"]} for r in recorded[:12]]}

    def bad(key, what, **kw):
        w = dict(wit)
        w.update(kw)
        ctx.violation(key, what, w)
        return False

    if raised:
        return bad("agent-raised", "request() raised synchronously", raised=raised)
    if len(result) != 1:
        return bad("no-result", "the redirect agent's Deferred did not fire exactly once after all inner responses were delivered", fired=len(result))
    if not recorded or recorded[0]["method"] != case["method"].encode() or recorded[0]["uri"] != case["start"].encode("latin-1"):
        return bad("first-request-altered", "the first request is not the one asked for")
    script = case["chain"] + [(case["final"], None)]
    start_origin = origin(case["start"])
    for k in range(1, len(recorded)):
        if case.get("fail_at") is not None and k > case["fail_at"]:
            break
        prev, cur = recorded[k - 1], recorded[k]
        if k - 1 >= len(script):
            return bad("request-after-final", "a request was issued after the scripted final response")
        code, loc = script[k - 1]
        pm, cm = prev["method"].decode(), cur["method"].decode()
        if code not in REDIRECTS:
            return bad("followed-non-redirect", "a follow-up request was issued after a %d response" % code, hop=k)
        if k > case["limit"]:
            return bad("redirect-limit-exceeded", "more follow-up requests than redirectLimit", hop=k, limit=case["limit"])
        if loc is None:
            return bad("followed-without-location", "a follow-up request was issued although the redirect had no Location", hop=k)
        base = prev["uri"].decode("latin-1")
        exp = resolve(base, loc)
        if components(exp) != components(urljoin(base, loc)):
            ctx.count("reference_disagreement_skipped")
            return None
        got = cur["uri"].decode("latin-1")
        ctx.count("hops_checked")
        is_rel = _split(loc)[0] is None and _split(loc)[1] is None
        if k >= 2 and is_rel:
            ctx.count("relative_hops_after_first")
        if components(got) != components(exp):
            vs_original = resolve(case["start"], loc)
            if k >= 2 and components(got) == components(vs_original):
                return bad("redirect-resolved-against-original-uri",
                           "hop %d: Location resolved against the ORIGINAL request URI instead of the URI of the request that received the redirect" % k,
                           hop=k, location=loc, base=base, expected=exp, got=got)
            return bad("redirect-target-mismatch", "hop %d: follow-up URI differs from RFC 3986 resolution of Location against the previous request URI" % k,
                       hop=k, location=loc, base=base, expected=exp, got=got)
        allowed, _ = allowed_methods(case["agent"], code, pm)
        ctx.count("method_switch_checked" if pm not in ("GET", "HEAD") or code == 303 else "method_kept_checked")
        if cm not in allowed:
            if case["agent"] == "browser" and code == 308 and cm == "GET" and pm != "GET":
                return bad("browserlike-308-switches-to-get", "BrowserLikeRedirectAgent follows a 308 with GET instead of preserving the method",
                           hop=k, code=code, previous_method=pm, got_method=cm, allowed=sorted(allowed))
            return bad("redirect-method-mismatch", "hop %d: follow-up method not allowed after %d on %s" % (k, code, pm),
                       hop=k, code=code, previous_method=pm, got_method=cm, allowed=sorted(allowed))
        if cur["bodyProducer"]:
            ctx.count("follow_up_with_body")
        if origin(got) != start_origin:
            ctx.count("cross_origin_requests_checked")
            present = [n for n, _ in (cur["headers"] or []) if n.decode("latin-1").lower() in sens]
            if present:
                return bad("sensitive-header-sent-cross-origin", "hop %d: sensitive header sent to an origin other than the original request's" % k,
                           hop=k, leaked=present, original_origin=start_origin, request_origin=origin(got))
            if any(n.lower() in sens for n, _ in (case["headers"] or [])):
                ctx.count("sensitive_header_withheld")
    # ---- the outcome
    n = len(recorded)
    fa = case.get("fail_at")
    if fa is not None and n > fa:
        # the inner agent failed hop `fa`: the statement does not say what follows; exactly-once firing was checked above
        ctx.count("inner_failure_chains")
        from twisted.python.failure import Failure as _F

        if isinstance(result[0], _F) and result[0].check(InnerFailure):
            ctx.count("inner_failure_propagated")
        else:
            ctx.count("inner_failure_other_outcome_unjudged")
        if n > fa + 1:
            ctx.count("requests_after_failed_hop_unjudged")
        return True
    last_code, last_loc = script[n - 1] if n - 1 < len(script) else (200, None)
    res = result[0]
    from twisted.python.failure import Failure

    failed = isinstance(res, Failure)
    if last_code not in REDIRECTS:
        if failed:
            return bad("failed-on-final-response", "the chain ended with a non-redirect response but the Deferred failed", failure=failure_kind(res))
        if res is not responses[n - 1]:
            return bad("wrong-final-response", "the Deferred fired with something other than the last response")
        ctx.count("completed_chains")
        return True
    # the agent stopped on a redirect: there must be a documented reason
    pm = recorded[n - 1]["method"].decode()
    _, may_refuse = allowed_methods(case["agent"], last_code, pm)
    ok = set()
    if n - 1 >= case["limit"]:
        ok.add("InfiniteRedirection")
    if last_loc is None:
        ok.add("RedirectWithNoLocation")
    if may_refuse:
        ok.add("PageRedirect")
    if not failed:
        if ok == {"PageRedirect"} or not ok:
            return bad("redirect-returned-as-final", "a redirect response that had to be followed was returned as the result", code=last_code)
        return bad("redirect-returned-as-final", "a redirect that could not be followed was returned instead of failing", code=last_code, expected_failures=sorted(ok))
    kind = failure_kind(res)
    ctx.seen("failure_kinds", kind)
    if kind not in ok:
        return bad("wrong-failure", "the agent stopped on a redirect with %s; acceptable here: %s" % (kind, sorted(ok) or "none (must follow)"),
                   failure=kind, code=last_code, method=pm, follows=n - 1)
    ctx.count({"InfiniteRedirection": "limit_failures", "RedirectWithNoLocation": "no_location_failures", "PageRedirect": "page_redirect_failures"}[kind])
    return True


def run_case(ctx, case, sample=False, second=None):
    shared = {} if second is not None else None
    recorded, result, raised, responses = execute(case, shared)
    if any(k in ("called-waiting", "fired-paused") for k in (case.get("dkinds") or [])[:len(recorded)]):
        ctx.count("chains_with_called_but_unfinished_inner_deferreds")
    if second is not None:
        # a second chain on the SAME agent object (and, if both send headers, the same caller-owned Headers object)
        second = dict(second, agent=case["agent"], limit=case["limit"], configured=case["configured"])
        if second["headers"] is not None and case["headers"] is not None:
            second["headers"] = case["headers"]
        ctx.count("agent_reuse_chains")
        if shared.get("headers") is not None:
            now = sorted((n, list(v)) for n, v in shared["headers"].getAllRawHeaders())
            if now != shared["headers_snapshot"]:
                ctx.count("caller_headers_mutated_unjudged")
        r2 = execute(second, shared)
        ctx.evaluated()
        check(ctx, second, *r2)
    ctx.evaluated()
    if case["chain"]:
        ctx.distinct((case["agent"], case["method"], case["limit"], case["start"], tuple(case["chain"]), case["final"]))
    check(ctx, case, recorded, result, raised, responses)
    if sample:
        ctx.sample({"case": case, "requests": [(r["method"], r["uri"], [n for n, _ in (r["headers"] or [])]) for r in recorded],
                    "result": failure_kind(result[0]) if result and hasattr(result[0], "value") else ("response %d" % result[0].code if result else None)})


DIRECTED = [
    {"start": "http://a.example/x/y", "chain": [(302, "/p/q/"), (302, "r")]},
    {"start": "http://a.example/x/y", "chain": [(302, "http://b.example/one/"), (302, "two")]},
    {"start": "http://a.example/x/y", "chain": [(301, "https://a.example/x/y"), (301, "//b.example:8080/k"), (307, "../z")]},
    {"start": "http://a.example:8080/x/y", "chain": [(302, "http://a.example/x/y"), (302, "?q=1")]},
    {"start": "https://b.example/p/q/", "chain": [(303, "r"), (303, "r"), (303, "r")]},
    {"start": "http://a.example/x/y", "chain": [(308, "r")]},
    {"start": "http://a.example/x/y", "chain": [(307, "r")]},
    {"start": "http://a.example/x/y", "chain": [(302, None)]},
    {"start": "http://a.example/x/y", "chain": [(302, "a"), (302, "b"), (302, "c"), (302, "d")]},
]


def run(ctx):
    selftest()
    k = 0
    for d in DIRECTED:
        for agent in ("strict", "browser"):
            for method in ("GET", "HEAD", "POST"):
                for limit in (0, 1, 2, 20):
                    for sync in (True, False):
                        k += 1
                        if ctx.owns(k):
                            case = {"agent": agent, "method": method, "limit": limit, "start": d["start"], "chain": list(d["chain"]), "final": 200,
                                    "headers": [("Authorization", "v-a"), ("cookie", "v-c"), ("X-Api-Key", "v-k"), ("X-Custom", "v-x")],
                                    "configured": ["x-api-key"], "sync": sync}
                            run_case(ctx, case)
    for i in ctx.cases(20000, 1000000):
        rng = ctx.case_rng(i)
        if rng.random() < 0.1:
            run_interleaved(ctx, rng)
            continue
        case = gen_case(rng)
        run_case(ctx, case, sample=i < 2 * ctx.nshards, second=gen_case(rng) if rng.random() < 0.12 else None)


def replay(ctx, w):
    case = w["witness"]["case"]
    case["chain"] = [tuple(x) for x in case["chain"]]
    if case["headers"] is not None:
        case["headers"] = [tuple(x) for x in case["headers"]]
    run_case(ctx, case, sample=True)
