"""C28 Template flattening never lets content become markup.

Monitored: `twisted.web.template.flattenString(None, tree)` on generated trees of Tag (str/bytes
names), attributes, text (str/bytes), slot/fillSlots, Comment, CDATA, CharRef, lists/tuples/
generators, Deferreds (fired before / after flattening starts), coroutines, IRenderable Elements
with @renderer methods, and tags nested inside attribute values.

Oracles (both are parsers that know nothing about twisted; the expected token stream is derived
from the generated *spec*, not from the flattener):
  XML  — xml.parsers.expat over the output (latin-1 view, wrapped in a root element): must be
         well-formed and its event stream must equal the expected one after XML's own
         normalisation (line ends in text, white space in attribute values, adjacent text merged);
         every character of CDATA content must be reported inside a CDATA section and no other.
  HTML — the harness WHATWG tokenizer (vf.engines.html5tok) over the same bytes: same start/end
         tags, attribute names and values, comments and text.
An attribute whose value contains tags/comments ("markup mode", documented in
writeWithAttributeEscaping: the quoted markup "can be parsed from the attribute's value") is
checked by parsing the attribute value again with the same parser, recursively.

Guards against false alarms (latitude the statement leaves):
  * XML oracle only for XML-legal content (no C0 controls; no "--" inside comments: XML cannot
    express those at all).  HTML oracle not for trees containing CDATA (an XML-only construct).
  * comment data is compared modulo '>' written as '&gt;' and one padding space after a trailing
    '-' (escapedComment's documented mangling, and what any fix of it would do); the comment's
    *extent* is always checked through the surrounding tokens.
  * attribute order is not compared; a childless void element may be "<br />" or "<br>";
    HTML lower-cases names; NUL -> U+FFFD in HTML attribute values/comments; CR/CRLF -> LF.
  * CharRef only with ordinals that are legal characters in both XML and HTML, and never at the
    top level of a plain-string attribute (there the flattener quotes its "&", a documented
    consequence of "everything is quoted"); slot names are unique per tree (slotData is never
    popped for plain tags, which is outside C28).
  * elements named script, style, textarea, title, xmp, iframe, noembed, noframes, noscript, plaintext,
    svg, math ARE generated (mostly with hostile text children: </script>, </style>, <!--, ]]>, <b>,
    '&', 'a < b && c' ...).  For the flattener and for XML they are ordinary elements, so the XML
    oracle applies unchanged and is the one that decides on any unescaped '<' or '&' in their text.
    The HTML oracle is deliberately restricted to the same XML-visible structure for these names: the
    tokenizer stays in the data state (html5tok has no RAWTEXT/RCDATA/script-data/PLAINTEXT states and
    no foreign-content mode), because HTML's own content models would make child *tags* of such an
    element, or anything after <plaintext>, differ from the tree by design.  This loses nothing for
    text-only children: if the data-state token stream equals (start, text, end), the raw bytes
    between contain no '</' + letter at all, so the RAWTEXT/RCDATA "appropriate end tag" rule cannot
    fire early either; what HTML would additionally do (not decode '&lt;' inside <script>) alters
    the script's text, not the document structure.

Large-node family (added after the seeded regression C28-cdata-sliced-escape was missed): the random
trees never exceed a few hundred bytes per string, so an implementation that escapes or writes big
data in BUFFER_SIZE pieces was never exercised across a piece boundary.  `large_core()` enumerates,
for every node kind, every hostile multi-character sequence at every cut across offset 65536; the
rest of the tree is tiny and the same two oracles judge it.
"""
import gc
import re

LEVEL = "exploration"
ENGINE = "core"
TECHNIQUE = "runtime monitoring: re-parse of the flattened bytes with expat and a WHATWG tokenizer against the generating spec"
RULE = ("random trees (depth <= 5) from (seed, case index): tag/attribute names from a valid-name pool "
        "(str and bytes), strings built from a hostile fragment alphabet (< > & quotes, --, -->, --!>, <!--, "
        "]]>, ]], leading > and ->, trailing - and <!-, </tag>, <script>, entity look-alikes, CR/LF/TAB, "
        "NUL and C0/C1 controls, astral characters, invalid UTF-8 bytes); containers list/tuple/generator, "
        "slots, Deferreds fired before/after, coroutines, Elements with renderers, tags inside attributes. "
        "A case is distinct by its spec; non-trivial = at least one string containing a markup-significant "
        "fragment (counted separately as hostile_strings).  Plus the enumerated 'large node' family: one CDATA / "
        "Comment / text / attribute-value node of length 65536*k + small (str and bytes; direct, via Deferred fired "
        "before/after, coroutine, slot, list) with each multi-character hostile sequence (]]>, -->, --!>, <!--, --, "
        "&amp;-like, CRLF, multi-byte characters ...) at every cut position across offset 65536*k (seed-independent "
        "core, 384 trees) and a seeded sample over k = 1..3, other plausible buffer sizes (4096..131072), byte- vs "
        "character-based offsets and tails (60 quick / 6000 thorough).")
ASSUMPTIONS = [
    "trusted base: xml.parsers.expat (XML 1.0 well-formedness and events) and vf/engines/html5tok.py "
    "(WHATWG 13.2.5 tokenizer, data-state content only, self-tested on hand-written vectors)",
    "bytes are viewed 1:1 as ISO-8859-1 for both parsers so that arbitrary byte strings stay parseable; "
    "character-set correctness is not part of C28",
    "HTML tree construction (implied end tags, raw-text / RCDATA / script-data / PLAINTEXT content models, foreign "
    "content, foster parenting) is not modelled: the HTML oracle compares data-state token streams; for elements "
    "named script/style/textarea/... the XML oracle decides on unescaped markup in their text",
]
SHARDS = {"quick": 4, "thorough": 16}
FLOORS = {"xml_compared": 20000, "html_compared": 20000, "hostile_strings": 200000, "attr_markup_reparsed": 5000,
          "deferred_fired_late": 5000, "renderers_called": 500, "comments": 10000, "cdata_sections": 1000,
          # large-node family (a node longer than 64 KiB with a hostile sequence cut by a buffer-size multiple)
          "rawtext_named_elements": 15000, "rawtext_hostile_text_children": 10000,
          "large_trees": 300, "large_straddling_cdata": 40, "large_straddling_comment": 40, "large_straddling_text": 40,
          "large_straddling_attr": 40, "large_wrapped": 20, "large_bytes": 20, "large_other_buffer_sizes": 5}
READY = True

TAGS = ["div", "p", "span", "a", "b", "i", "ul", "li", "table", "td", "h1", "em", "x-custom", "svg:g",
        "ns.el", "t_1", "br", "img", "hr", "input", "meta", "link", "DIV", "Br"]
# names with a special content model in HTML (raw text, escapable raw text, script data, PLAINTEXT, foreign content);
# for the flattener and for XML they are ordinary elements and their text must be escaped like any other
RAW_NAMES = ["script", "style", "textarea", "title", "xmp", "iframe", "noembed", "noframes", "noscript", "plaintext", "svg", "math"]
TAGS = TAGS + RAW_NAMES + ["script", "style", "STYLE"]
BYTES_TAGS = [b"div", b"p", b"br", b"q", b"script", b"style"]
RAW_FOCUS = ["</script>", "</style>", "</textarea>", "</title>", "</SCRIPT >", "</script/", "</style\n>", "<!--", "-->", "]]>", "<b>",
             "&amp;", "&lt;/script&gt;", "<script>", "<", "&", "if (a < b && c > d)", "</", "<img src=x onerror=alert(1)>", "<![CDATA["]
ATTRS = ["class", "id", "href", "title", "data-x", "aria-label", "xlink:href", "on.x", "v_1", "Style", "alt"]
BYTES_ATTRS = [b"lang", b"rel"]
HOSTILE = ["<", ">", "&", '"', "'", "--", "-->", "--!>", "<!--", "]]>", "]]", "->", "-", "<!-", "</b>", "</p>",
           "</div>", "<script>", "<b x=\"1\">", "<![CDATA[", "&amp;", "&lt;", "&#60;", "&quot", "&gt", "/>", "=",
           "<!", "<?", "?>", "</", "<a", "--!", "!>", "]>", "`"]
COMMENT_FOCUS = ["--", "-->", "--!>", ">", "->", "-", "<!--", "<!-", "--!", "!>", "--&gt;"]
CDATA_FOCUS = ["]]>", "]]", "]", ">", "]]>]]>", "<![CDATA[", "]]]]><![CDATA[>"]
PLAIN = [" ", "a", "b", "xyz", "hello", "1", "/", "\\", ".", ";", "\n", "\r", "\r\n", "\t", "\xe9", "\u20ac", "\xa0",
         "\u2028", "\U0001F600", "\ufffd", "\x7f", "\x85"]
CONTROLS = ["\0", "\x01", "\x0b", "\x0c", "\x1b", "\x1f"]
BAD_BYTES = [b"\xff", b"\xc0\xaf", b"\xed\xa0\x80", b"\x80", b"\xfe\xff"]
CHARREFS = [34, 38, 39, 60, 62, 9, 10, 13, 32, 45, 65, 93, 0xA0, 0xFF, 0x100, 0x2028, 0xFFFD, 0x1F600, 0x10FFFD]
# WHATWG 13.2.6.4.7: start tags whose self-closing flag is acknowledged (void elements, current and obsolete)
HTML_VOID = ("area", "base", "basefont", "bgsound", "br", "col", "embed", "frame", "hr", "img", "input", "keygen",
             "link", "meta", "param", "source", "track", "wbr")


def lv(x):
    """latin-1 view of what the flattener must write for a str/bytes."""
    if isinstance(x, str):
        x = x.encode("utf-8")
    return x.decode("latin-1")


# ------------------------------------------------------------------------------------------------
# spec generation (pure data; everything else derives from it)
# ------------------------------------------------------------------------------------------------
class Gen:
    def __init__(self, rng, controls, cdata):
        self.r = rng
        self.controls = controls
        self.cdata = cdata
        self.nslot = 0
        self.nrender = 0
        self.hostile = 0
        self.reusable = 0  # > 0 while generating a value that may be flattened more than once
        self.rawtext = 0
        self.rawtext_hostile = 0

    def seq_kind(self):
        return self.r.choice(["list", "tuple"] if self.reusable else ["list", "tuple", "gen"])

    def slot_value(self, isstr, depth):
        self.reusable += 1
        try:
            return self.stringy(1, []) if isstr else self.node(depth, [], None)
        finally:
            self.reusable -= 1

    def string(self, maxfrag=5, focus=None):
        r = self.r
        parts = []
        for _ in range(r.randint(0, maxfrag)):
            x = r.random()
            if focus and x < 0.35:
                parts.append(r.choice(focus))  # the delimiters of the construct the string goes into
                self.hostile += 1
            elif x < 0.55:
                parts.append(r.choice(HOSTILE))
                self.hostile += 1
            elif x < 0.92 or not self.controls:
                parts.append(r.choice(PLAIN))
            else:
                parts.append(r.choice(CONTROLS))
        s = "".join(parts)
        if r.random() < 0.25:
            b = s.encode("utf-8")
            if r.random() < 0.3:
                k = r.randint(0, len(b))
                b = b[:k] + r.choice(BAD_BYTES) + b[k:]
            return b
        return s

    def stringy(self, depth, slots):
        """A value that is plain character data however it is wrapped."""
        r = self.r
        x = r.random()
        if depth <= 0 or x < 0.6:
            return ("text", self.string())
        if x < 0.7:
            return (self.seq_kind(), [self.stringy(depth - 1, slots) for _ in range(r.randint(0, 3))])
        if x < 0.8:
            return ("deferred", self.stringy(depth - 1, slots), r.random() < 0.5)
        if x < 0.85 and not self.reusable:
            return ("coro", self.stringy(depth - 1, slots), r.random() < 0.5)
        ok = [s for s in slots if s[1]]
        if x < 0.95 and ok:
            return ("slot", r.choice(ok)[0], None)
        self.nslot += 1
        return ("slot", "u%d" % self.nslot, self.stringy(depth - 1, slots))  # unfilled -> default

    def attrs(self, depth, slots, elem):
        r = self.r
        out = []
        names = r.sample(ATTRS, r.choice([0, 0, 1, 1, 2, 3]))
        if r.random() < 0.1:
            names.append(r.choice(BYTES_ATTRS))
        for n in names:
            if depth > 0 and r.random() < 0.15:
                vals = [self.markup_node(depth - 1, slots, elem) for _ in range(r.randint(1, 2))]
                out.append((n, ("markup", vals)))
            else:
                out.append((n, ("str", self.stringy(min(depth, 2), slots))))
        return out

    def markup_node(self, depth, slots, elem):
        """Node allowed at the top level of a markup-mode attribute: never a bare string."""
        r = self.r
        x = r.random()
        if x < 0.55 or depth <= 0:
            return self.tag(depth, slots, elem)
        if x < 0.7:
            return ("comment", self.string(focus=COMMENT_FOCUS))
        if x < 0.8 and self.cdata:
            return ("cdata", self.string(focus=CDATA_FOCUS))
        if x < 0.9:
            return ("charref", r.choice(CHARREFS))
        return ("list", [self.markup_node(depth - 1, slots, elem) for _ in range(r.randint(1, 2))])

    def tag(self, depth, slots, elem, rmode=None):
        r = self.r
        name = r.choice(BYTES_TAGS) if r.random() < 0.08 else r.choice(TAGS)
        fills = []
        myslots = list(slots)
        if depth > 0 and r.random() < 0.25:
            for _ in range(r.randint(1, 2)):
                self.nslot += 1
                sname = "s%d" % self.nslot
                isstr = r.random() < 0.6
                val = self.slot_value(isstr, min(depth - 1, 2))
                fills.append((sname, val))
                myslots.append((sname, isstr))
        attrs = self.attrs(depth, myslots, elem)
        if (name if isinstance(name, str) else name.decode("ascii")).lower() in RAW_NAMES:
            # mostly character data, as such elements have in practice, full of what would end them or open markup
            self.rawtext += 1
            children = []
            for _ in range(r.choice([1, 1, 2, 3])):
                x = r.random()
                if x < 0.7 or depth <= 0:
                    t = self.string(focus=RAW_FOCUS)
                    if (b"<" in t or b"&" in t) if isinstance(t, bytes) else ("<" in t or "&" in t):
                        self.rawtext_hostile += 1
                    children.append(("text", t))
                elif x < 0.8:
                    children.append(("deferred", ("text", self.string(focus=RAW_FOCUS)), r.random() < 0.5))
                else:
                    children.append(self.node(depth - 1, myslots, elem))
            return ("tag", name, attrs, children, fills)
        nchild = 0 if depth <= 0 else r.choice([0, 1, 1, 2, 2, 3, 4])
        children = [self.node(depth - 1, myslots, elem) for _ in range(nchild)]
        return ("tag", name, attrs, children, fills)

    def node(self, depth, slots, elem):
        r = self.r
        x = r.random()
        if depth <= 0 or x < 0.3:
            return ("text", self.string())
        if x < 0.55:
            return self.tag(depth, slots, elem)
        if x < 0.63:
            return ("comment", self.string(focus=COMMENT_FOCUS))
        if x < 0.69:
            if self.cdata:
                return ("cdata", self.string(focus=CDATA_FOCUS))
            return ("comment", self.string(focus=COMMENT_FOCUS))
        if x < 0.73:
            return ("charref", r.choice(CHARREFS))
        if x < 0.79:
            return (self.seq_kind(), [self.node(depth - 1, slots, elem) for _ in range(r.randint(0, 3))])
        if x < 0.84:
            return ("deferred", self.node(depth - 1, slots, elem), r.random() < 0.5)
        if x < 0.87 and not self.reusable:
            return ("coro", self.node(depth - 1, slots, elem), r.random() < 0.5)
        if x < 0.92:
            if slots:
                return ("slot", r.choice(slots)[0], None)
            self.nslot += 1
            return ("slot", "u%d" % self.nslot, self.node(depth - 1, slots, elem))
        if x < 0.96 and elem:
            # a tag rendered by a @renderer method of the enclosing Element
            self.nrender += 1
            mode = r.choice(["append", "replace", "deferred", "fill"])
            rname = "r%d" % self.nrender
            if mode == "fill":
                self.nslot += 1
                sname = "f%d" % self.nslot
                t = self.tag(depth - 1, slots + [(sname, False)], elem)
                return ("rtag", rname, mode, t, (sname, self.slot_value(False, min(depth - 1, 1))))
            t = self.tag(depth - 1, slots, elem)
            return ("rtag", rname, mode, t, self.node(min(depth - 1, 2), slots, elem))
        return ("element", [self.node(depth - 1, slots, True) for _ in range(r.randint(1, 3))])


# ------------------------------------------------------------------------------------------------
# spec -> real twisted objects
# ------------------------------------------------------------------------------------------------
class Builder:
    def __init__(self, ctx):
        self.ctx = ctx
        self.late = []  # (Deferred, value) to fire after flattenString() returned
        self.coros = []
        self.methods = None  # renderer registry of the Element being built

    def build(self, s):
        from twisted.internet.defer import Deferred, succeed
        from twisted.web.template import CDATA, CharRef, Comment, Element, Tag, TagLoader, renderer, slot

        k = s[0]
        if k == "text":
            return s[1]
        if k == "charref":
            return CharRef(s[1])
        if k == "comment":
            return Comment(s[1])
        if k == "cdata":
            return CDATA(s[1])
        if k == "list":
            return [self.build(c) for c in s[1]]
        if k == "tuple":
            return tuple(self.build(c) for c in s[1])
        if k == "gen":
            items = [self.build(c) for c in s[1]]  # build eagerly: only the iteration is lazy
            return (x for x in items)
        if k == "slot":
            return slot(s[1], None if s[2] is None else self.build(s[2]))
        if k == "deferred":
            v = self.wrapped(s[1])
            if not s[2]:
                return succeed(v)
            d = Deferred()
            self.late.append((d, v))
            return d
        if k == "coro":
            v = self.wrapped(s[1])
            gate = None
            if s[2]:
                gate = Deferred()
                self.late.append((gate, None))

            async def co():
                if gate is not None:
                    await gate
                return v

            c = co()
            self.coros.append(c)
            return c
        if k == "tag":
            t = Tag(s[1], attributes=dict((n, self.build_attr(v)) for n, v in s[2]), children=[self.build(c) for c in s[3]])
            if s[4]:
                t.fillSlots(**dict((n, self.build(v)) for n, v in s[4]))
            return t
        if k == "rtag":
            _, rname, mode, tspec, extra = s
            t = self.build(tspec)
            t.render = rname
            ctx = self.ctx
            if mode == "fill":
                ev = self.build(extra[1])
                sname = extra[0]
            else:
                ev = self.build(extra)

            def method(self_, request, tag, mode=mode, ev=ev):
                ctx.count("renderers_called")
                if mode == "append":
                    return tag(ev)
                if mode == "replace":
                    return ev
                if mode == "deferred":
                    return succeed(tag)
                return tag.fillSlots(**{sname: ev})

            self.methods[rname] = renderer(method)
            return t
        if k == "element":
            saved = self.methods
            self.methods = {}
            try:
                tmpl = [self.build(c) for c in s[1]]
                cls = type("GenElement", (Element,), dict(self.methods))
            finally:
                self.methods = saved
            return cls(loader=TagLoader(tmpl))
        raise AssertionError(k)

    def wrapped(self, s):
        """A Deferred must not be fired with a Deferred (Deferred.callback contract): keep one list between."""
        from twisted.internet.defer import Deferred

        v = self.build(s)
        return [v] if isinstance(v, Deferred) else v

    def build_attr(self, v):
        if v[0] == "str":
            return self.build(v[1])
        return [self.build(c) for c in v[1]]


# ------------------------------------------------------------------------------------------------
# spec -> expected model events
#   ("T", latin1-view, is_charref) ("C", s) ("D", s) ("S", name, [(attr, ("str", pieces)|("markup", events))]) ("E", name)
# ------------------------------------------------------------------------------------------------
def model(s, env, out):
    k = s[0]
    if k == "text":
        out.append(("T", lv(s[1]), False))
    elif k == "charref":
        out.append(("T", chr(s[1]), True))
    elif k == "comment":
        out.append(("C", lv(s[1])))
    elif k == "cdata":
        out.append(("D", lv(s[1])))
    elif k in ("list", "tuple", "gen", "element"):
        for c in s[1]:
            model(c, env, out)
    elif k in ("deferred", "coro"):
        model(s[1], env, out)
    elif k == "slot":
        model(env[s[1]] if s[1] in env else s[2], env, out)
    elif k == "tag":
        model_tag(s, env, out, [])
    elif k == "rtag":
        _, rname, mode, t, extra = s
        if mode == "append":
            model_tag(t, env, out, [extra])
        elif mode == "replace":
            model(extra, env, out)
        elif mode == "deferred":
            model_tag(t, env, out, [])
        else:
            env2 = dict(env)
            env2[extra[0]] = extra[1]
            model_tag(t, env2, out, [])
    else:
        raise AssertionError(k)


def model_tag(s, env, out, extra_children):
    _, name, attrs, children, fills = s
    if fills:
        env = dict(env)
        for n, v in fills:
            env[n] = v
    name = name if isinstance(name, str) else name.decode("ascii")
    mattrs = []
    for an, av in attrs:
        an = an if isinstance(an, str) else an.decode("ascii")
        inner = []
        if av[0] == "str":
            model(av[1], env, inner)
            mattrs.append((an, ("str", inner)))
        else:
            for c in av[1]:
                model(c, env, inner)
            mattrs.append((an, ("markup", inner)))
    out.append(("S", name, mattrs))
    for c in list(children) + extra_children:
        model(c, env, out)
    out.append(("E", name))


def doc_comment(d):
    """The documented escapedComment() transformation (its docstring), used only as latitude."""
    e = d.replace("-->", "--&gt;")
    if e.endswith("-"):
        e += " "
    return e


def comment_canon(d):
    """Comment data modulo the escaping latitude: a serializer may write '>' as '&gt;' (comments have
    no entity decoding, so this is the only way to defuse '-->' etc.) and pad after a trailing '-'.
    Whether the comment *ends* where it should is decided by the tokens around it, not by this."""
    d = d.replace("&gt;", ">")
    if d.endswith("- "):
        d = d[:-1]
    return d


_XML_ILLEGAL = re.compile("[\x00-\x08\x0b\x0c\x0e-\x1f]")


def xml_legal(events):
    for e in events:
        if e[0] == "T" and not e[2] or e[0] in ("C", "D"):
            if _XML_ILLEGAL.search(e[1]):
                return False
            if e[0] == "C" and "--" in doc_comment(e[1]):
                return False
        elif e[0] == "S":
            for _, (kind, inner) in e[2]:
                if not xml_legal(inner):
                    return False
    return True


def has_cdata(events):
    for e in events:
        if e[0] == "D":
            return True
        if e[0] == "S" and any(has_cdata(inner) for _, (_k, inner) in e[2]):
            return True
    return False


def _lit(s, mode, in_attr_value, nested):
    """Parser-side normalisation of literal characters.  `in_attr_value`: the characters are an
    attribute value; `nested`: they are inside markup that is itself quoted in an attribute value
    (the outer parse has already normalised them as attribute-value characters)."""
    s = s.replace("\r\n", "\n").replace("\r", "\n")
    if in_attr_value or nested:
        if mode == "xml":
            s = s.replace("\n", " ").replace("\t", " ")
        else:
            s = s.replace("\0", "\ufffd")
    return s


def _text_of(pieces, mode, in_attr_value, nested):
    """Concatenate ("T", s, ref) pieces: adjacent literal runs are normalised together."""
    out = []
    run = []
    for p in pieces:
        if p[2]:
            if run:
                out.append(_lit("".join(run), mode, in_attr_value, nested))
                run = []
            out.append(p[1])
        else:
            run.append(p[1])
    if run:
        out.append(_lit("".join(run), mode, in_attr_value, nested))
    return "".join(out)


def expected(events, mode, nested=False):
    """Model events -> comparable token list for the given parser."""
    out = []
    i = 0
    n = len(events)
    while i < n:
        e = events[i]
        if e[0] in ("T", "D") and mode == "xml" or e[0] == "T":
            # XML: text and CDATA are both character data; remember which characters are CDATA
            cd = e[0] == "D"
            j = i
            pieces = []
            while j < n and events[j][0] == e[0]:
                pieces.append(events[j] if not cd else ("T", events[j][1], False))
                j += 1
            if cd:
                # separate CDATA sections are not adjacent in the raw document
                s = "".join(_lit(p[1], mode, False, nested) for p in pieces)
            else:
                s = _text_of(pieces, mode, False, nested)
            if s:
                if mode == "xml":
                    if out and out[-1][0] == "text" and out[-1][2] == cd:
                        out[-1] = ("text", out[-1][1] + s, cd)
                    else:
                        out.append(("text", s, cd))
                else:
                    out.append(("text", s))
            i = j
            continue
        if e[0] == "C":
            d = _lit(e[1], mode, False, nested)
            if mode == "html":
                d = d.replace("\0", "\ufffd")  # the comment states map NUL to U+FFFD
            out.append(("comment", (d, doc_comment(d))))
        elif e[0] == "S":
            attrs = {}
            for an, (kind, inner) in e[2]:
                if mode == "html":
                    an = an.lower()
                if kind == "str":
                    attrs[an] = ("str", _text_of(inner, mode, True, nested))
                else:
                    attrs[an] = ("markup", expected(inner, mode, True))
            name = e[1].lower() if mode == "html" else e[1]
            out.append(("start", name, attrs, mode == "html" and name in HTML_VOID))
        elif e[0] == "E":
            out.append(("end", e[1].lower() if mode == "html" else e[1]))
        else:
            raise AssertionError(e)
        i += 1
    return drop_void_ends(out) if mode == "html" else out


def drop_void_ends(toks):
    """HTML: a void element has no content and no end tag; "<br>", "<br />" and (token-wise)
    "<br></br>" are the same thing.  Applied to expected and observed alike."""
    out = []
    for t in toks:
        if t[0] == "end" and out and out[-1][0] == "start" and out[-1][1] == t[1] and t[1] in HTML_VOID:
            continue
        out.append(t)
    return out


# ------------------------------------------------------------------------------------------------
# the two parsers
# ------------------------------------------------------------------------------------------------
class NotWellFormed(Exception):
    pass


def parse_xml(text):
    from xml.parsers import expat

    p = expat.ParserCreate()
    p.ordered_attributes = True
    p.buffer_text = False
    out = []
    state = {"cdata": False, "depth": 0}

    def start(name, attrs):
        state["depth"] += 1
        if state["depth"] == 1:
            return
        out.append(("start", name, [(attrs[i], attrs[i + 1]) for i in range(0, len(attrs), 2)]))

    def end(name):
        state["depth"] -= 1
        if state["depth"] == 0:
            return
        out.append(("end", name))

    def chars(data):
        if out and out[-1][0] == "text" and out[-1][2] == state["cdata"]:
            out[-1] = ("text", out[-1][1] + data, state["cdata"])
        else:
            out.append(("text", data, state["cdata"]))

    def scd():
        state["cdata"] = True

    def ecd():
        state["cdata"] = False

    p.StartElementHandler = start
    p.EndElementHandler = end
    p.CharacterDataHandler = chars
    p.CommentHandler = lambda d: out.append(("comment", d))
    p.StartCdataSectionHandler = scd
    p.EndCdataSectionHandler = ecd
    p.ProcessingInstructionHandler = lambda t, d: out.append(("pi", t, d))
    try:
        p.Parse("<vfroot>" + text + "</vfroot>", True)
    except expat.ExpatError as e:
        raise NotWellFormed(str(e))
    return out


def parse_html(text):
    from vf.engines import html5tok

    toks = html5tok.tokenize(text)
    dup = [e for e in toks.errors if e[0] == "duplicate-attribute"]
    return drop_void_ends(list(toks)), dup


def compare(exp, obs, mode, stats):
    """None if the observed token list matches the expected one, else (index, kind, detail)."""
    n = min(len(exp), len(obs))
    for i in range(n):
        e, o = exp[i], obs[i]
        if e[0] != o[0]:
            return (i, "token-kind-differs", "expected %r, observed %r" % (e[0], o[0]))
        if e[0] == "text":
            if e[1] != o[1]:
                return (i, "text-differs", "")
            if mode == "xml" and e[2] != o[2]:
                return (i, "cdata-extent-differs", "")
        elif e[0] == "comment":
            if comment_canon(o[1]) != comment_canon(e[1][0]):
                if mode == "html" and comment_early_close(e[1][1], o[1]):
                    return (i, "comment-early-close", "")
                return (i, "comment-differs", "")
        elif e[0] == "end":
            if e[1] != o[1]:
                return (i, "name-differs", "")
        elif e[0] == "start":
            if e[1] != o[1]:
                return (i, "name-differs", "")
            oattrs = dict(o[2])
            if len(oattrs) != len(o[2]) or set(oattrs) != set(e[2]):
                return (i, "attribute-set-differs", "expected %r observed %r" % (sorted(e[2]), [a for a, _ in o[2]]))
            for an, (kind, ev) in e[2].items():
                if kind == "str":
                    if oattrs[an] != ev:
                        return (i, "attribute-value-differs", an)
                else:
                    stats["attr_markup_reparsed"] = stats.get("attr_markup_reparsed", 0) + 1
                    try:
                        inner = parse_xml(oattrs[an]) if mode == "xml" else parse_html(oattrs[an])
                    except NotWellFormed as x:
                        return (i, "attribute-markup-not-well-formed", "%s: %s" % (an, x))
                    if mode == "html":
                        if inner[1]:
                            return (i, "attribute-markup-duplicate-attribute", an)
                        inner = inner[0]
                    sub = compare(ev, inner, mode, stats)
                    if sub is not None:
                        kind = sub[1] if sub[1].startswith("attribute-markup-") or sub[1] == "comment-early-close" else "attribute-markup-" + sub[1]
                        return (i, kind, "%s[%d]: %s" % (an, sub[0], sub[2]))
            if mode == "html":
                if o[3] and not e[3]:
                    return (i, "self-closing-non-void", "")
    if len(obs) > len(exp):
        return (n, "extra-tokens", "")
    if len(exp) > len(obs):
        return (n, "missing-tokens", "")
    return None


def comment_early_close(w, o):
    """DESIGN 6-9: `w` is the comment data the documented escaping writes, `o` the data of the
    comment token the HTML tokenizer produced at that place: w starts with '>' or '->' or contains
    '--!>' and the tokenizer ended the comment exactly there (the rest became markup/text)."""
    if (w.startswith(">") or w.startswith("->")) and o == "":
        return True
    k = w.find("--!>")
    return k >= 0 and o == w[:k]


# ------------------------------------------------------------------------------------------------
def make_spec(ctx, i):
    rng = ctx.case_rng("tree", i)
    profile = rng.random()
    controls = profile < 0.3
    cdata = (not controls) and profile < 0.6
    g = Gen(rng, controls, cdata)
    depth = rng.choice([1, 2, 3, 3, 4, 5])
    spec = g.node(depth, [], False)
    if spec[0] == "text" or rng.random() < 0.5:
        spec = ("list", [spec] + [g.node(depth, [], False) for _ in range(rng.randint(1, 3))])
    return spec, rng, g


def run_case(ctx, i, report=True):
    spec, rng, g = make_spec(ctx, i)
    ctx.count("rawtext_named_elements", g.rawtext)
    ctx.count("rawtext_hostile_text_children", g.rawtext_hostile)
    check_spec(ctx, spec, rng, {"case": i, "spec": repr(spec)[:3000]}, g.hostile, sample=i < 3)


def check_spec(ctx, spec, rng, wit, hostile, sample=False):
    """Flatten the tree built from `spec` and judge the bytes with both oracles."""
    from twisted.web.template import flattenString

    ev = []
    model(spec, {}, ev)
    b = Builder(ctx)
    root = b.build(spec)
    res = []
    d = flattenString(None, root)
    d.addBoth(res.append)
    late = list(b.late)
    rng.shuffle(late)
    for dd, v in late:
        if res:
            break
        dd.callback(v)
        ctx.count("deferred_fired_late")
    for c in b.coros:
        c.close()  # coroutines in never-referenced slot fills: no "never awaited" noise
    ctx.evaluated()
    ctx.count("hostile_strings", hostile)
    ctx.count("comments", sum(1 for e in ev if e[0] == "C"))
    ctx.count("cdata_sections", sum(1 for e in ev if e[0] == "D"))
    if not res:
        ctx.violation("flatten-never-finished", "flattenString did not fire although every Deferred in the tree fired", wit)
        return
    out = res[0]
    if not isinstance(out, bytes):
        wit["error"] = repr(out)[:600]
        ctx.violation("flatten-raised", "flattenString failed on a tree of valid names and flattenable content", wit)
        return
    wit["output"] = out
    if hostile:
        ctx.distinct(wit.get("large") or repr(spec))
    text = out.decode("latin-1")
    stats = {}
    ran = 0
    if xml_legal(ev):
        ran += 1
        ctx.count("xml_compared")
        exp = expected(ev, "xml")
        try:
            obs = parse_xml(text)
        except NotWellFormed as x:
            ctx.violation("xml-not-well-formed", "flattened output of XML-legal content is not well-formed XML: content became markup or broke it",
                          dict(wit, error=str(x)))
            obs = None
        if obs is not None:
            r = compare(exp, obs, "xml", stats)
            if r is not None:
                ctx.violation("xml-" + r[1], "expat events differ from the tree that was flattened (%s)" % r[1],
                              dict(wit, index=r[0], detail=r[2], expected=repr(exp[max(0, r[0] - 1):r[0] + 2])[:1500], observed=repr(obs[max(0, r[0] - 1):r[0] + 2])[:1500]))
    if not has_cdata(ev):
        ran += 1
        ctx.count("html_compared")
        exp = expected(ev, "html")
        obs, dup = parse_html(text)
        r = compare(exp, obs, "html", stats)
        if r is None and dup:
            r = (0, "duplicate-attribute", repr(dup[:3]))
        if r is not None:
            key = "html-" + r[1]
            what = "WHATWG token stream differs from the tree that was flattened (%s)" % r[1]
            if r[1] == "comment-early-close":
                key = "html-comment-early-close"
                what = ("Comment data starting with '>' or '->' or containing '--!>' ends the comment early for an HTML "
                        "tokenizer; the rest of the data is parsed as markup")
            ctx.violation(key, what, dict(wit, index=r[0], detail=r[2], expected=repr(exp[max(0, r[0] - 1):r[0] + 2])[:1500],
                                          observed=repr(obs[max(0, r[0] - 1):r[0] + 3])[:1500]))
    if not ran:
        ctx.count("no_oracle_applicable")
    for k, v in stats.items():
        ctx.count(k, v)
    if sample:
        ctx.sample({"case": wit.get("case", wit.get("large")), "spec": repr(spec)[:600], "output": out[:600], "oracles": ran})
    return ran


# ------------------------------------------------------------------------------------------------
# "large node" family: one node longer than a plausible internal buffer, with a multi-character
# hostile sequence placed at every cut position across a multiple of the buffer size.  An
# implementation that escapes/encodes/writes big data piecewise must not treat the pieces
# independently.  (Seeded regression C28-cdata-sliced-escape: "]]>" across offset 65536.)
# ------------------------------------------------------------------------------------------------
LARGE_SEQS = ["]]>", "-->", "--!>", "<!--", "--", "]]", "->", "&amp;", "&lt;", "&#60;", "&quot;", "</b>", "<b>", "\r\n",
              "<![CDATA[", "\xe9", "\U0001F600", "]]>]]>"]
LARGE_KINDS = ["cdata", "comment", "text", "attr"]
LARGE_WRAPS = ["direct", "deferred-fired", "deferred-late", "slot", "list", "coro"]


def large_core():
    """Seed-independent: every kind x sequence x cut (0..len: before, every straddle, after) at 65536, str."""
    out = []
    for kind in LARGE_KINDS:
        for seq in LARGE_SEQS:
            for cut in range(len(seq) + 1):
                out.append({"kind": kind, "seq": seq, "cut": cut, "B": 65536, "k": 1, "bytes": False, "wrap": "direct",
                            "basis": "chars", "tail": "tail<&>"})
    # the construct's own terminator also as bytes and through a Deferred
    for kind, seq in (("cdata", "]]>"), ("comment", "-->"), ("comment", "--!>"), ("text", "&amp;"), ("attr", "&quot;")):
        for cut in range(1, len(seq)):
            for isbytes, wrap in ((True, "direct"), (False, "deferred-late"), (True, "deferred-fired")):
                out.append({"kind": kind, "seq": seq, "cut": cut, "B": 65536, "k": 1, "bytes": isbytes, "wrap": wrap,
                            "basis": "chars", "tail": "tail"})
    return out


def large_random(rng):
    seq = rng.choice(LARGE_SEQS)
    return {"kind": rng.choice(LARGE_KINDS), "seq": seq, "cut": rng.randint(0, len(seq)) if rng.random() < 0.2 else rng.randint(1, max(1, len(seq) - 1)),
            "B": rng.choice([65536, 65536, 65536, 65536, 8192, 16384, 32768, 4096, 131072]), "k": rng.choice([1, 1, 2, 3]),
            "bytes": rng.random() < 0.4, "wrap": rng.choice(LARGE_WRAPS), "basis": rng.choice(["chars", "chars", "bytes"]),
            "tail": rng.choice(["", "x", "tail", "]]>-->", "<b>&amp;</b>", "\r", "-"])}


def large_spec(d):
    """The spec of one large-node tree.  The hostile sequence starts at offset B*k - cut, counted in
    characters of the str (or bytes of the bytes object) for basis "chars"; for basis "bytes" the data
    begins with a two-byte character so that the *encoded* offset is what hits B*k."""
    seq, cut, at = d["seq"], d["cut"], d["B"] * d["k"]
    if d["bytes"] or d["basis"] == "bytes":
        enc = seq.encode("utf-8")
        cutb = min(cut, len(enc))
        if d["bytes"]:
            data = b"a" * (at - cutb) + enc + d["tail"].encode("utf-8")
        else:
            lead = "\xe9"  # 2 bytes, 1 character
            data = lead + "a" * (at - cutb - 2) + seq + d["tail"]
    else:
        data = "a" * (at - cut) + seq + d["tail"]
    kind, wrap = d["kind"], d["wrap"]
    node = ("text", data) if kind in ("text", "attr") else (kind, data)
    fills = []
    if wrap == "deferred-fired":
        node = ("deferred", node, False)
    elif wrap == "deferred-late":
        node = ("deferred", node, True)
    elif wrap == "coro":
        node = ("coro", node, True)
    elif wrap == "list":
        node = ("list", [("text", ""), node])
    elif wrap == "slot":
        fills = [("big", node)]
        node = ("slot", "big", None)
    if kind == "attr":
        return ("tag", "div", [("title", ("str", node)), ("id", ("str", ("text", "x")))], [("text", "in")], fills)
    return ("tag", "div", [("id", ("str", ("text", "x")))], [("text", "pre"), node, ("tag", "b", [], [("text", "post")], [])], fills)


def run_large(ctx, j, d):
    spec = large_spec(d)
    straddle = 0 < d["cut"] < len(d["seq"])
    ctx.count("large_trees")
    if straddle:
        ctx.count("large_straddling_" + d["kind"])
    if d["B"] != 65536:
        ctx.count("large_other_buffer_sizes")
    if d["wrap"] != "direct":
        ctx.count("large_wrapped")
    if d["bytes"]:
        ctx.count("large_bytes")
    ctx.seen("large_buffer_sizes", d["B"])
    ran = check_spec(ctx, spec, ctx.case_rng("large-run", j), {"large": "large-%s" % j, "large_index": j, "desc": d}, 1)
    if not ran:
        ctx.count("large_without_oracle")


def large_cases(ctx):
    core = large_core()
    cases = [(j, d) for j, d in enumerate(core)]
    for j in range(ctx.size(60, 6000)):
        cases.append((len(core) + j, large_random(ctx.case_rng("large", j))))
    return cases


def run(ctx):
    from vf.engines import html5tok

    try:
        html5tok.selftest()
    except AssertionError as e:
        ctx.inconclusive("html5tok selftest failed: %s" % e)
        return
    for j, d in large_cases(ctx):
        if ctx.owns(j):
            run_large(ctx, j, d)
    for i in ctx.cases(60000, 2000000):
        run_case(ctx, i)
        if i % 5000 < ctx.nshards:
            gc.collect()


def replay(ctx, w):
    x = w["witness"]
    if "large_index" in x:
        j = x["large_index"]
        run_large(ctx, j, dict(large_cases(ctx))[j])
    else:
        run_case(ctx, x["case"])
