"""C47 PROXY protocol headers are parsed regardless of segmentation.

Object: the protocol built by `HAProxyWrappingFactory(recording factory)` on an E2 `SimTransport`.
The harness plays the reactor: it delivers the stream segment by segment, stops delivering once
the wrapper asked for `loseConnection()` (a real transport stops reading) and treats an exception
escaping `dataReceived` as what the reactor makes of it — a closed connection (recorded separately
as `closed_by_exception`, never as "accepted").

Oracle: a strict reference builder/classifier written from proxy-protocol.txt (v1 §2.1, v2 §2.2):
* VALID(src, dst, header length): the application (wrapped protocol) must receive exactly the bytes
  after the header, and `transport.getPeer()/getHost()` as seen by the application — sampled at
  every application `dataReceived` and at the end — must equal src/dst (family, TCP/UDP, host
  compared as IP values, port; UNIX path); for UNKNOWN / LOCAL / AF_UNSPEC the real transport's
  addresses.  The connection must not be closed.
* INVALID (wrong magic, wrong version/command, unassigned family/protocol, v2 length shorter than
  the address block, missing v1 fields, non-numeric v1 port, unknown v1 protocol token, no CRLF in
  the first 107 bytes): connection closed and zero bytes at the application.
* DONTCARE (things the spec forbids senders but Twisted is lenient about: extra v1 fields within
  107 bytes, bad IP literals, ports > 65535, family/protocol bytes 0x01 0x02 0x10 0x20 0x30):
  never generated on purpose; byte-mutated headers that land there are counted and skipped.

Every stream is run with every single split point of header + first 3 payload bytes, whole, and
with random multi-cut segmentations.  Second generation: v2 length fields over the whole 16-bit range
(0..65535, filled with one TLV; split at the interesting offsets only) and a second complete v1/v2 header
sent as the first application bytes (it must reach the application verbatim, addresses stay the first's).

Classification of failures of VALID streams: `haproxy-short-first-segment` only when the connection
was closed by the very first segment, that segment is shorter than the wrapper's version-sniffing
threshold (16 bytes for v2, 8 for v1) and the same stream delivered whole is handled correctly;
`haproxy-v1-bare-unknown-rejected` only for the exact line `PROXY UNKNOWN` (no trailing space) that
is rejected even when delivered whole; INVALID: `haproxy-v1-overlong-line-accepted` only when the line
is longer than 107 bytes, its first six fields are a well-formed TCP4/TCP6/UNKNOWN line and the
CRLF arrived in the same segment that pushed the buffer beyond 107 bytes.  Anything else keeps a
generic key.
"""
import ipaddress
import struct

LEVEL = "exploration"
ENGINE = "E2-netsim"
TECHNIQUE = "runtime monitoring: spec-derived PROXY v1/v2 reference classifier vs. application-side bytes and addresses under every header split"
RULE = ("random PROXY headers: v1 TCP4/TCP6/UNKNOWN (incl. bare and 107-byte lines), v2 PROXY/LOCAL x "
        "INET/INET6/UNIX/UNSPEC x STREAM/DGRAM with 0..3 TLVs; random payload 0..40 bytes; invalid streams of 9 "
        "classes and byte-mutated headers classified by the reference.  Each stream is delivered whole, "
        "with every single split point in header+3 bytes, and with random multi-cut segmentations.  A case is "
        "(stream, cut positions); distinct by that pair; non-trivial = at least one cut or an invalid/mutated stream.")
ASSUMPTIONS = ["trusted base: the reference header builder/classifier in this module (proxy-protocol.txt 2.1/2.2)",
               "an exception escaping dataReceived is what a reactor turns into a closed connection; it is counted, not treated as acceptance",
               "after loseConnection() the simulated transport delivers nothing more (TCP transport stops reading)"]
SHARDS = {"quick": 4, "thorough": 16}
FLOORS = {"v2_length_field_family": 100, "v2_length_field_ge_32768": 20, "second_header_in_payload": 100, "valid_checked": 2000, "invalid_checked": 500, "addr_comparisons": 2000, "v1_cases": 500, "v2_cases": 500,
          "split_inside_header": 2000, "tlv_headers": 10, "unix_headers": 5, "local_or_unknown": 20}
READY = True

SIG = b"\r\n\r\n\x00\r\nQUIT\n"
ADDRLEN = {0x10: 12, 0x20: 36, 0x30: 216}


# ---------------------------------------------------------------- reference classifier
def _port(tok):
    if not tok.isdigit() or (len(tok) > 1 and tok[0:1] == b"0") or len(tok) > 5:
        return None
    v = int(tok)
    return v if v <= 65535 else None


def ref_classify(stream):
    """-> ("VALID", src, dst, hlen) | ("INVALID", why) | ("DONTCARE", why).
    src/dst: None (use transport addresses) or ("INET"/"INET6", "TCP"/"UDP", ip_address, port) or ("UNIX", path)."""
    if stream[:12] == SIG:
        if len(stream) < 16:
            return ("DONTCARE", "incomplete")
        vc, fp = stream[12], stream[13]
        (ln,) = struct.unpack("!H", stream[14:16])
        if len(stream) < 16 + ln:
            return ("DONTCARE", "incomplete")  # a receiver may wait for the announced length before judging
        if vc >> 4 != 2:
            return ("INVALID", "v2-version")
        if vc & 15 not in (0, 1):
            return ("INVALID", "v2-command")
        if vc & 15 == 0:
            return ("VALID", None, None, 16 + ln)
        fam, proto = fp & 0xF0, fp & 15
        if fam > 0x30 or proto > 2:
            return ("INVALID", "v2-family-protocol")
        if fp == 0:
            return ("VALID", None, None, 16 + ln)
        if fam == 0 or proto == 0:
            return ("DONTCARE", "half-unspec")
        if ln < ADDRLEN[fam]:
            return ("INVALID", "v2-short-address-block")
        blk = stream[16:16 + ADDRLEN[fam]]
        kind = "TCP" if proto == 1 else "UDP"
        if fam == 0x10:
            s, d, sp, dp = struct.unpack("!4s4sHH", blk)
            return ("VALID", ("INET", kind, ipaddress.IPv4Address(s), sp), ("INET", kind, ipaddress.IPv4Address(d), dp), 16 + ln)
        if fam == 0x20:
            s, d, sp, dp = struct.unpack("!16s16sHH", blk)
            return ("VALID", ("INET6", kind, ipaddress.IPv6Address(s), sp), ("INET6", kind, ipaddress.IPv6Address(d), dp), 16 + ln)
        s, d = blk[:108], blk[108:]
        if b"\x00" in s.rstrip(b"\x00") or b"\x00" in d.rstrip(b"\x00"):
            return ("DONTCARE", "unix-embedded-nul")
        return ("VALID", ("UNIX", s.rstrip(b"\x00")), ("UNIX", d.rstrip(b"\x00")), 16 + ln)
    # version 1
    if len(stream) < 12 and (SIG.startswith(stream) or b"PROXY ".startswith(stream)):
        return ("DONTCARE", "incomplete")
    if not stream.startswith(b"PROXY "):
        if len(stream) < 16 and (SIG.startswith(stream[:12]) or b"PROXY".startswith(stream[:5])):
            return ("DONTCARE", "too-short-to-decide")  # a receiver may legitimately keep waiting
        return ("INVALID", "magic")
    i = stream[:107].find(b"\r\n")  # the whole line including CRLF must fit in 107 bytes
    if i < 0:
        if len(stream) >= 108:
            return ("INVALID", "v1-no-crlf-in-107")
        return ("DONTCARE", "incomplete")
    line = stream[:i]
    toks = line.split(b" ")
    proto = toks[1]
    if proto == b"UNKNOWN":
        return ("VALID", None, None, i + 2)
    if proto not in (b"TCP4", b"TCP6"):
        return ("INVALID", "v1-protocol-token")
    fields = toks[2:]
    if len(fields) < 4:
        return ("INVALID", "v1-missing-fields")
    if len(fields) > 4:
        return ("DONTCARE", "v1-extra-fields")
    if not (fields[2].isdigit() and fields[3].isdigit()):
        if fields[2] == b"" or fields[3] == b"":
            return ("DONTCARE", "v1-empty-port")
        if any(c in b"+-_ \t\n\x0b\x0c\r" for c in fields[2] + fields[3]) or not (fields[2] + fields[3]).isascii():
            return ("DONTCARE", "v1-odd-port")  # int() of python accepts some of these; spec says digits
        return ("INVALID", "v1-non-numeric-port")
    sp, dp = _port(fields[2]), _port(fields[3])
    if sp is None or dp is None:
        return ("DONTCARE", "v1-port-form")
    try:
        cls = ipaddress.IPv4Address if proto == b"TCP4" else ipaddress.IPv6Address
        s, d = cls(fields[0].decode("ascii")), cls(fields[1].decode("ascii"))
    except Exception:
        return ("DONTCARE", "v1-bad-address-literal")
    fam = "INET" if proto == b"TCP4" else "INET6"
    return ("VALID", (fam, "TCP", s, sp), (fam, "TCP", d, dp), i + 2)


# ---------------------------------------------------------------- generators
def rand_ip4(rng):
    return bytes(rng.choice([0, 1, 10, 127, 192, 255, rng.randrange(256)]) for _ in range(4))


def rand_ip6(rng):
    r = rng.random()
    if r < 0.2:
        return bytes(15) + b"\x01"
    if r < 0.4:
        return b"\xff" * 16
    if r < 0.6:
        return bytes(rng.choice([0, 0, 0, rng.randrange(256)]) for _ in range(16))
    return bytes(rng.randrange(256) for _ in range(16))


def rand_port(rng):
    return rng.choice([0, 1, 80, 443, 8080, 65535, rng.randrange(65536)])


def gen_v1(rng):
    r = rng.random()
    if r < 0.08:
        return b"PROXY UNKNOWN\r\n", "v1-UNKNOWN-bare"
    if r < 0.22:
        n = rng.choice([0, 1, 5, 20, 90, 91, rng.randrange(0, 92)])  # 14 + n + 2 <= 107
        junk = bytes(rng.choice(b"abcdef0123456789: .") for _ in range(n))
        return b"PROXY UNKNOWN " + junk + b"\r\n", "v1-UNKNOWN"
    if r < 0.6:
        s, d = ipaddress.IPv4Address(rand_ip4(rng)), ipaddress.IPv4Address(rand_ip4(rng))
        return ("PROXY TCP4 %s %s %d %d\r\n" % (s, d, rand_port(rng), rand_port(rng))).encode(), "v1-TCP4"
    s, d = ipaddress.IPv6Address(rand_ip6(rng)), ipaddress.IPv6Address(rand_ip6(rng))
    fs = rng.choice([str, lambda a: a.exploded])
    fd = rng.choice([str, lambda a: a.exploded])
    return ("PROXY TCP6 %s %s %d %d\r\n" % (fs(s), fd(d), rand_port(rng), rand_port(rng))).encode(), "v1-TCP6"


def gen_tlvs(rng):
    out = b""
    for _ in range(rng.choice([0, 0, 1, 2, 3])):
        v = bytes(rng.randrange(256) for _ in range(rng.choice([0, 1, 3, 12, 30])))
        out += bytes([rng.choice([1, 2, 3, 4, 5, 0x20, 0x30, 0xE0])]) + struct.pack("!H", len(v)) + v
    return out


def unix_path(rng):
    n = rng.choice([1, 5, 20, 107, 108])
    p = bytes(rng.choice(b"/abcxyz._-0") for _ in range(n))
    return p + bytes(108 - n)


def gen_v2(rng):
    r = rng.random()
    tl = gen_tlvs(rng)
    if r < 0.12:
        kind = "v2-LOCAL"
        vc = 0x20
        if rng.random() < 0.5:
            fp, body = 0, tl
        else:  # LOCAL with an address block that must be ignored
            fp, body = 0x11, rand_ip4(rng) + rand_ip4(rng) + struct.pack("!HH", 1, 2) + tl
    elif r < 0.2:
        kind, vc, fp, body = "v2-UNSPEC", 0x21, 0, tl
    elif r < 0.55:
        fp = rng.choice([0x11, 0x12])
        kind, vc = "v2-INET", 0x21
        body = rand_ip4(rng) + rand_ip4(rng) + struct.pack("!HH", rand_port(rng), rand_port(rng)) + tl
    elif r < 0.88:
        fp = rng.choice([0x21, 0x22])
        kind, vc = "v2-INET6", 0x21
        body = rand_ip6(rng) + rand_ip6(rng) + struct.pack("!HH", rand_port(rng), rand_port(rng)) + tl
    else:
        fp = rng.choice([0x31, 0x32])
        kind, vc = "v2-UNIX", 0x21
        body = unix_path(rng) + unix_path(rng) + tl
    return SIG + bytes([vc, fp]) + struct.pack("!H", len(body)) + body, kind + ("+tlv" if tl else "")


def gen_invalid(rng):
    """A stream that does not begin with a valid header (each class is INVALID for the reference)."""
    c = rng.randrange(9)
    pay = gen_payload(rng, 1)
    if c == 0:  # wrong magic
        s = rng.choice([b"GET / HTTP/1.1\r\nHost: x\r\n\r\n", b"NOTPROXY anything can go here\r\n", b"proxy tcp4 1.1.1.1 2.2.2.2 1 2\r\n",
                        b"\r\n\r\n\x00\r\nQUIT\r" + bytes(20), b"PROXZ TCP4 1.1.1.1 2.2.2.2 1 2\r\n", b"\x00" * 20, b"PROXYTCP4 1.1.1.1 2.2.2.2 1 2\r\n",
                        bytes(rng.randrange(256) for _ in range(rng.randrange(1, 40)))])
        if ref_classify(s + pay)[0] != "INVALID":
            s = b"X" + s
        return s + pay, "magic"
    if c == 1:  # v2 wrong version nibble
        h, _ = gen_v2(rng)
        return h[:12] + bytes([rng.choice([0x11, 0x31, 0x01, 0xF1, 0x41])]) + h[13:] + pay, "v2-version"
    if c == 2:  # v2 bad command
        h, _ = gen_v2(rng)
        return h[:12] + bytes([0x20 | rng.randrange(2, 16)]) + h[13:] + pay, "v2-command"
    if c == 3:  # v2 unassigned family / protocol with the PROXY command
        h, _ = gen_v2(rng)
        fp = rng.choice([0x41, 0x13, 0x43, 0xF1, 0x1F, 0x2A, 0x51, 0x33])
        return h[:12] + b"\x21" + bytes([fp]) + h[14:] + pay, "v2-family-protocol"
    if c == 4:  # v2 length shorter than the address block
        fp = rng.choice([0x11, 0x12, 0x21, 0x22, 0x31, 0x32])
        ln = rng.randrange(0, ADDRLEN[fp & 0xF0])
        return SIG + b"\x21" + bytes([fp]) + struct.pack("!H", ln) + bytes(rng.randrange(256) for _ in range(ln)) + pay, "v2-short-address-block"
    if c == 5:  # v1 missing fields
        full = rng.choice([b"PROXY TCP4 1.1.1.1 2.2.2.2 8080 8888", b"PROXY TCP6 ::1 ::2 8080 8888"])
        toks = full.split(b" ")
        k = rng.randrange(2, 6)
        return b" ".join(toks[:k]) + b"\r\n" + pay, "v1-missing-fields"
    if c == 6:  # v1 non-numeric port
        bad = rng.choice([b"x", b"80a", b"eighty", b"0x50", b"8o8o"])
        good = b"8080"
        sp, dp = (bad, good) if rng.random() < 0.5 else (good, bad)
        return b"PROXY TCP4 1.1.1.1 2.2.2.2 " + sp + b" " + dp + b"\r\n" + pay, "v1-non-numeric-port"
    if c == 7:  # v1 unknown protocol token
        tok = rng.choice([b"TCP5", b"UDP4", b"tcp4", b"UNKNOWNX", b"", b"TCP"])
        return b"PROXY " + tok + b" 1.1.1.1 2.2.2.2 1 2\r\n" + pay, "v1-protocol-token"
    # v1 line without CRLF in the first 107 bytes
    r = rng.random()
    if r < 0.5:
        base = rng.choice([b"PROXY TCP4 1.1.1.1 2.2.2.2 1 2 ", b"PROXY TCP6 ::1 ::2 80 81 ", b"PROXY UNKNOWN "])
    else:
        base = rng.choice([b"PROXY TCP4 ", b"PROXY ", b"PROXY TCP4 1.1.1.1 "])
    fill = rng.choice([106, 107, 108, 120, 200]) - len(base)
    line = base + bytes(rng.choice(b"abcdef0123456789") for _ in range(fill))
    return line + b"\r\n" + pay, "v1-no-crlf-in-107"


def gen_payload(rng, minlen=0):
    n = rng.choice([0, 1, 2, 5, 17, 40]) if minlen == 0 else rng.choice([1, 2, 5, 17, 40])
    r = rng.random()
    if r < 0.3:
        return (b"GET / HTTP/1.1\r\nHost: example\r\n\r\n" * 2)[:n]
    if r < 0.45:
        return (b"PROXY TCP4 9.9.9.9 8.8.8.8 9 8\r\n" + SIG)[:n]
    return bytes(rng.randrange(256) for _ in range(n))


def mutate(rng, hdr):
    b = bytearray(hdr)
    m = rng.randrange(3)
    i = rng.randrange(len(b))
    if m == 0:
        b[i] ^= 1 << rng.randrange(8)
    elif m == 1:
        b[i] = rng.randrange(256)
    else:
        del b[i]
    return bytes(b)


# ---------------------------------------------------------------- execution
def make_wrapper():
    from twisted.internet.protocol import Factory, Protocol
    from twisted.protocols.haproxy._wrapper import HAProxyWrappingFactory
    from vf.engines.netsim import SimTransport

    class App(Protocol):
        def __init__(self):
            self.data = bytearray()
            self.addr_seen = []
            self.made = 0

        def connectionMade(self):
            self.made += 1

        def dataReceived(self, d):
            self.data += d
            self.addr_seen.append((self.transport.getPeer(), self.transport.getHost()))

    f = HAProxyWrappingFactory(Factory.forProtocol(App))
    p = f.buildProtocol(None)
    t = SimTransport("srv", ("192.0.2.10", 4000), ("198.51.100.20", 5000))
    p.makeConnection(t)
    return p, t


def execute(segments):
    """Deliver the segments; -> dict(app bytes, addresses, closed, exc, closed_at)."""
    p, t = make_wrapper()
    app = p.wrappedProtocol
    exc = None
    closed_at = None
    for k, seg in enumerate(segments):
        try:
            p.dataReceived(seg)
        except Exception as e:
            exc = "%s: %s" % (type(e).__name__, str(e)[:100])
            closed_at = k
            break
        if t.disconnecting:
            closed_at = k
            break
    end_addr = None
    if closed_at is None:
        end_addr = (app.transport.getPeer(), app.transport.getHost())
    return {"app": bytes(app.data), "addr_seen": app.addr_seen, "end_addr": end_addr,
            "closed": closed_at is not None, "exc": exc, "closed_at": closed_at,
            "taddr": (t.getPeer(), t.getHost())}


def addr_matches(a, want, taddr_one):
    from twisted.internet import address

    if want is None:
        return a == taddr_one
    if want[0] == "UNIX":
        return isinstance(a, address.UNIXAddress) and a.name == want[1]
    cls = address.IPv4Address if want[0] == "INET" else address.IPv6Address
    if not isinstance(a, cls) or a.type != want[1] or a.port != want[3]:
        return False
    try:
        return ipaddress.ip_address(a.host) == want[2]
    except ValueError:
        return False


def cut(stream, cuts):
    out, prev = [], 0
    for c in cuts:
        out.append(stream[prev:c])
        prev = c
    out.append(stream[prev:])
    return out


def v1_fields_wellformed(line):
    toks = line.split(b" ")
    if len(toks) >= 2 and toks[1] == b"UNKNOWN":
        return True
    if len(toks) < 6 or toks[1] not in (b"TCP4", b"TCP6"):
        return False
    return ref_classify(b" ".join(toks[:6]) + b"\r\n")[0] == "VALID"


def check_case(ctx, stream, cuts, verdict, label, whole_ok=None):
    """Run one (stream, segmentation) and compare with the reference verdict."""
    segs = cut(stream, cuts)
    res = execute(segs)
    ctx.evaluated()
    if cuts or verdict[0] != "VALID":
        ctx.distinct((stream, tuple(cuts)))
    ctx.count("v2_cases" if stream[:12] == SIG else "v1_cases")
    ctx.count("segments_delivered", len(segs))
    wit = {"ext_case": CURRENT["case"], "stream": stream, "cuts": list(cuts), "segments": segs, "label": label, "reference": repr(verdict)[:300],
           "observed": {"app": res["app"], "closed": res["closed"], "closed_at_segment": res["closed_at"], "exception": res["exc"],
                        "end_addr": repr(res["end_addr"])}}
    if verdict[0] == "INVALID":
        ctx.count("invalid_checked")
        ctx.seen("invalid_classes", verdict[1])
        if res["exc"]:
            ctx.count("closed_by_exception")
            ctx.seen("exceptions_on_invalid", res["exc"].split(":")[0])
        elif res["closed"]:
            ctx.count("closed_by_loseConnection")
        if res["app"] or not res["closed"]:
            key = "invalid-stream-reaches-application" if res["app"] else "invalid-stream-not-closed"
            if verdict[1] == "v1-no-crlf-in-107":
                i = stream.find(b"\r\n")
                # the segment that carried the buffer past 107 bytes also carried the CRLF
                pos = [0] + list(cuts) + [len(stream)]
                same_seg = any(a <= 107 and b >= i + 2 for a, b in zip(pos, pos[1:]))
                if i > 105 and v1_fields_wellformed(stream[:i]) and same_seg:
                    key = "haproxy-v1-overlong-line-accepted"
            ctx.violation(key, "a stream that does not begin with a valid PROXY header was not refused (%s)" % verdict[1], wit)
        return res
    # VALID
    _, src, dst, hlen = verdict
    ctx.count("valid_checked")
    ctx.seen("header_kinds", label)
    if any(0 < c < hlen for c in cuts):
        ctx.count("split_inside_header")
    payload = stream[hlen:]
    ok = True
    why = None
    if res["exc"]:
        ok, why = False, "valid-header-raises"
    elif res["closed"]:
        ok, why = False, "valid-header-closed"
    elif res["app"] != payload:
        ok, why = False, "application-bytes-differ"
    else:
        tpeer, thost = res["taddr"]
        for peer, host in res["addr_seen"] + [res["end_addr"]]:
            ctx.count("addr_comparisons")
            if not addr_matches(peer, src, tpeer):
                ok, why = False, "getPeer-differs"
            elif not addr_matches(host, dst, thost):
                ok, why = False, "getHost-differs"
    if src is None:
        ctx.count("local_or_unknown")
    if not ok:
        key = why
        wit["expected"] = {"app": payload, "src": repr(src), "dst": repr(dst)}
        if why == "valid-header-closed" and res["closed_at"] == 0 and not res["app"]:
            first = len(segs[0])
            thr = 16 if stream[:12] == SIG else 8
            if first < thr and whole_ok:
                key = "haproxy-short-first-segment"
            elif stream[:hlen] == b"PROXY UNKNOWN\r\n" and not whole_ok:
                key = "haproxy-v1-bare-unknown-rejected"
        elif why == "valid-header-closed" and stream[:hlen] == b"PROXY UNKNOWN\r\n" and not res["app"] and not whole_ok:
            key = "haproxy-v1-bare-unknown-rejected"
        ctx.violation(key, "valid PROXY header not honoured: %s" % why, wit)
    return dict(res, ok=ok)


def run_stream(ctx, rng, stream, verdict, label):
    whole = check_case(ctx, stream, [], verdict, label)
    whole_ok = whole.get("ok", False)
    limit = min(len(stream) - 1, verdict[3] + 3 if verdict[0] == "VALID" else 130)
    if limit > 600:  # very long v2 headers: the interesting offsets only
        hlen = verdict[3]
        alen = ADDRLEN.get(stream[13] & 0xF0, 0)
        points = set(range(1, 21)) | set(range(16 + alen - 2, 16 + alen + 4)) | set(range(hlen - 3, hlen + 4)) | {rng.randrange(1, len(stream)) for _ in range(8)}
        points = sorted(c for c in points if 0 < c < len(stream))
    else:
        points = range(1, limit + 1)
    for c in points:
        check_case(ctx, stream, [c], verdict, label, whole_ok)
    for _ in range(4):
        k = rng.randint(2, 6)
        if len(stream) - 1 < k:
            break
        cuts = sorted(rng.sample(range(1, len(stream)), k))
        check_case(ctx, stream, cuts, verdict, label, whole_ok)
    # byte-at-a-time
    if len(stream) <= 64:
        check_case(ctx, stream, list(range(1, len(stream))), verdict, label, whole_ok)


def one_case(ctx, i):
    rng = ctx.case_rng(i)
    r = rng.random()
    if r < 0.62:
        hdr, label = gen_v1(rng) if rng.random() < 0.45 else gen_v2(rng)
        stream = hdr + gen_payload(rng)
        verdict = ref_classify(stream)
        if verdict[0] != "VALID" or verdict[3] != len(hdr):
            raise AssertionError("reference rejects a generated valid header: %r %r" % (stream, verdict))
        if "tlv" in label:
            ctx.count("tlv_headers")
        if "UNIX" in label:
            ctx.count("unix_headers")
    elif r < 0.85:
        stream, label = gen_invalid(rng)
        verdict = ref_classify(stream)
        if verdict[0] != "INVALID":
            raise AssertionError("reference does not reject a generated invalid stream: %r %r %r" % (label, stream, verdict))
    else:
        hdr, label = gen_v1(rng) if rng.random() < 0.5 else gen_v2(rng)
        stream = mutate(rng, hdr) + gen_payload(rng, 1)
        label = "mutated-" + label
        verdict = ref_classify(stream)
        ctx.count("mutated_" + verdict[0].lower())
        if verdict[0] == "DONTCARE":
            ctx.seen("dontcare_reasons", verdict[1])
            return
    run_stream(ctx, rng, stream, verdict, label)
    if i < 3 * ctx.nshards and len(ctx.samples) < 4:
        res = execute([stream[:20], stream[20:]] if len(stream) > 20 else [stream])
        ctx.sample({"label": label, "stream": stream, "reference": repr(verdict)[:200], "segments": "20 + rest",
                    "observed_app": res["app"], "closed": res["closed"], "end_addr": repr(res["end_addr"])})


BIG_LENGTHS = [0, 1, 11, 12, 13, 255, 256, 257, 4095, 4096, 32767, 32768, 65534, 65535]


def ext_case(ctx, i):
    """Second generation: v2 length fields over the whole 16-bit range (TLV padding), and a second complete
    header sent as the first application bytes of the same connection (it is application data)."""
    rng = ctx.case_rng("ext", i)
    if rng.random() < 0.45:
        ln = rng.choice(BIG_LENGTHS)
        kind = rng.choice(["LOCAL", "UNSPEC", "INET", "INET6"])
        if kind == "LOCAL":
            vc, fp, addr = 0x20, 0, b""
        elif kind == "UNSPEC":
            vc, fp, addr = 0x21, 0, b""
        elif kind == "INET":
            vc, fp, addr = 0x21, rng.choice([0x11, 0x12]), rand_ip4(rng) + rand_ip4(rng) + struct.pack("!HH", rand_port(rng), rand_port(rng))
        else:
            vc, fp, addr = 0x21, rng.choice([0x21, 0x22]), rand_ip6(rng) + rand_ip6(rng) + struct.pack("!HH", rand_port(rng), rand_port(rng))
        if ln < len(addr):
            ln = len(addr) + rng.choice([0, 1, 3])
        pad = ln - len(addr)
        tlv = b""
        if pad >= 3:  # one well-formed TLV filling the rest (type NOOP 0x04)
            tlv = b"\x04" + struct.pack("!H", pad - 3) + bytes(rng.choice(b"\x00\xffab\r\n") for _ in range(pad - 3))
        else:
            ln -= pad
        hdr = SIG + bytes([vc, fp]) + struct.pack("!H", ln) + addr + tlv
        label = "v2-%s-len%d" % (kind, ln)
        stream = hdr + gen_payload(rng, 1)
        ctx.count("v2_length_field_family")
        ctx.seen("v2_length_fields", str(ln))
        if ln >= 32768:
            ctx.count("v2_length_field_ge_32768")
    else:
        h1, l1 = gen_v1(rng) if rng.random() < 0.5 else gen_v2(rng)
        h2, l2 = gen_v1(rng) if rng.random() < 0.5 else gen_v2(rng)
        hdr = h1
        stream = h1 + h2 + gen_payload(rng)
        label = "%s then %s as payload" % (l1, l2)
        ctx.count("second_header_in_payload")
    verdict = ref_classify(stream)
    if verdict[0] != "VALID" or verdict[3] != len(hdr):
        raise AssertionError("reference rejects a generated valid header: %r %r" % (stream[:80], verdict))
    CURRENT["case"] = "ext:%d" % i
    try:
        run_stream(ctx, rng, stream, verdict, label)
    finally:
        CURRENT["case"] = None


CURRENT = {"case": None}


def run(ctx):
    for i in ctx.cases(1500, 20000):
        one_case(ctx, i)
    for i in ctx.cases(400, 6000):
        ext_case(ctx, i)


def replay(ctx, w):
    x = w["witness"]
    if x.get("ext_case"):
        return ext_case(ctx, int(x["ext_case"].split(":")[1]))

    def unb(s):
        import codecs
        return codecs.escape_decode(s[2:].encode("latin-1"))[0] if isinstance(s, str) and s.startswith("b:") else s

    stream = unb(x["stream"])
    verdict = ref_classify(stream)
    whole = check_case(ctx, stream, [], verdict, x.get("label", "replay"))
    check_case(ctx, stream, x["cuts"], verdict, x.get("label", "replay"), whole.get("ok", False))
