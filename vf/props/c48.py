"""C48 HTTP Digest credentials verify exactly the right responses.

Object: `twisted.cred.credentials.DigestCredentialFactory` (md5 and sha; also through the
`twisted.web._auth.digest.DigestCredentialFactory` wrapper with a fake request) with `_getTime`
driven by the harness and `secureRandom` (as bound in twisted.cred.credentials) replaced by a
seeded generator for the duration of a case so that cases are reproducible.

Events: every `decode(response, method, host)` and every `checkPassword(candidate)` with its
outcome (True / False / LoginFailed / other exception).

Oracle: an own RFC 2617 calculator (hashlib) + the harness's table of issued challenges
(factory, nonce, opaque, address, issue time).  For a response (structured fields the simulated
client sent, after tampering) and a candidate password p:

* MUST ACCEPT  iff the (nonce, opaque) pair was issued by this factory to this address, age <= 900 s,
  every RFC-required field is present, realm/algorithm/qop are the challenge's (algorithm may be
  omitted only for md5), and response == RFC2617(p) in the form the fields call for.
* MUST REJECT (False or LoginFailed) iff the pair was not issued by this factory / was issued to
  another address / is older than 900 s, or the response value matches p under *no* reading
  (md5, sha, md5-sess; qop form or legacy form).
* otherwise DON'T CARE (e.g. realm parameter altered but hash computed with the server's realm,
  algorithm switched consistently, nc+cnonce without qop): only the exception rule applies.
* no exception other than LoginFailed may leave decode()/checkPassword(), in any zone.

Also judged: `checkHash(H(A1) of the candidate)` must get the same accept/reject verdict; tampers that only
re-spell the checksum half of the opaque or the nonce (upper-case hex, odd length, non-hex) must be rejected
like any other alteration.

Guards: integer clock values only (the factory truncates with int()); the age limit is inclusive
(`> CHALLENGE_LIFETIME_SECS` rejects) as documented; an opaque whose base64 part is spelled differently
but decodes to the same key bytes counts as unaltered; address None/""/b"" are one address, str and
bytes addresses compare by ASCII value; header syntax variants are limited to RFC-valid ones
(quoted-string or token where a token is legal, LWS after commas, folded lines).  Raw byte-level
mutations of the formatted header are checked only for exceptions and for "a password the client did
not use is never accepted".

Sub-keys of section 6-25 are assigned from the causal signature: exception type + the field that
provokes it (see `classify_exception`); any other exception is `unexpected-exception-<Type>`.
"""
import base64
import hashlib
import re
from binascii import hexlify

LEVEL = "exploration"
ENGINE = "core"
TECHNIQUE = "runtime monitoring: RFC 2617 reference calculator + issued-challenge table decide accept/reject/don't-care for every checkPassword"
RULE = ("random histories: 1-2 factories (md5/sha, realm), 1-4 challenges issued at controlled integer times to "
        "bytes/str/None addresses, 3-8 responses each built by a simulated client (right or wrong password, "
        "qop=auth or legacy form) and then tampered at field level (28 kinds: byte flip / truncation of each field, "
        "swapped nonce/opaque, forged or garbage opaque, unknown algorithm, missing fields, odd parameter names, "
        "other address, ages around the 900 s limit) or by raw byte mutation; syntax variants of the header.  "
        "A case is one response; distinct by (tamper kind, field, age class, address relation, form, algorithm, "
        "syntax variant, candidate) plus the concrete header; non-trivial = every case (each one exercises decode).")
ASSUMPTIONS = ["trusted base: the RFC 2617 calculator and the issued-challenge table in this module",
               "collision/preimage resistance of md5/sha1 for the negligible-probability argument (a tampered field does not yield a valid hash)",
               "secureRandom is replaced by a seeded generator during a case (nonces/private keys differ per case but are reproducible)"]
SHARDS = {"quick": 4, "thorough": 16}
FLOORS = {"checkHash_calls": 1500, "checksum_or_nonce_spelling_tampers": 1500, "checkPassword_calls": 5000, "must_accept_checked": 500, "must_reject_checked": 3000, "accepted": 500,
          "rejected_LoginFailed": 500, "rejected_False": 500, "age_exactly_900": 20, "age_901": 20,
          "other_address": 100, "via_web_wrapper": 200, "raw_mutations": 300}
READY = True

ALGS = {b"md5": hashlib.md5, b"sha": hashlib.sha1, b"md5-sess": hashlib.md5}
LIFETIME = 15 * 60


# ------------------------------------------------------------------ RFC 2617 reference
def H(alg, data):
    return hexlify(ALGS[alg](data).digest())


def rfc2617(alg, user, realm, pw, method, uri, nonce, nc, cnonce, qop, form):
    """form: 'qop' -> KD(HA1, nonce:nc:cnonce:qop:HA2);  'legacy' -> KD(HA1, nonce:HA2)."""
    ha1 = H(alg, user + b":" + realm + b":" + pw)
    if alg == b"md5-sess":
        ha1 = H(alg, ha1 + b":" + nonce + b":" + (cnonce or b""))
    ha2 = H(alg, method + b":" + uri)
    if form == "qop":
        return H(alg, b":".join([ha1, nonce, nc, cnonce, qop, ha2]))
    return H(alg, b":".join([ha1, nonce, ha2]))


def norm_addr(a):
    if not a:
        return b""
    return a.encode("ascii") if isinstance(a, str) else a


def canon_opaque(o):
    """(MAC, decoded key) — two spellings whose base64 part decodes to the same key bytes (unused
    trailing bits, ignored non-alphabet characters) are the same opaque."""
    parts = (o or b"").split(b"-")
    if len(parts) == 2:
        try:
            return (parts[0], base64.b64decode(parts[1]))
        except Exception:
            pass
    return o


class Issued:
    def __init__(self, fac, nonce, opaque, addr, t):
        self.fac, self.nonce, self.opaque, self.addr, self.t = fac, nonce, opaque, addr, t


def ref_decide(fields, method, host, now, facidx, fac_alg, fac_realm, issued, pw):
    """-> ("ACCEPT"|"REJECT"|"DONTCARE", reason)"""
    nonce, opaque = fields.get("nonce"), fields.get("opaque")
    match = [c for c in issued if c.fac == facidx and c.nonce == nonce and canon_opaque(c.opaque) == canon_opaque(opaque)]
    if not match:
        return ("REJECT", "unissued-nonce-opaque")
    c = match[0]
    if norm_addr(c.addr) != norm_addr(host):
        return ("REJECT", "other-address")
    if now - c.t > LIFETIME:
        return ("REJECT", "expired-challenge")
    resp = fields.get("response")
    user, uri = fields.get("username"), fields.get("uri")
    if not user:
        return ("REJECT", "no-username")
    nc, cnonce, qop = fields.get("nc"), fields.get("cnonce"), fields.get("qop")
    readings = set()
    if resp is not None and uri is not None:
        for alg in ALGS:
            readings.add(rfc2617(alg, user, fac_realm, pw, method, uri, nonce, b"", b"", b"", "legacy"))
            if nc is not None and cnonce is not None:
                for q in {qop, b"auth"} - {None}:
                    readings.add(rfc2617(alg, user, fac_realm, pw, method, uri, nonce, nc, cnonce, q, "qop"))
    if resp not in readings:
        return ("REJECT", "wrong-hash")
    # the hash matches under some reading: is it the reading the challenge asked for, well-formed?
    alg = fields.get("algorithm")
    alg_ok = (alg is None and fac_alg == b"md5") or (alg is not None and alg.lower() == fac_alg)
    wellformed = fields.get("realm") == fac_realm and alg_ok and all(n.isascii() for n, _ in fields.get("_extras", []))
    if qop is None and nc is None and cnonce is None:
        want = rfc2617(fac_alg, user, fac_realm, pw, method, uri, nonce, b"", b"", b"", "legacy")
    elif qop == b"auth" and nc and cnonce:
        want = rfc2617(fac_alg, user, fac_realm, pw, method, uri, nonce, nc, cnonce, qop, "qop")
    else:
        want = None
    if wellformed and want is not None and resp == want:
        return ("ACCEPT", "right-response")
    return ("DONTCARE", "matches-under-lenient-reading")


# ------------------------------------------------------------------ client model
ORDER = ["username", "realm", "nonce", "uri", "response", "opaque", "algorithm", "qop", "nc", "cnonce"]
TOKEN_OK = {"algorithm", "qop", "nc", "response", "nonce", "cnonce"}


def is_token(v):
    return bool(v) and all(33 <= c < 127 and c not in b'()<>@,;:\\"/[]?={} \t' for c in v)


def format_header(rng, fields, variant):
    """RFC-valid serialisations of the auth-params."""
    parts = []
    names = [k for k in ORDER if k in fields]
    if variant == "shuffled":
        rng.shuffle(names)
    for k in names:
        v = fields[k]
        bare = k in TOKEN_OK and is_token(v) and (variant == "bare" or (variant == "mixed" and rng.random() < 0.5) or (variant != "allquoted" and k in ("qop", "nc", "algorithm")))
        parts.append(k.encode() + b"=" + (v if bare else b'"' + v + b'"'))
    for name, v in fields.get("_extras", []):
        parts.insert(rng.randrange(len(parts) + 1), name + b'="' + v + b'"')
    sep = {"folded": b",\r\n  ", "tight": b","}.get(variant, b", ")
    return sep.join(parts)


SAFE = b"abcdefghijklmnopqrstuvwxyzABCDEFGHIJKLMNOPQRSTUVWXYZ0123456789/+=-._~"


def flip(rng, v):
    """Replace one byte by a different one that is legal inside a quoted-string."""
    if not v:
        return b"x"
    i = rng.randrange(len(v))
    return v[:i] + bytes([rng.choice([c for c in SAFE if c != v[i]])]) + v[i + 1:]


FIELD_TAMPERS = ["none", "none", "none", "flip", "flip", "truncate", "swap-nonce", "swap-opaque", "swap-both", "opaque-garbage",
                 "opaque-b64-truncated", "opaque-no-dash", "opaque-extra-dash", "opaque-forged-time", "opaque-forged-ip",
                 "opaque-forged-nonce", "opaque-other-factory", "opaque-bad-time", "opaque-two-parts-key", "unknown-algorithm",
                 "algorithm-case", "missing", "missing", "nonascii-name", "extra-param", "qop-auth-int", "empty-value", "raw-mutation",
                 "opaque-mac-uppercase", "opaque-mac-odd-length", "opaque-mac-nonhex", "nonce-uppercase", "nonce-odd-length"]


def tamper(rng, kind, fields, chal, others, foreign, now):
    """Mutates `fields` (already carrying a computed response).  Returns a short description."""
    f = fields
    if kind in ("flip", "truncate", "empty-value"):
        k = rng.choice([x for x in ORDER if x in f])
        if kind == "flip":
            f[k] = flip(rng, f[k])
        elif kind == "truncate":
            f[k] = f[k][:rng.randrange(len(f[k]))] if f[k] else b""
        else:
            f[k] = b""
        return k
    if kind == "swap-nonce" and others:
        f["nonce"] = rng.choice(others).nonce
    elif kind == "swap-opaque" and others:
        f["opaque"] = rng.choice(others).opaque
    elif kind == "swap-both" and others:
        o = rng.choice(others)
        f["nonce"], f["opaque"] = o.nonce, o.opaque  # valid pair of another challenge: the hash no longer matches
    elif kind == "opaque-garbage":
        f["opaque"] = rng.choice([b"!!!!-????", b"abc-" + bytes(rng.choice(b"ABCdef+/=*$%") for _ in range(rng.randrange(1, 20))), b"-", b"--", b"a-b", b"x"])
    elif kind == "opaque-b64-truncated":
        d, e = f["opaque"].split(b"-", 1)
        e = e.rstrip(b"=")
        f["opaque"] = d + b"-" + e[:max(1, len(e) - rng.choice([1, 2, 3, 5]))]
    elif kind == "opaque-no-dash":
        f["opaque"] = f["opaque"].replace(b"-", b"")
    elif kind == "opaque-extra-dash":
        f["opaque"] = f["opaque"] + b"-" + rng.choice([b"", b"x"])
    elif kind.startswith("opaque-forged") or kind in ("opaque-bad-time", "opaque-two-parts-key"):
        d, e = f["opaque"].split(b"-", 1)
        nonce, ip, when = base64.b64decode(e).split(b",")
        if kind == "opaque-forged-time":
            when = b"%d" % (now - rng.choice([0, 1, 10]))
        elif kind == "opaque-forged-ip":
            ip = rng.choice([b"6.6.6.6", b"", ip + b"0"])
        elif kind == "opaque-forged-nonce":
            nonce = flip(rng, nonce)
            f["nonce"] = nonce
        elif kind == "opaque-bad-time":
            when = rng.choice([b"soon", b"", b"12x", b"1e3"])
        key = b",".join([nonce, ip, when]) if kind != "opaque-two-parts-key" else b",".join([nonce, when])
        if rng.random() < 0.5:  # recompute the MAC with a guessed private key
            d = hexlify(hashlib.md5(key + rng.choice([b"", b"0", b"secret"])).digest())
        f["opaque"] = d + b"-" + base64.b64encode(key)
    elif kind == "opaque-other-factory" and foreign:
        o = rng.choice(foreign)
        f["nonce"], f["opaque"] = o.nonce, o.opaque
    elif kind == "unknown-algorithm":
        f["algorithm"] = rng.choice([b"sha-256", b"md4", b"MD5-SESSX", b"none", b"sha256"])
    elif kind == "algorithm-case" and "algorithm" in f:
        f["algorithm"] = rng.choice([f["algorithm"].upper(), f["algorithm"].title()])
    elif kind == "missing":
        k = rng.choice([x for x in ORDER if x in f])
        del f[k]
        return k
    elif kind == "nonascii-name":
        f["_extras"] = [(rng.choice([b"\xe9tat", b"x\xff", b"\xc3\xa9"]), b"1")]
    elif kind == "extra-param":
        f["_extras"] = [(rng.choice([b"foo", b"userhash", b"X-Y"]), rng.choice([b"bar", b"", b"a b"]))]
    elif kind == "qop-auth-int":
        f["qop"] = b"auth-int"
    elif kind.startswith("opaque-mac-"):  # only the checksum half of the opaque is touched; the key half stays valid
        d, e = f["opaque"].split(b"-", 1)
        if kind == "opaque-mac-uppercase":
            d = d.upper() if d.upper() != d else d[:-1] + (b"A" if d[-1:] != b"A" else b"B")
        elif kind == "opaque-mac-odd-length":
            d = rng.choice([d[:-1], d + b"0", d[1:], b"a"])
        else:
            j = rng.randrange(len(d))
            d = d[:j] + rng.choice([b"g", b"z", b"G", b"_", b"."]) + d[j + 1:]
        f["opaque"] = d + b"-" + e
    elif kind == "nonce-uppercase":
        f["nonce"] = f["nonce"].upper() if f["nonce"].upper() != f["nonce"] else f["nonce"] + b"A"
    elif kind == "nonce-odd-length":
        f["nonce"] = rng.choice([f["nonce"][:-1], f["nonce"] + b"0", f["nonce"][1:]])
    return ""


def classify_exception(exc, fields, where):
    """Narrow sub-keys of DESIGN 6-25 from (exception type, provoking field)."""
    name = type(exc).__name__
    alg = fields.get("algorithm")
    if where == "decode" and name == "Error" and type(exc).__module__ == "binascii":
        parts = (fields.get("opaque") or b"").split(b"-")
        if len(parts) == 2:
            try:
                base64.b64decode(parts[1])
            except Exception:
                return "digest-non-loginfailed-exceptions-opaque-base64"
    if where == "checkPassword" and name == "KeyError" and alg is not None and alg.lower() not in ALGS and exc.args == (alg.lower(),):
        return "digest-non-loginfailed-exceptions-unknown-algorithm"
    if where == "decode" and name == "UnicodeDecodeError" and any(not n.isascii() for n, _ in fields.get("_extras", [])):
        return "digest-non-loginfailed-exceptions-nonascii-parameter-name"
    if where == "checkPassword" and name == "TypeError" and "uri" not in fields:
        return "digest-non-loginfailed-exceptions-missing-uri"
    if where == "checkPassword" and name == "TypeError" and fields.get("qop") == b"auth-int" and "uri" in fields:
        return "digest-non-loginfailed-exceptions-qop-auth-int"
    return "unexpected-exception-%s-in-%s" % (name, where)


class FakeRequest:
    def __init__(self, method, host):
        self.method = method
        self._host = host

    def getClientAddress(self):
        from twisted.internet.address import IPv4Address
        return IPv4Address("TCP", self._host, 12345)


# ------------------------------------------------------------------ one history
USERS = [b"bob", b"alice", b"user name", b"b\xc3\xb6b", b"a:b"]
REALMS = [b"test realm", b"r", b"example.com", b"realm:with:colons"]
ADDRS = [b"10.2.3.4", "10.2.3.4", b"192.168.1.1", "172.16.0.9", None, b"", "::1"]
PWS = [b"password", b"hunter2", b"", b"p:w", b"\xff\xfe", b"correct horse"]
URIS = [b"/", b"/write/?a=b", b"/a,b/c", b"/x y".replace(b" ", b"%20"), b"sip:u@h"]
METHODS = [b"GET", b"POST", b"INVITE"]
AGES = [0, 1, 450, 899, 900, 900, 901, 901, 1000, 86400]


def one_history(ctx, i):
    from twisted.cred import credentials as C
    from twisted.cred import error as E
    from twisted.web._auth import digest as W

    rng = ctx.case_rng(i)
    clock = [rng.randrange(1000, 2000000000)]
    saved = C.secureRandom
    C.secureRandom = lambda n, fallback=False: bytes(rng.randrange(256) for _ in range(n))
    try:
        facs = []
        for k in range(rng.choice([1, 2, 2])):
            alg = rng.choice([b"md5", b"sha", b"md5", b"MD5"])
            realm = rng.choice(REALMS)
            web = rng.random() < 0.3
            if web:
                wf = W.DigestCredentialFactory(alg, realm)
                core = wf.digest
            else:
                wf, core = None, C.DigestCredentialFactory(alg, realm)
            core._getTime = lambda: clock[0]
            facs.append((wf, core, alg.lower(), realm))
        issued = []
        for _ in range(rng.choice([1, 2, 3, 4])):
            fi = rng.randrange(len(facs))
            wf, core, alg, realm = facs[fi]
            addr = rng.choice(ADDRS)
            if wf is not None:
                addr = rng.choice(["10.2.3.4", "172.16.0.9", "::1"])
                ch = wf.getChallenge(FakeRequest(b"GET", addr))
            else:
                ch = core.getChallenge(addr)
            ctx.count("challenges_issued")
            if ch["algorithm"].lower() != alg or ch["realm"] != realm or ch["qop"] != b"auth":
                ctx.violation("challenge-fields", "challenge does not carry the factory's algorithm/realm/qop", {"case": i, "challenge": ch})
            issued.append(Issued(fi, ch["nonce"], ch["opaque"], addr, clock[0]))
            clock[0] += rng.choice([0, 0, 1, 30, 600])
        base = clock[0]
        for r in range(rng.randrange(3, 9)):
            one_response(ctx, rng, i, r, facs, issued, clock, base, E)
    finally:
        C.secureRandom = saved


def one_response(ctx, rng, i, r, facs, issued, clock, base, E):
    chal = rng.choice(issued)
    wf, core, alg, realm = facs[chal.fac]
    others = [c for c in issued if c.fac == chal.fac and c is not chal]
    foreign = [c for c in issued if c.fac != chal.fac]
    age = rng.choice(AGES)
    now = max(base, chal.t + age)  # never before the last challenge of the history was issued
    clock[0] = now
    real_age = now - chal.t
    same_addr = rng.random() < 0.8
    if wf is not None:  # the web wrapper always passes str addresses
        host = chal.addr if same_addr else rng.choice([a for a in ("10.2.3.4", "172.16.0.9", "::1", "8.8.8.8") if a != chal.addr])
    elif not same_addr:
        host = rng.choice([a for a in ADDRS if norm_addr(a) != norm_addr(chal.addr)])
    elif rng.random() < 0.3:  # an equivalent spelling of the same address
        n = norm_addr(chal.addr)
        host = rng.choice([None, "", b""]) if n == b"" else rng.choice([n, n.decode("ascii")])
    else:
        host = chal.addr
    user, right = rng.choice(USERS), rng.choice(PWS)
    wrong = rng.choice([p for p in PWS if p != right])
    used = right if rng.random() < 0.75 else wrong
    method, uri = rng.choice(METHODS), rng.choice(URIS)
    form = "qop" if rng.random() < 0.8 else "legacy"
    fields = {"username": user, "realm": realm, "nonce": chal.nonce, "uri": uri, "opaque": chal.opaque}
    if rng.random() < 0.8 or alg != b"md5":
        fields["algorithm"] = alg
    if form == "qop":
        fields.update(qop=b"auth", nc=b"%08x" % rng.choice([1, 2, 255]), cnonce=hexlify(bytes(rng.randrange(256) for _ in range(rng.choice([4, 8])))))
    kind = rng.choice(FIELD_TAMPERS)
    pre = kind in ("swap-both", "swap-nonce", "swap-opaque", "opaque-other-factory", "opaque-forged-nonce", "opaque-forged-time", "opaque-forged-ip",
                    "opaque-mac-uppercase", "opaque-mac-odd-length", "opaque-mac-nonhex", "nonce-uppercase", "nonce-odd-length") and rng.random() < 0.5
    detail = ""
    if pre:  # the client computes its hash over the tampered challenge (an attacker who knows the password)
        detail = tamper(rng, kind, fields, chal, others, foreign, now)
    fields["response"] = rfc2617(alg, user, realm, used, method, uri, fields["nonce"], fields.get("nc", b""), fields.get("cnonce", b""), b"auth", form)
    if not pre:
        detail = tamper(rng, kind, fields, chal, others, foreign, now)
    variant = rng.choice(["plain", "plain", "bare", "mixed", "allquoted", "folded", "tight", "shuffled"])
    header = format_header(rng, fields, variant)
    raw = kind == "raw-mutation"
    if raw:
        b = bytearray(header)
        for _ in range(rng.choice([1, 1, 2, 4])):
            j = rng.randrange(len(b))
            m = rng.randrange(4)
            if m == 0:
                b[j] ^= 1 << rng.randrange(8)
            elif m == 1:
                b[j] = rng.randrange(256)
            elif m == 2:
                del b[j]
            else:
                b.insert(j, rng.choice(b'",= \\\xe9\x00-'))
            if not b:
                b = bytearray(b"x")
        header = bytes(b)
        ctx.count("raw_mutations")
    ctx.evaluated()
    age_class = "<900" if real_age < 900 else ("=900" if real_age == 900 else ("=901" if real_age == 901 else ">901"))
    if real_age == 900:
        ctx.count("age_exactly_900")
    if real_age == 901:
        ctx.count("age_901")
    if not same_addr:
        ctx.count("other_address")
    if wf is not None:
        ctx.count("via_web_wrapper")
    ctx.distinct((kind, detail, pre, age_class, same_addr, form, alg, variant, used == right, header))
    ctx.seen("tamper_kinds", kind + (":" + detail if detail else ""))
    base_w = {"case": i, "response_index": r, "tamper": kind, "tampered_field": detail, "tamper_before_hash": pre, "header": header,
              "fields_sent": {k: v for k, v in fields.items()}, "method": method, "host": host, "issued_to": chal.addr,
              "age_seconds": real_age, "factory_algorithm": alg, "realm": realm, "password_used_by_client": used, "syntax": variant}
    log = []
    try:
        ctx.count("decode_calls")
        if wf is not None:
            creds = wf.decode(header, FakeRequest(method, host))
        else:
            creds = core.decode(header, method, host)
        log.append(("decode", "ok"))
    except E.LoginFailed as e:
        creds = None
        log.append(("decode", "LoginFailed", str(e)))
        ctx.seen("loginfailed_messages", str(e))
    except Exception as e:
        key = classify_exception(e, loose_fields(header) if raw else fields, "decode")
        ctx.count("non_loginfailed_exceptions")
        ctx.violation(key, "decode() raised %s instead of LoginFailed" % type(e).__name__,
                      dict(base_w, exception="%s: %s" % (type(e).__name__, str(e)[:200]), expected="LoginFailed or credentials"))
        return
    for cand, label in ((right, "right"), (wrong, "wrong")):
        ctx.count("checkPassword_calls")
        if creds is None:
            got = "LoginFailed"
        else:
            try:
                got = bool(creds.checkPassword(cand))
            except E.LoginFailed:
                got = "LoginFailed"
            except Exception as e:
                key = classify_exception(e, loose_fields(header) if raw else fields, "checkPassword")
                ctx.count("non_loginfailed_exceptions")
                ctx.violation(key, "checkPassword() raised %s instead of returning False / LoginFailed" % type(e).__name__,
                              dict(base_w, candidate=cand, exception="%s: %s" % (type(e).__name__, str(e)[:200]), expected="False or LoginFailed"))
                continue
        log.append(("checkPassword", label, got))
        ctx.count("accepted" if got is True else ("rejected_False" if got is False else "rejected_LoginFailed"))
        if raw:
            # weak oracle: a password the client did not use is never accepted
            if got is True and cand != used:
                ctx.violation("accepted-password-not-used-by-client", "raw-mutated header: a password the client did not use was accepted",
                              dict(base_w, candidate=cand))
            continue
        verdict, reason = ref_decide(fields, method, host, now, chal.fac, alg, realm, issued, cand)
        if cand != used and verdict == "ACCEPT":
            raise AssertionError("reference accepts a password the client did not use")
        ctx.seen("reference_reasons", verdict + ":" + reason)
        if verdict == "ACCEPT":
            ctx.count("must_accept_checked")
            if got is not True:
                ctx.violation("rejects-right-response", "a correctly computed response over an unaltered, unexpired challenge was refused",
                              dict(base_w, candidate=cand, expected=True, observed=got, log=log))
        elif verdict == "REJECT":
            ctx.count("must_reject_checked")
            if got is True:
                ctx.violation("accepted-" + reason, "checkPassword accepted although the reference says reject (%s)" % reason,
                              dict(base_w, candidate=cand, expected="False or LoginFailed", observed=True, log=log))
        else:
            ctx.count("dontcare")
        # the hashed variant of the same question: checkHash(H(A1) of the candidate) must get the same verdict
        halg = (fields.get("algorithm") or b"md5").lower()
        if creds is not None and halg in (b"md5", b"sha") and fields.get("username"):
            ha1 = H(halg, fields["username"] + b":" + realm + b":" + cand)
            try:
                got2 = bool(creds.checkHash(ha1))
            except E.LoginFailed:
                got2 = "LoginFailed"
            except Exception as e:
                ctx.count("non_loginfailed_exceptions")
                ctx.violation(classify_exception(e, fields, "checkHash"), "checkHash() raised %s instead of returning False / LoginFailed" % type(e).__name__,
                              dict(base_w, candidate=cand, exception="%s: %s" % (type(e).__name__, str(e)[:200]), expected="False or LoginFailed"))
                continue
            ctx.count("checkHash_calls")
            if verdict == "ACCEPT" and halg == alg and got2 is not True:
                ctx.violation("checkhash-rejects-right-response", "checkHash(H(A1)) refused a correctly computed response", dict(base_w, candidate=cand, expected=True, observed=got2))
            elif verdict == "REJECT" and got2 is True:
                ctx.violation("checkhash-accepted-" + reason, "checkHash(H(A1)) accepted although the reference says reject (%s)" % reason,
                              dict(base_w, candidate=cand, expected="False or LoginFailed", observed=True))
    if kind.startswith(("opaque-mac-", "nonce-upper", "nonce-odd")):
        ctx.count("checksum_or_nonce_spelling_tampers")
    if i < 2 * ctx.nshards and r < 2:
        ctx.sample(dict(base_w, events=log))


_PARTS = re.compile(b'([^= ]+)=(?:"([^"]*)"|([^,]+)),?')


def loose_fields(header):
    """The auth-params of a raw-mutated header, read the way RFC 2617 lists are usually split
    (used only to *name* the mechanism of an exception, never to decide accept/reject)."""
    out = {}
    for k, q, b in _PARTS.findall(b" ".join(header.splitlines())):
        k = k.strip()
        if k.isascii():
            out[k.decode("ascii")] = (q or b).strip()
        else:
            out.setdefault("_extras", []).append((k, (q or b).strip()))
    return out


def run(ctx):
    for i in ctx.cases(4000, 250000):
        one_history(ctx, i)


def replay(ctx, w):
    one_history(ctx, w["witness"]["case"])
