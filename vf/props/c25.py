"""C25 static.File range requests — real Site/HTTPChannel/static.File over an in-memory transport.

Monitored: the complete response bytes (status, headers, body) the channel writes for GET/HEAD
requests carrying generated Range headers, plus everything logged with a failure while serving.
Oracle: vf.engines.refrange (RFC 9110 section 14 resolver + multipart/byteranges reader) applied to the
header value and the known, position-identifying file content.

In 8% of the cases the file behind ONE long-lived File object (a putChild leaf) is replaced on disk (grown,
shrunk, same size with other bytes) before it is requested again; the oracle is the content at request time.
One long-lived Site/root File serves every request of a shard (state left over between requests); 12% of the
cases send a second range request over the same keep-alive connection; in 20% the transport pauses the
channel from inside write() after 1..66000 response bytes (buffer full) and resumes two iterations later; files of 65535 / 65537 /
131072 / 140001 bytes with single ranges of one or two producer batches +-1 byte; in 3% the client goes
away while the producer is paused mid-response (the transport stops its producer first, as TCP does), where only "never an internal error" (nothing logged, nothing escapes) is judged.

Guards against false alarms (where servers legitimately have latitude):
* RFC-invalid values that Python's int() would still read ("+1-2", "1_0-20", inner blanks,
  "Bytes=", "bytes =", empty set "bytes=", negative numbers) are a don't-care region: 200-whole,
  416 or any *self-consistent* 206 is accepted — but never a 5xx;
* several specs of which exactly one is satisfiable: multipart with one part or a plain 206;
* non-zero suffix on an empty file: 200 (empty) or 416 (no Content-Range can describe 0 bytes);
* HEAD: Range is only defined for GET, so 200 with the full length is accepted, as is a header
  block equal to what GET would send; a HEAD response never has a body;
* only the headers the statement names are checked (status, Content-Range, Content-Length,
  multipart Content-Type/parts); Last-Modified, Accept-Ranges etc. are ignored.
"""
import os
import shutil
import tempfile

from vf.engines import refrange

LEVEL = "exploration"
ENGINE = "E2-netsim"
TECHNIQUE = "runtime monitoring: RFC 9110 range resolver + multipart reader vs. bytes written by the channel"
RULE = ("files of size 0,1,2,10,255,4096,65536 plus seed-derived random sizes in 0..65536 with "
        "position-identifying content; Range values from a grammar (1-6 specs: closed/open/suffix "
        "with boundary numbers around the size, reversed, overlapping, duplicates, OWS, empty list "
        "elements, leading zeros, huge numbers; lenient variants; other units; garbage; non-UTF-8) "
        "x GET/HEAD x HTTP/1.0/1.1.  A case is distinct by (size, method, version, header value); "
        "non-trivial = a Range header is present.")
ASSUMPTIONS = ["trusted base: vf/engines/refrange.py (RFC 9110 14.1.2 resolution, RFC 2046 multipart reader), self-tested on the RFC examples at start",
               "pull producers are driven by pumping the global reactor with reactor.iterate(0); no verdict depends on time",
               "the in-memory transport (vf/engines/netsim.SimTransport) stands in for TCP; responses are read until the channel closes (Connection: close)"]
SHARDS = {"quick": 4, "thorough": 16}
FLOORS = {"requests": 300, "checked_206_single": 60, "checked_206_multi": 40, "checked_416": 20,
          "checked_200_header_ignored": 30, "multipart_parts": 80, "head_requests": 20, "keepalive_second_requests": 200,
          "transport_pauses_applied": 100, "client_aborts_mid_response": 20, "big_file_cases": 50, "buffer_edge_cases": 50,
          "leaf_requests": 300, "leaf_grow": 60, "leaf_shrink": 60, "leaf_same-size": 60}
READY = True

FIXED_SIZES = [0, 1, 2, 10, 255, 4096, 65536]
BIG_SIZES = [65535, 65537, 131072, 140001]
MAX_ITER = 400
MAX_IDLE = 12  # iterations without a byte written before the response is declared stuck
MAX_READS = 3000  # read() calls per response (legitimately: one per 64 KiB batch and per part)


def content(size, salt=0):
    """Position-identifying bytes: consecutive bytes differ by 131 (mod 251), so CR LF '-' '-' never occurs."""
    return bytes((i * 131 + i // 251 + salt) % 251 for i in range(size))


def sizes_for(ctx):
    r = ctx.case_rng("sizes")
    extra = [r.randrange(3, 600) for _ in range(4)] + [r.randrange(600, 65537) for _ in range(3)]
    return FIXED_SIZES + extra


# ---------------------------------------------------------------------------------- generator
def _num(rng, size):
    pool = [0, 1, 2, size - 2, size - 1, size, size + 1, size * 2 + 3, size // 2, 10 ** 12, 2 ** 64 + 5]
    v = rng.choice(pool) if rng.random() < 0.7 else rng.randrange(0, size + 2)
    return max(0, v)


def _fmt(rng, n):
    s = b"%d" % n
    if rng.random() < 0.08:
        s = b"0" * rng.randint(1, 3) + s
    return s


def _spec(rng, size):
    k = rng.random()
    if k < 0.5:
        a, b = _num(rng, size), _num(rng, size)
        if a > b and rng.random() < 0.9:
            a, b = b, a
        return _fmt(rng, a) + b"-" + _fmt(rng, b)
    if k < 0.75:
        return _fmt(rng, _num(rng, size)) + b"-"
    n = _num(rng, size)
    if n > size and rng.random() < 0.8:  # keep over-long suffixes (a separate, rarer case) from dominating
        n = rng.randrange(0, size + 1)
    return b"-" + _fmt(rng, n)


def _join(rng, specs):
    out = b""
    for i, s in enumerate(specs):
        if i:
            out += rng.choice([b",", b",", b", ", b" ,", b",,", b", ,\t"])
        out += s
    if rng.random() < 0.05:
        out = b"," + out
    if rng.random() < 0.05:
        out += b","
    return out


GARBAGE = [b"bytes", b"bytes=abc", b"bytes=5", b"bytes=-", b"bytes=1-2-3", b"bytes=0x10-0x20", b"bytes=1.5-3",
           b"bytes=1-2;3-4", b"bytes=a-b", b"bytes:0-5", b"0-5", b"=0-5", b"bytes=0-5,x", b"bytes=\xff-5",
           b"bytes=0-\xe9", b"\xffbytes=0-1", b"bytes=1-2,\xc3\x28", b"items=0-5", b"none", b"seconds=1-2",
           b"bytes==1-2", b"bytes=1=2", b"bytes bytes=1-2", b"by tes=1-2", b"bytes=*", b"bytes=*-5", b"bytes=5-*",
           b"bytes=1e1-20", b"bytes=- 5 -", b"bytes=1-2 3", b"bytes=\xc2\xb2-5"]
LENIENT = [b"bytes=+1-2", b"bytes=1_0-20", b"bytes=1 - 2", b"bytes =1-2", b"Bytes=1-2", b"BYTES=0-0", b"bytes=",
           b"bytes=,", b"bytes=--5", b"bytes=-+3", b"bytes= 3 -", b"bytes=+0-+0", b"bytes=-_5", b"bytes=1-\t2",
           b"bytes=--0", b"bytes=+5-3", b" bytes=1-2", b"bytes=-1_0"]


def gen_range(rng, size):
    r = rng.random()
    if r < 0.06:
        return None
    if r < 0.70:
        n = 1 if rng.random() < 0.45 else rng.randint(2, 6)
        specs = [_spec(rng, size) for _ in range(n)]
        if n > 1 and rng.random() < 0.15:
            specs[rng.randrange(n)] = specs[0]  # duplicate
        return b"bytes=" + _join(rng, specs)
    if r < 0.80:
        # lenient region, either canned or a valid value with one lenient edit
        if rng.random() < 0.5:
            return rng.choice(LENIENT)
        v = b"bytes=" + _join(rng, [_spec(rng, size) for _ in range(rng.randint(1, 3))])
        e = rng.randrange(5)
        if e == 0:
            return v.replace(b"=", b"=+", 1) if v[6:7] != b"-" else v.replace(b"=-", b"=-+", 1)
        if e == 1:
            return v.replace(b"bytes", rng.choice([b"Bytes", b"BYTES", b"bytes ", b" bytes"]), 1)
        if e == 2:
            return v.replace(b"-", b" - ", 1)
        if e == 3:
            return v.replace(b"-", b"--", 1)
        return b"bytes=" + rng.choice([b"", b",", b" , "])
    if r < 0.83:
        return b"bytes=-%d" % rng.choice([size + 1, size + 2, size * 2 + 1, 10 ** 9])  # long suffixes
    if r < 0.86:
        n = rng.randint(2, 4)
        return b"bytes=" + b",".join(b"%d-%d" % (size + i, size + i + rng.randint(0, 9)) for i in range(n))  # none satisfiable
    return rng.choice(GARBAGE)


def gen_single_edge(rng, size):
    """None (whole file) or one range whose length is a producer batch +-1 / two batches +-1, at any offset."""
    r = rng.random()
    if r < 0.25:
        return None
    l = min(size, rng.choice([65535, 65536, 65537, 131071, 131072, 131073, size, size - 1]))
    a = rng.randrange(0, size - l + 1)
    if r < 0.5:
        return b"bytes=%d-" % (size - l)
    if r < 0.6:
        return b"bytes=-%d" % l
    return b"bytes=%d-%d" % (a, a + l - 1)


def gen_buffer_edge(rng, size):
    """2-4 closed ranges whose lengths (+ ~105 bytes of separator each) add up to about 64 KiB, the
    producers' batch size (StaticProducer.bufferSize): part ends land on either side of a batch end."""
    n = rng.randint(2, 4)
    target = max(n, 65536 + rng.randint(-450, 250) - 105 * n)
    cuts = sorted(rng.sample(range(1, target), n - 1))
    lens = [b - a for a, b in zip([0] + cuts, cuts + [target])]
    out = []
    for l in lens:
        l = min(l, size)
        a = rng.randrange(0, size - l + 1)
        out.append(b"%d-%d" % (a, a + l - 1))
    return b"bytes=" + b",".join(out)


# ------------------------------------------------------------------------------------ harness
_LOGGING_BEGUN = [False]


def _attach_log_observer(obs):
    """Make `obs` a global log observer.  The first call *begins* logging with it, which also switches off twisted's
    temporary stderr printer of critical events: a shard that prints a traceback per provoked failure fills its
    stdout pipe and then blocks until the runner gets round to reading it (shards would run one after the other)."""
    from twisted.logger import globalLogBeginner, globalLogPublisher

    if not _LOGGING_BEGUN[0]:
        _LOGGING_BEGUN[0] = True
        globalLogBeginner.beginLoggingTo([obs], redirectStandardIO=False, discardBuffer=True)
    else:
        globalLogPublisher.addObserver(obs)



class Harness:
    def __init__(self, ctx):
        from twisted.internet import reactor
        from twisted.internet.task import Clock
        from twisted.logger import globalLogPublisher
        from twisted.web import server, static
        from vf.engines.logcap import LogCapture
        from vf.engines.netsim import SimTransport

        self.reactor, self.Clock, self.server, self.static, self.SimTransport = reactor, Clock, server, static, SimTransport
        self.dir = tempfile.mkdtemp(prefix="vf_c25_")
        self.files = {}
        self.contents = {}
        self.log = LogCapture()
        self.pub = globalLogPublisher
        _attach_log_observer(self.log)
        self.site = None
        self.leaf_site = None
        self.leaf_content = b""
        self.leaf_size = None
        self.flow_pauses = 0
        self.written_while_paused = 0

        class BoundedReader:
            """File object handed to the static producers: bounds the number of read() calls per response, so that a
            producer looping without progress *inside* one resumeProducing() call becomes a logged failure instead
            of a hung check (the harness cannot interrupt twisted code)."""

            def __init__(s, f):
                s._f, s._reads = f, 0

            def read(s, n=-1):
                s._reads += 1
                if s._reads > MAX_READS:
                    raise RuntimeError("harness guard: more than %d read() calls for one response (producer loops without progress)" % MAX_READS)
                return s._f.read(n)

            def __getattr__(s, name):
                return getattr(s._f, name)

        class GuardedFile(static.File):
            def openForReading(s):  # documented override point of static.File
                return BoundedReader(static.File.openForReading(s))

        self.GuardedFile = GuardedFile

        class PausingTransport(SimTransport):
            """Pauses its (streaming) producer from inside write() once pause_threshold bytes are written."""

            pause_threshold = None

            def write(s, data):
                SimTransport.write(s, data)
                if s.pause_threshold is not None and len(s.written) >= s.pause_threshold and s.producer is not None and s.streaming and not s.producer_paused:
                    s.pause_threshold = None
                    s.producer_paused = True
                    s.producer.pauseProducing()

        self.PausingTransport = PausingTransport

    def close(self):
        try:
            self.pub.removeObserver(self.log)
        except ValueError:
            pass
        shutil.rmtree(self.dir, ignore_errors=True)

    def file_for(self, size):
        if size not in self.files:
            name = "f%d.bin" % size
            data = content(size)
            with open(os.path.join(self.dir, name), "wb") as f:
                f.write(data)
            self.files[size] = name
            self.contents[size] = data
        return self.files[size], self.contents[size]

    def request(self, size, method, version, value):
        out = self.exchange([(size, method, version, value)])
        return out["raws"][0], out["failures"], out["closed"], out["escaped"]

    def replace_leaf(self, size, salt):
        """Rewrite the file behind the long-lived leaf File object (putChild) with new content."""
        path = os.path.join(self.dir, "leaf.bin")
        data = content(size, salt)
        with open(path, "wb") as f:
            f.write(data)
        if self.leaf_site is None:
            from twisted.web import resource

            root = resource.Resource()
            root.putChild(b"leaf.bin", self.GuardedFile(path))  # ONE File object serves every request for it
            self.leaf_site = self.server.Site(root, reactor=self.Clock())
        self.leaf_content = data
        return data

    def exchange(self, reqs, pause_after=None, abort=False, leaf=False):
        """Send the requests one after the other over ONE connection to the shard's long-lived Site (its
        root File object serves every request, as in a real server).  pause_after: once that many bytes of a
        response are written the transport pauses the channel from inside write() (buffer full, as TCP does);
        it resumes two reactor iterations later — or, with abort, the client goes away while paused."""
        from twisted.internet import error
        from twisted.python import failure

        if self.site is None:
            self.site = self.server.Site(self.GuardedFile(self.dir), reactor=self.Clock())
        ch = (self.leaf_site if leaf else self.site).buildProtocol(None)
        t = self.PausingTransport()
        ch.makeConnection(t)
        del self.log.events[:]
        escaped = None
        raws = []
        aborted = False
        it = 0
        try:
            for idx, (size, method, version, value) in enumerate(reqs):
                name = "leaf.bin" if leaf else self.file_for(size)[0]
                last = idx == len(reqs) - 1
                req = method + b" /" + name.encode() + b" " + version + b"\r\nHost: h\r\n"
                if value is not None:
                    req += b"Range: " + value + b"\r\n"
                req += (b"Connection: close\r\n" if last else b"") + b"\r\n"
                start = len(t.written)
                t.pause_threshold = None if pause_after is None else start + pause_after
                ch.dataReceived(req)
                n = idle = 0
                seen = len(t.written)
                while n < MAX_ITER and idle < MAX_IDLE:
                    if last and t.disconnecting:
                        break
                    if not last and complete_response(bytes(t.written[start:]), method) is not None:
                        break
                    if t.producer is not None and t.producer_paused:
                        if abort:
                            aborted = True
                            break
                        before = len(t.written)
                        for _ in range(2):
                            self.reactor.iterate(0)
                        self.flow_pauses += 1
                        self.written_while_paused += len(t.written) - before
                        t.sim_resume_producer()
                    self.reactor.iterate(0)
                    n += 1
                    it += 1
                    # a producer that spins without writing would cost a cooperator time slice per iteration
                    idle = idle + 1 if len(t.written) == seen else 0
                    seen = len(t.written)
                raws.append(bytes(t.written[start:]))
                if aborted:
                    break
        except Exception as e:  # nothing may escape dataReceived
            escaped = "%s: %s" % (type(e).__name__, e)
        closed = t.disconnecting
        try:
            if aborted and t.producer is not None:
                # what abstract.FileDescriptor.connectionLost does before telling the protocol
                p, t.producer = t.producer, None
                p.stopProducing()
            ch.connectionLost(failure.Failure(error.ConnectionLost() if aborted else error.ConnectionDone()))
            if aborted:
                for _ in range(3):
                    self.reactor.iterate(0)
        except Exception as e:
            escaped = escaped or "connectionLost: %s: %s" % (type(e).__name__, e)
        return {"raws": raws, "failures": self.log.failures(), "closed": closed, "escaped": escaped, "aborted": aborted}


def complete_response(raw, method):
    """Length of the first complete response in raw (framed by Content-Length), or None."""
    i = raw.find(b"\r\n\r\n")
    if i < 0:
        return None
    if method == b"HEAD":
        return i + 4
    for line in raw[:i].split(b"\r\n")[1:]:
        n, _, v = line.partition(b":")
        if n.strip().lower() == b"content-length" and v.strip().isdigit():
            end = i + 4 + int(v.strip())
            return end if len(raw) >= end else None
    return None


def parse_response(raw):
    head, sep, body = raw.partition(b"\r\n\r\n")
    if not sep:
        return None
    lines = head.split(b"\r\n")
    parts = lines[0].split(b" ", 2)
    if len(parts) < 2 or not parts[1].isdigit():
        return None
    headers = []
    for l in lines[1:]:
        if b":" not in l:
            return None
        n, v = l.split(b":", 1)
        headers.append((n.strip().lower(), v.strip()))
    return int(parts[1]), headers, body


def _get(headers, name):
    return [v for n, v in headers if n == name]


# ------------------------------------------------------------------------------------- oracle
def check(ctx, case, raw, failures, closed, escaped):
    size, method, version, value, data = case["size"], case["method"], case["version"], case["value"], case["content"]
    exp = refrange.expected(value, size)
    klass = exp["klass"]
    ctx.count("class_" + klass)
    wit = {"size": size, "method": method, "version": version, "range": value,
           "range_latin1": None if value is None else value.decode("latin-1"),
           "class": klass, "accept": exp["accept"], "response_head": raw.partition(b"\r\n\r\n")[0][:600], "logged_failures": failures[:3]}

    def bad(key, what, **kw):
        w = dict(wit)
        w.update(kw)
        ctx.violation(key, what, w)

    resp = parse_response(raw)
    if resp is None and (raw or not failures):
        return bad("unparsable-response", "the channel did not write a parsable HTTP response")
    status, headers, body = resp if resp is not None else (None, [], b"")
    wit["status"] = status
    ctx.seen("statuses", status)
    # ---- never an internal error (5xx, a failure in the log, an escaped exception, or no response at all)
    if status is None or status >= 500 or failures or escaped:
        cr = _get(headers, b"content-range")
        specs = exp["specs"]
        long_suffix = any(s[0] == "suffix" and s[1] is not None and s[1] > size for s in specs)
        none_sat = klass in ("valid", "lenient") and len(specs) != 1 and not refrange.resolve(specs, size)
        non_utf8 = False
        if value is not None:
            try:
                value.decode("utf-8")
            except UnicodeDecodeError:
                non_utf8 = True
        seek_failed = any(f[0] in ("OSError", "ValueError", "OverflowError") for f in failures)
        if any("harness guard: more than" in f[1] for f in failures):
            key = "producer-loops-without-progress"
            what = "a static producer kept calling read() without making progress (the response can never finish)"
        elif status == 500 and none_sat and cr == [b"bytes */%d" % size]:
            # the 416 had been prepared (its Content-Range is still on the 500): twisted, too, found no satisfiable range
            key = "multirange-none-satisfiable-500"
            what = "several (or zero) range specs, none satisfiable: 416 is prepared, then the producer fails and 500 is sent"
        elif (len(specs) > 1 and len(refrange.resolve(specs, size)) > 1
              and any(f[0] == "ValueError" and "read length must be non-negative" in f[1] for f in failures)):
            key = "multirange-separator-overruns-buffer"
            what = ("multi-range producer: a part separator pushes the batch past bufferSize, the next read length is negative "
                    "-> ValueError under the cooperator; the response is never written or stops midway")
        elif long_suffix and seek_failed and ((status == 500 and cr and cr[0].startswith(b"bytes -")) or len(specs) != 1):
            # single range: the 500 still carries the negative Content-Range; several ranges: the seek to the
            # negative offset fails in start() (500) or later under the cooperator (nothing written, or a
            # 206 that stops before that part)
            key = "suffix-range-longer-than-file"
            what = "suffix range longer than the file gives a negative offset: 500 (inside a multi-range request also: no or a truncated response)"
        elif status == 500 and non_utf8 and any(f[0] == "UnicodeDecodeError" for f in failures) and klass in ("malformed", "invalid", "other-unit", "lenient"):
            key = "malformed-range-non-utf8-500"
            what = "a malformed Range value that is not UTF-8 makes the 'ignoring malformed header' log call raise: 500 instead of 200"
        else:
            key = "internal-error"
            what = "internal error (5xx / logged failure / escaped exception / no response) while serving a range request"
        return bad(key, what, escaped=escaped)
    cl = _get(headers, b"content-length")
    if method == b"HEAD":
        ctx.count("head_requests")
        if body:
            return bad("head-has-body", "HEAD response carries a body", body=body[:100])
        if status == 200:
            if cl != [b"%d" % size]:
                return bad("content-length-mismatch", "HEAD 200 does not announce the full length", content_length=cl)
            return
        # otherwise the header block must be what GET would send; fall through with header-only checks
    else:
        if not closed:
            return bad("response-not-finished", "the response was not completed (connection not closed after Connection: close)")
        if len(cl) != 1 or not cl[0].isdigit() or int(cl[0]) != len(body):
            return bad("content-length-mismatch", "Content-Length differs from the body length written",
                       content_length=cl, body_length=len(body))
    head_only = method == b"HEAD"
    acc = exp["accept"]
    kinds = [a[0] for a in acc]
    ctype = _get(headers, b"content-type")
    crs = _get(headers, b"content-range")
    if status == 200:
        if "whole" not in kinds:
            return bad("range-ignored", "a satisfiable/unsatisfiable valid Range header was answered with 200")
        if not head_only and body != data:
            return bad("body-mismatch", "200 body differs from the file content", body_length=len(body))
        ctx.count("checked_200")
        if klass not in ("absent",):
            ctx.count("checked_200_header_ignored")
        ctx.count("bytes_compared", len(body))
        return
    if status == 416:
        if "unsat" not in kinds:
            return bad("unexpected-416", "416 although a range is satisfiable or the header must be ignored")
        if len(crs) != 1 or refrange.parse_content_range(crs[0]) != ("unsat", size):
            return bad("unsat-without-content-range", "416 without 'Content-Range: bytes */size'", content_range=crs)
        ctx.count("checked_416")
        return
    if status != 206:
        return bad("unexpected-status", "status is none of 200/206/416")
    is_multi = bool(ctype) and ctype[0].lower().startswith(b"multipart/byteranges")
    if not is_multi:
        if len(crs) != 1:
            return bad("content-range-mismatch", "206 without exactly one Content-Range", content_range=crs)
        pcr = refrange.parse_content_range(crs[0])
        if pcr is None or pcr[0] != "range":
            return bad("content-range-mismatch", "206 with an unparsable Content-Range", content_range=crs)
        _, a, b, total = pcr
        want = [x[1] for x in acc if x[0] == "single"]
        if want:
            if (a, b, total) != (want[0][0], want[0][1], size):
                return bad("content-range-mismatch", "Content-Range differs from the requested range",
                           content_range=crs, expected="bytes %d-%d/%d" % (want[0][0], want[0][1], size))
        elif "consistent" in kinds:
            if not (0 <= a <= b < size and total == size):
                return bad("content-range-mismatch", "lenient reading produced an inconsistent Content-Range", content_range=crs)
        else:
            return bad("unexpected-206", "single-range 206 although %s expected" % (kinds,), content_range=crs)
        if head_only:
            if cl and cl != [b"%d" % (b - a + 1)]:
                return bad("content-length-mismatch", "HEAD 206 Content-Length differs from the range length", content_length=cl)
            return
        if body != data[a:b + 1]:
            return bad("body-mismatch", "206 body differs from content[a:b+1]", body_length=len(body), range=(a, b))
        ctx.count("checked_206_single")
        ctx.count("bytes_compared", len(body))
        return
    # multipart/byteranges
    want = [x[1] for x in acc if x[0] == "multi"]
    if not want and "consistent" not in kinds:
        return bad("unexpected-206", "multipart 206 although %s expected" % (kinds,))
    if head_only:
        return
    try:
        parts = refrange.read_multipart_byteranges(body, ctype[0])
    except refrange.MultipartError as e:
        return bad("multipart-malformed", "multipart/byteranges body does not parse: %s" % e, body_head=body[:300])
    got = [p["content_range"] for p in parts]
    if want:
        if got != [("range", a, b, size) for a, b in want[0]]:
            return bad("multipart-parts-mismatch", "parts' Content-Range values differ from the satisfiable requested ranges (in order)",
                       got=got, expected=want[0])
    for p in parts:
        pcr = p["content_range"]
        if pcr is None or pcr[0] != "range" or not (0 <= pcr[1] <= pcr[2] < size and pcr[3] == size):
            return bad("multipart-parts-mismatch", "part with an inconsistent Content-Range", got=got)
        if p["data"] != data[pcr[1]:pcr[2] + 1]:
            return bad("body-mismatch", "multipart part bytes differ from content[a:b+1]", range=(pcr[1], pcr[2]), part_length=len(p["data"]))
        ctx.count("multipart_parts")
        ctx.count("bytes_compared", len(p["data"]))
    ctx.count("checked_206_multi")


def run_case(ctx, h, size, method, version, value, sample=False, pause_after=None, follow=None):
    """follow: (size2, method2, value2) sent as a second request on the same connection (keep-alive)."""
    _, data = h.file_for(size)
    reqs = [(size, method, version, value)]
    if follow is not None and version == b"HTTP/1.1":
        reqs.append((follow[0], follow[1], b"HTTP/1.1", follow[2]))
    out = h.exchange(reqs, pause_after=pause_after)
    # failures are logged per connection: attribute them to the first request whose response went wrong (else the last)
    blame = len(out["raws"]) - 1
    for idx, raw in enumerate(out["raws"]):
        pr = parse_response(raw)
        if pr is None or pr[0] >= 500 or (idx < len(reqs) - 1 and complete_response(raw, reqs[idx][1]) is None):
            blame = idx
            break
    for idx, (sz, m, ver, val) in enumerate(reqs):
        if idx >= len(out["raws"]):
            break
        raw = out["raws"][idx]
        last = idx == len(reqs) - 1
        if not last:
            n = complete_response(raw, m)
            closed = n is not None
            raw = raw if n is None else raw[:n]
            ctx.count("keepalive_first_requests")
        else:
            closed = out["closed"]
            if idx:
                ctx.count("keepalive_second_requests")
        case = {"size": sz, "method": m, "version": ver, "value": val, "content": h.file_for(sz)[1]}
        ctx.count("requests")
        ctx.evaluated()
        if val is not None:
            ctx.distinct((sz, m, ver, val, idx, pause_after))
        check(ctx, case, raw, out["failures"] if idx == blame else [], closed, out["escaped"] if idx == blame else None)
    if pause_after is not None:
        ctx.count("requests_with_pausing_transport")
    if sample:
        raw = out["raws"][0] if out["raws"] else b""
        ctx.sample({"size": size, "method": method, "range": value, "class": refrange.classify(value)[0],
                    "response_head": raw.partition(b"\r\n\r\n")[0][:300], "body_length": len(raw.partition(b"\r\n\r\n")[2])})


def run_leaf(ctx, h, rng):
    """The file behind ONE long-lived File object is replaced (grown, shrunk, same size with other bytes) and
    requested again: the oracle is the content on disk at request time."""
    old = h.leaf_size
    kind = rng.choice(["grow", "shrink", "same-size"]) if old is not None else "grow"
    if kind == "grow":
        size = (old or 0) + rng.choice([1, 7, 100, 5000, 70000])
        if size > 150000:
            kind, size = "shrink", rng.choice([0, 1, 10, 300])
    elif kind == "shrink":
        size = rng.choice([0, 1, max(0, old - 1), old // 2, max(0, old - 66000)]) if old else 0
        if size == old:
            kind = "same-size"
    else:
        size = old
    data = h.replace_leaf(size, rng.randrange(1, 250))
    h.leaf_size = size
    method = b"HEAD" if rng.random() < 0.08 else b"GET"
    r = rng.random()
    value = None if r < 0.15 else rng.choice([b"bytes=-1", b"bytes=-%d" % max(1, size // 2), b"bytes=0-", b"bytes=%d-" % max(0, size - 1),
                                              b"bytes=0-%d" % max(0, size - 1), b"bytes=%d-%d" % (size // 2, size)]) if r < 0.5 else gen_range(rng, size)
    out = h.exchange([(size, method, b"HTTP/1.1", value)], pause_after=rng.choice([None, None, 1, 60000]), leaf=True)
    ctx.count("requests")
    ctx.count("leaf_requests")
    ctx.count("leaf_" + kind)
    ctx.evaluated()
    ctx.distinct(("leaf", old, size, method, value))
    case = {"size": size, "method": method, "version": b"HTTP/1.1", "value": value, "content": data}
    check(ctx, case, out["raws"][0] if out["raws"] else b"", out["failures"], out["closed"], out["escaped"])


def run_abort(ctx, h, size, value, abort_at):
    """The client disappears in the middle of a response (transport buffer full, producer paused): the
    statement's 'never fails with an internal error'."""
    out = h.exchange([(size, b"GET", b"HTTP/1.1", value)], pause_after=abort_at, abort=True)
    ctx.evaluated()
    ctx.count("client_abort_cases")
    if out["aborted"]:
        ctx.count("client_aborts_mid_response")
    if out["failures"] or out["escaped"]:
        exp = refrange.expected(value, size)
        # the separately reported producer defects also surface here; only something new is a new key
        if not any(f[0] == "ValueError" and ("read length must be non-negative" in f[1] or "not enough values to unpack" in f[1]) for f in out["failures"]) \
                and not (value is not None and not _utf8(value)):
            ctx.violation("internal-error-on-client-abort", "a failure was logged / escaped when the client went away in the middle of a response",
                          {"size": size, "range": value, "range_latin1": None if value is None else value.decode("latin-1"), "abort_after_bytes": abort_at,
                           "class": exp["klass"], "logged_failures": out["failures"][:3], "escaped": out["escaped"], "bytes_written": len(out["raws"][0]) if out["raws"] else 0})


def _utf8(b):
    try:
        b.decode("utf-8")
        return True
    except UnicodeDecodeError:
        return False


def run(ctx):
    refrange.selftest()
    sizes = sizes_for(ctx)
    h = Harness(ctx)
    try:
        # fixed corpus first (every shard runs its share): RFC examples and boundary values per size
        k = 0
        for size in FIXED_SIZES:
            fixed = [None, b"bytes=0-", b"bytes=0-0", b"bytes=-1", b"bytes=-0", b"bytes=%d-" % size, b"bytes=%d-" % max(0, size - 1),
                     b"bytes=0-%d" % size, b"bytes=0-%d" % max(0, size - 1), b"bytes=-%d" % size, b"bytes=-%d" % (size + 1),
                     b"bytes=0-0,-1", b"bytes=%d-%d,0-0" % (size, size + 5), b"bytes=1-1,0-0,1-1", b"bytes=5-3", b"items=0-1"] + LENIENT[:8] + GARBAGE[:8]
            for v in fixed:
                for method in (b"GET", b"HEAD"):
                    k += 1
                    if ctx.owns(k):
                        run_case(ctx, h, size, method, b"HTTP/1.1", v)
        for i in ctx.cases(8000, 500000):
            rng = ctx.case_rng(i)
            r = rng.random()
            size = rng.choice(sizes[:5]) if r < 0.55 else rng.choice(sizes[5:]) if r < 0.9 else rng.choice(sizes)
            method = b"HEAD" if rng.random() < 0.1 else b"GET"
            version = b"HTTP/1.0" if rng.random() < 0.1 else b"HTTP/1.1"
            value = gen_range(rng, size)
            if rng.random() < 0.03:
                size = 65536
                value = gen_buffer_edge(rng, size)
                ctx.count("buffer_edge_cases")
            elif rng.random() < 0.04:
                # files and single ranges around one and two producer batches (bufferSize = 64 KiB)
                size = rng.choice(BIG_SIZES)
                value = gen_single_edge(rng, size)
                ctx.count("big_file_cases")
            if rng.random() < 0.08:
                run_leaf(ctx, h, rng)
                continue
            if rng.random() < 0.03:
                run_abort(ctx, h, rng.choice(BIG_SIZES + [65536, 4096]) if rng.random() < 0.7 else size, value, rng.choice([1, 200, 60000, 66000]))
                continue
            follow = None
            if rng.random() < 0.12:
                s2 = rng.choice(sizes[:5])
                follow = (s2, b"HEAD" if rng.random() < 0.1 else b"GET", gen_range(rng, s2))
            pause_after = rng.choice([1, 1, 150, 300, 60000, 66000]) if rng.random() < 0.2 else None
            run_case(ctx, h, size, method, version, value, sample=i < 4 * ctx.nshards, pause_after=pause_after, follow=follow)
        ctx.count("transport_pauses_applied", h.flow_pauses)
        ctx.count("bytes_written_while_paused_unjudged", h.written_while_paused)
    finally:
        h.close()


def replay(ctx, w):
    x = w["witness"]
    h = Harness(ctx)
    try:
        v = x.get("range_latin1")
        value = None if v is None else v.encode("latin-1")
        run_case(ctx, h, x["size"], x["method"][2:].encode() if x["method"].startswith("b:") else x["method"].encode(),
                 x["version"][2:].encode() if x["version"].startswith("b:") else x["version"].encode(), value, sample=True)
    finally:
        h.close()
