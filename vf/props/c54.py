"""C54 FTP server never touches paths outside its root — real server, real reactor, audited.

What is monitored: a real ``FTPFactory`` (``FTPShell(root)`` for a password user,
``FTPShell(homes/bob)`` — a nearly empty home under an otherwise empty parent — for a second user,
``FTPAnonymousShell(root/pub)`` for anonymous) listens on 127.0.0.1:0 in a subprocess
(``c54_server.py``; select / poll / epoll / asyncio reactors) whose ``sys.addaudithook`` recorder
logs every filesystem audit event (open, os.listdir, os.scandir, os.mkdir, os.rmdir, os.remove,
os.rename, os.chmod, os.truncate, os.utime, os.link, os.symlink, shutil.* ...) with its path
arguments made absolute lexically (no symlinks exist in the scratch tree), interleaved with the
control-channel lines the server received.  This process is the scripted raw-socket client: it
sends hostile sessions (USER/PASS, CWD, CDUP, PWD, LIST, NLST, RETR, STOR, APPE, DELE, RMD, MKD,
RNFR/RNTO, SIZE, MDTM; PASV data connections) and rebuilds the scratch tree before each session.

Oracle (per session, shell root R): every audited event path that lies under the scratch area
``top`` must be R or inside R + os.sep; no audited path may equal a system path used in attack
strings (/etc/passwd ...); the tree outside R (names, sizes, contents, mtimes) is identical
before and after the session.  Secondary clause (DESIGN: "the server logged no unhandled error"),
deliberately narrowed to the path-safety exception: an ``InsecurePath`` reaching the server log
means ``toSegments`` passed an escaping path and only ``FilePath.child`` stopped it.

Containment: see c54_server.py (uid drop to 65534 + guarding audit hook) and ASSUMPTIONS.
Development self-test of the containment (not a registered check): C54_SELFTEST_UNCONFINED=1 makes
the server use a harness-defined unconfined shell; the run must print VIOLATION and leave
everything outside the scratch top untouched.

Depth extensions: two sessions interleaved on one server (events are attributed through the control
connection id of the most recent line — shell calls are synchronous inside lineReceived); leftover
state (working directory removed/renamed under the session, the root itself removed, rename state
across failed RNTO); fault injection (harness line ``XFAULT k ERRNO [call]``: the k-th filesystem call
of the next command fails in the audit hook / probe wrapper like the OS would) — only the same
oracle applies, the reply is not judged; every third command delivered in two TCP segments;
os.stat/lstat/access/readlink wrapped in the server so that probes are observed and counted.

Guards against false alarms: stat-style probes are counted, NOT judged (the statement lists open /
list / create / rename / delete; os.makedirs legitimately stats ancestors);
other logged failures (ENAMETOOLONG from very long names, ``NOOP x`` TypeError, transfer aborts)
are only counted — they say nothing about confinement; events outside ``top`` that are not attack
targets (lazy imports) are only counted; a client-side timeout or a dead server is inconclusive,
never a verdict; the mirror of the server's working directory is used for counters only.
"""
import hashlib
import json
import os
import posixpath
import re
import select
import shutil
import socket
import struct
import subprocess
import sys
import tempfile
import time

LEVEL = "exploration"
ENGINE = "E4-audit+E6-reactorproc (self-contained in c54.py / c54_server.py)"
TECHNIQUE = "runtime monitoring: audited filesystem paths of a live FTP server must stay inside the shell root"
RULE = ("one case = one FTP session of ~30 commands generated from (seed, index): login as the "
        "read-write user, anonymous, (8 %) a third user whose home and the two directories above it do not exist (MKD of "
        "the root itself and below it, every other verb), or (15 %) a second user whose home is nearly empty below an otherwise empty "
        "parent and whose sessions are MKD/RMD/DELE sequences that empty directories completely (some sessions first try commands unauthenticated or with a "
        "wrong password), then path commands whose arguments come from a hostile generator aware "
        "of a model of the working directory: exact relative/absolute-virtual escapes to sibling "
        "directories sharing the root's name prefix (root-secret, rootX, pub-private), to decoys "
        "and to the process cwd, '..' runs longer than the depth, real absolute paths, '.'/empty "
        "segments, NUL, backslashes, %-encoded dots, '..' decorated with every single byte 0x00-0xff "
        "(prefix, suffix, between the dots; round-robin so a quick run covers them all) and with invalid/overlong "
        "UTF-8, aimed at the prefix-sharing siblings directly (LIST/RETR/SIZE...) and via CWD + relative operations, globs, '~', 255..5000 character "
        "names, 40..200-deep paths, and benign names so that state (cwd, created files) evolves.  "
        "Reactor = index mod 4 (one server subprocess per reactor and shard).  Distinct = the exact command list; non-trivial = at "
        "least one escape attempt (argument lexically resolving outside the root) and at least "
        "one audited filesystem event inside the root in the same session (sparse-home sessions: at least one "
        "rmdir inside the root).")
ASSUMPTIONS = [
    "trusted base: CPython audit events (PEP 578) report every open/listdir/scandir/mkdir/rmdir/remove/rename/chmod/truncate made from Python code; C-level access (pwd/grp lookups) and os.stat are invisible",
    "paths are resolved lexically (os.path.abspath); the scratch tree contains no symbolic links ('symbolic links aside' in the statement)",
    "POSIX only; the client is well behaved at the socket level (always connects the PASV port) — hostility is in the command arguments and ordering",
    "containment (the check is run as root against deliberately broken trees): the server subprocess drops to uid/gid 65534 before serving "
    "(refuses to serve otherwise -> inconclusive), its audit hook raises PermissionError before any mutating operation, chdir or process "
    "creation that leaves the scratch top (such refused operations are violation witnesses), and independently of both the generator keeps "
    "the '..' segments of all CWD/CDUP plus any destructive argument within the 13 levels up to the scratch top and never aims "
    "destructive commands or CWD at system paths.  Not guarded: os.open(..., dir_fd=) relative opens (no dir_fd in the audit event)",
    "a read of a path outside the scratch area is attributed to the interpreter (imports, linecache) only if it ends in .py/.pyc/.pyi/.so/.pth",
]
SHARDS = {"quick": 4, "thorough": 16}
WATCHDOG_S = {"quick": 600, "thorough": 3000}
FLOORS = {"sessions": 60, "opens_inside_root": 100, "listings_inside_root": 250, "mutations_inside_root": 250,
          "ev_os.mkdir": 100, "ev_os.remove": 30, "ev_os.rename": 50, "ev_os.rmdir": 30,
          "sessions_sparse": 15, "rmdir_in_sparse_home": 60, "sessions_ghost": 8,
          "mkd_with_root_and_its_parents_missing": 80, "mkd_of_the_missing_root_itself": 40, "sessions_interleaved_with_another": 40,
          "faults_injected": 80, "commands_delivered_split": 1500, "stat_probes_inside_root": 3000, "escape_attempt_commands": 700, "escape_attempts_refused_5xx": 500, "transfers_completed": 100}
READY = True

REACTORS = ["select", "poll", "epoll", "asyncio"]
PAD = 12  # directory levels between the scratch top and `base`
BASE_T = "@TOP@" + "/p" * PAD + "/b"  # template of `base`; the only placeholder is @TOP@ (+ @TOPREL@)
ROOT_T = {"rw": BASE_T + "/root", "anon": BASE_T + "/root/pub",
          # nearly empty home below an otherwise empty parent: base/homes holds only bob, bob holds only `only/`
          "sparse": BASE_T + "/homes/bob",
          # a home that does not exist, two missing directories below the existing, empty base/ghosts
          "ghost": BASE_T + "/ghosts/deep/er/carol"}
USER3, PASSWORD3 = "carol", "nowhere"
USER2, PASSWORD2 = "bob", "builder"
MAX_UPS_DESTRUCTIVE = PAD + 1
USER, PASSWORD = "alice", "wonderland"
ROOT_DIRS = ["pub", "pub/docs", "pub/docs/deep", "pub/upload", "pub-private", "home", "home/sub", "home/sub/inner", "empty"]
ROOT_FILES = ["readme.txt", "pub/index.txt", "pub/docs/guide.txt", "pub/docs/deep/leaf.txt",
              "pub-private/secret.txt", "home/notes.txt", "home/sub/a.txt", "home/sub/inner/b.txt"]
BASE_DIRS = ["root-secret", "root-secret/dir", "rootX", "outside", "etc", "pub", "home"]
BASE_FILES = ["root-secret/secret.txt", "root-secret/dir/x.txt", "rootX/secret.txt", "outside/sentinel.txt",
              "etc/passwd", "pub/index.txt", "home/notes.txt", "readme.txt"]
TOP_FILES = ["etc/passwd", "sentinel.txt", "cwd/sentinel.txt", "cwd/readme.txt"]
SYSTEM_TARGETS = ["/etc/passwd", "/etc/hostname", "/etc", "/", "/proc/self/environ", "/etc/shadow"]
RO_VERBS = ["CWD", "LIST", "NLST", "RETR", "SIZE", "MDTM"]
RW_VERBS = ["STOR", "APPE", "DELE", "RMD", "MKD", "RNFR"]
TRANSFER = ("LIST", "NLST", "RETR", "STOR", "APPE")
PAYLOAD = b"c54 upload payload\r\n" * 3
HARNESS_FILES = ("server.err", "server.json")  # written by the harness directly under top
PAIR_OFFSET = 10 ** 7  # case id of the session interleaved with case i is PAIR_OFFSET + i
UNPRIV = 65534  # the server drops to this uid/gid when the harness runs as root (containment)
EXIT_CANNOT_DROP = 77
INTERPRETER_READS = (".py", ".pyc", ".pyi", ".so", ".pth")  # only reads of such files outside the scratch area are
# attributed to the interpreter (imports, linecache for tracebacks); any other outside path is an escape
GUARD_ONLY_EVENTS = ("os.system", "os.exec", "os.posix_spawn", "os.spawn", "os.fork", "os.forkpty", "subprocess.Popen",
                     "os.startfile", "os.chroot")  # refused outright by the server's guard
MUTATING_EVENTS = ("os.mkdir", "os.rmdir", "os.remove", "os.rename", "os.truncate", "os.chmod", "os.link", "os.symlink")


# ---- scratch layout ---------------------------------------------------------------------------
class Layout:
    def __init__(self):
        self.top = os.path.realpath(tempfile.mkdtemp(prefix="c54_"))
        self.chown = os.geteuid() == 0  # the server will run as UNPRIV: hand the scratch tree over
        os.chmod(self.top, 0o755)
        self.base = self.real(BASE_T)
        self.root = self.real(ROOT_T["rw"])
        os.makedirs(os.path.join(self.top, "cwd"))
        os.makedirs(os.path.join(self.top, "etc"))
        for f in TOP_FILES:
            self._write(os.path.join(self.top, f))
        self.build_base()
        self.own(self.top)

    def own(self, path):
        """Give path (recursively) to the unprivileged uid the server runs as."""
        if not self.chown:
            return
        os.chown(path, UNPRIV, UNPRIV)
        for dirpath, dirnames, filenames in os.walk(path):
            for n in dirnames + filenames:
                os.lchown(os.path.join(dirpath, n), UNPRIV, UNPRIV)

    def real(self, s):
        return s.replace("@TOPREL@", self.top.lstrip("/")).replace("@TOP@", self.top)

    def templ(self, s):
        return s.replace(self.top, "@TOP@") if isinstance(s, str) else s

    @staticmethod
    def _write(path):
        with open(path, "w") as f:
            f.write("sentinel content of %s\n" % os.path.basename(os.path.dirname(path)) + path[-40:] + "\n")

    def build_base(self):
        shutil.rmtree(os.path.join(self.top, "p"), ignore_errors=True)
        os.makedirs(self.base)
        for d in BASE_DIRS:
            os.makedirs(os.path.join(self.base, d))
        for f in BASE_FILES:
            self._write(os.path.join(self.base, f))
        self.build_root()
        self.own(os.path.join(self.top, "p"))

    def build_root(self):
        homes = os.path.join(self.base, "homes")
        shutil.rmtree(homes, ignore_errors=True)
        os.makedirs(os.path.join(self.real(ROOT_T["sparse"]), "only"))
        self.own(homes)
        ghosts = os.path.join(self.base, "ghosts")
        shutil.rmtree(ghosts, ignore_errors=True)
        os.mkdir(ghosts)
        self.own(ghosts)
        shutil.rmtree(self.root, ignore_errors=True)
        if os.path.lexists(self.root):  # an emptied root that a session re-created as a file
            os.remove(self.root)
        os.mkdir(self.root)
        for d in ROOT_DIRS:
            os.mkdir(os.path.join(self.root, d))
        for f in ROOT_FILES:
            self._write(os.path.join(self.root, f))
        self.own(self.root)

    def snapshot_outside(self, roots):
        """State of everything under top that is not inside one of the session roots."""
        snap = {}
        for dirpath, dirnames, filenames in os.walk(self.top):
            dirnames[:] = sorted(d for d in dirnames if os.path.join(dirpath, d) not in roots)
            # a root may have been removed and re-created as a FILE by the session (RMD /, then "STOR " with an
            # empty argument = the root itself): still the root itself, not outside it
            filenames = sorted(f for f in filenames if f not in HARNESS_FILES and os.path.join(dirpath, f) not in roots)
            snap[dirpath] = ("dir", tuple(dirnames), tuple(filenames))
            for fn in filenames:
                p = os.path.join(dirpath, fn)
                st = os.lstat(p)
                with open(p, "rb") as f:
                    snap[p] = ("file", st.st_size, st.st_mtime_ns, hashlib.blake2b(f.read(), digest_size=8).hexdigest())
        return snap

    def remove(self):
        shutil.rmtree(self.top, ignore_errors=True)


# ---- hostile session generator (pure function of the rng; templates contain @TOP@/@TOPREL@) ----
def vsegs(cwd, path):
    """Specification of FTP virtual path resolution: None = refused (rises above the root / NUL)."""
    segs = [] if path.startswith("/") else list(cwd)
    for s in path.split("/"):
        if s in ("", "."):
            continue
        if s == "..":
            if not segs:
                return None
            segs.pop()
        elif "\0" in s:
            return None
        else:
            segs.append(s)
    return segs


def _fake(t):
    return t.replace("@TOP@", "/T")


def outside_targets(kind, rng):
    n = "new-%d" % rng.randrange(1000)
    t = [BASE_T + "/" + x for x in BASE_FILES + BASE_DIRS] + [
        BASE_T, "@TOP@", "@TOP@/etc/passwd", "@TOP@/sentinel.txt", "@TOP@/cwd/sentinel.txt", "@TOP@/cwd",
        BASE_T + "/root-secret/" + n, BASE_T + "/outside/" + n, BASE_T + "/" + n, "@TOP@/cwd/" + n]
    if kind == "anon":
        r = ROOT_T["rw"]
        t += [r, r + "/readme.txt", r + "/pub-private/secret.txt", r + "/pub-private", r + "/home/notes.txt",
              r + "/home", r + "/pub-private/" + n, r + "/" + n] * 2
    if kind == "ghost":
        t += [BASE_T + "/ghosts", BASE_T + "/ghosts/deep", BASE_T + "/ghosts/deep/er", BASE_T + "/ghosts/" + n] * 2
    if kind == "sparse":
        t += [BASE_T + "/homes", BASE_T + "/homes/" + n, BASE_T + "/homes/bobby", BASE_T + "/root/readme.txt"] * 2
    return t


def inside_names(kind):
    if kind == "sparse":
        return ["only"]
    if kind == "ghost":
        return []
    names = ROOT_DIRS + ROOT_FILES
    if kind == "anon":
        names = [x[4:] for x in names if x.startswith("pub/")]
    return names


OBFUSCATED_DOTS = ["..\\", "%2e%2e", "%2E%2E", "..;", ". .", "...", "....", "..\0", "\0..", ".. ", " ..", "..%2f", "..%5c",
                   "\xc0\xae\xc0\xae", "..\t", ".\0.", "..\n", "\r..", "..?", "..*"]


def _dot_variants():
    """'..' decorated with every single extra byte (prefix, suffix, between the dots) and with short
    invalid / overlong UTF-8 sequences: segments that are ordinary names for a correct resolver but
    turn into '..' under any lossy re-decoding, stripping or truncation after the resolution."""
    v = []
    for b in range(256):
        c = chr(b)
        if c != "/":
            v += [c + "..", ".." + c, "." + c + "."]
    v += ["\xc0\xae\xc0\xae", "\xc0\xae.", ".\xc0\xae", "\xe0\x80\xae\xe0\x80\xae", "\xf0\x80\x80\xae\xf0\x80\x80\xae",
          "\xc3..", "..\xc3", "\xf0..", "..\xf0", "\xf0\x9f..", "..\xf0\x9f\x98", "\xed\xa0\x80..", "..\xed\xa0\x80", "\xed\xb0\x80..",
          "\xff..\xff", "\xff.\xff.\xff", "\xc3.\xc3.", ".\xed\xa0\x80.", "\xef\xbb\xbf..", "..\xef\xbf\xbe", "\x80..", "..\xbf\xbf",
          "\xc2\xa0..", "..\xc2\xa0", "%c0%ae%c0%ae", "..%c0%af", "..%00", "%2e%2e%ff", "..\0\xff", "\xfe\xff..", ".\x00\x00.",
          "\xff\xff..", "..\xff\xff", ".\xff\xff.", "\xff\xf4..", "..\xff\xf2", "\xff\xfb\x01..", "..\r\0", "\r\0.."]  # telnet IAC doubling / commands / CR NUL
    return v


DOT_VARIANTS = _dot_variants()
# (directory outside the root reachable with ONE parent reference, a file in it); the first ones
# share the root directory's name as a prefix (root / root-secret / rootX, pub / pub-private)
SIBLINGS = {"rw": [("root-secret", "secret.txt"), ("rootX", "secret.txt"), ("root-secret/dir", "x.txt"), ("outside", "sentinel.txt"),
                   ("pub", "index.txt"), ("etc", "passwd")],
            "anon": [("pub-private", "secret.txt"), ("pub-private", "secret.txt"), ("home", "notes.txt"), ("home/sub", "a.txt"),
                     ("empty", "")]}


def decorated_piece(rng, kind, index, piece, cwd, cwd_ups):
    """Commands of one decorated-dot probe.  The decoration is picked round-robin from (index, piece)
    so that a quick run (300 sessions x 4 pieces) walks through all of DOT_VARIANTS.  Returns
    (commands, new model cwd, new cwd_ups)."""
    D = DOT_VARIANTS[(index * 4 + piece) % len(DOT_VARIANTS)]
    sib, fname = SIBLINGS[kind][rng.randrange(len(SIBLINGS[kind])) if rng.random() < 0.4 else rng.randrange(2)]
    target = sib + ("/" + fname if fname and rng.random() < 0.7 else "")
    noise = rng.choice(["", "", chr(rng.randrange(256)).replace("/", "") + "./", "./", "." + chr(rng.randrange(128, 256)) + "/"])
    inside = sorted(x for x in inside_names(kind) if "." not in x and "/" not in x)

    def ro(arg):
        verb = rng.choice(["LIST", "RETR", "SIZE", "NLST", "MDTM", "RETR", "LIST"])
        return (["PASV"] if verb in TRANSFER else []) + [verb + " " + arg]

    if piece == 0:  # directly as the argument, relative to the model cwd
        return ro("/".join([D] * (len(cwd) + 1)) + "/" + noise + target), cwd, cwd_ups
    if piece == 1:  # absolute-virtual, optionally through an existing directory
        d = rng.choice(inside) if inside and rng.random() < 0.4 else None
        return ro("/" + (d + "/" + D + "/" if d else "") + D + "/" + noise + target), cwd, cwd_ups
    if piece == 3:  # from depth one: two decorated segments
        if not inside:
            return [], cwd, cwd_ups
        d = rng.choice(inside)
        return ["CWD /" + d] + ro(D + "/" + noise + D + "/" + target), [d], cwd_ups
    # piece 2: CWD through the decorated segment, then plain relative operations from there
    if cwd_ups + 2 > MAX_UPS_DESTRUCTIVE:
        return [], cwd, cwd_ups
    cmds = ["CWD /", "CWD " + D + "/" + sib, "PWD", "PASV", "LIST", "PASV", "NLST"]
    if fname:
        cmds += ["PASV", "RETR " + fname, "SIZE " + fname]
    k = rng.randrange(1000)
    cmds += rng.choice([["DELE " + (fname or "x")], ["MKD new-%d" % k], ["PASV", "STOR new-%d" % k],
                        ["RNFR " + (fname or "x"), "RNTO moved-%d" % k], ["RMD dir"], []])
    return cmds + ["CWD /"], [], cwd_ups + max(1, count_ups(D))


def hostile_path(rng, kind, cwd, destructive, max_ups=MAX_UPS_DESTRUCTIVE):
    """One path argument.  `cwd` is the generator's model of the virtual working directory.
    destructive=True: no system absolute paths and at most max_ups parent references."""
    root_f = _fake(ROOT_T[kind])
    here_f = posixpath.join(root_f, *cwd) if cwd else root_f
    names = inside_names(kind)
    r = rng.random()
    if r < 0.26:  # benign: existing or new name, relative to the model cwd or absolute-virtual
        name = rng.choice(names + ["new-%d" % rng.randrange(40), "new-%d/sub" % rng.randrange(40), "upload/up-%d" % rng.randrange(9)])
        if rng.random() < 0.5:
            p = "/" + name
        else:
            p = posixpath.relpath(posixpath.join(root_f, name), here_f)
            if p.startswith("..") and rng.random() < 0.7:
                p = "/" + name
        if rng.random() < 0.1:
            p = ""
    elif r < 0.80:  # escapes aimed at a concrete target outside the root
        target = rng.choice(outside_targets(kind, rng))
        tf = _fake(target)
        form = rng.random()
        if form < 0.30:
            p = posixpath.relpath(tf, here_f)
        elif form < 0.45:
            p = "/" + posixpath.relpath(tf, root_f)
        elif form < 0.60:  # detour through an existing directory (or a missing one)
            d = rng.choice([x for x in names if "." not in x] + ["nonexistent"])
            p = "/" + d + "/" + posixpath.relpath(tf, posixpath.join(root_f, d))
        elif form < 0.72:  # real absolute path as the argument
            p = rng.choice([target, "/" + target, "//" + target, "/@TOPREL@" + target[5:], "@TOPREL@" + target[5:]])
        elif form < 0.86:  # more '..' than any depth
            if destructive:
                p = "../" * rng.randrange(1, 4) + posixpath.relpath(tf, here_f)
            else:
                p = "../" * rng.choice([20, 40, 64]) + "@TOPREL@" + target[5:]
        else:  # climbs then re-enters through the root's own name, then escapes again
            p = posixpath.relpath(tf, here_f)
            p = p.replace("../", "../" + posixpath.basename(root_f) + "/../", 1) if p.startswith("../") else p
        m = rng.random()
        if m < 0.12:
            p = p.replace("..", rng.choice(OBFUSCATED_DOTS + DOT_VARIANTS if rng.random() < 0.5 else OBFUSCATED_DOTS), rng.choice([1, 99]))
        elif m < 0.20:
            p = p.replace("/", "\\")
        elif m < 0.40:  # sprinkle no-op segments
            parts = p.split("/")
            for _ in range(rng.randrange(1, 4)):
                parts.insert(rng.randrange(len(parts) + 1), rng.choice([".", "", ".", ""]))
            p = "/".join(parts)
        elif m < 0.46:
            p = p + rng.choice(["/", "/.", "//", "/*", "\0", "\0.txt", " ", "/../" + posixpath.basename(tf)])
        elif m < 0.50:
            p = rng.choice(["x\0", "\0", "pub\0/", "a/\0/"]) + p
    elif r < 0.86:  # shared-prefix concatenation tricks, globs, tilde, flags
        p = rng.choice(["-secret/secret.txt", "/-secret/secret.txt", "X/secret.txt", "/X/secret.txt", "-private/secret.txt",
                        "../root-secret/*", "../*", "/../*", "*", "[a-z]*", "?eadme.txt", "*/../../*", "pub*/../../root-secret/*",
                        "../pub-private/*", "~", "~root", "~/x", "~" + USER, "-la", "-al", "-a ../", "-l /..", "-la ../root-secret",
                        "..", "../", "/..", "/../", "../..", "/../..", ".", "/", "//", "/./", "./..", "/.//../"])
    elif r < 0.93:  # long names / deep paths
        k = rng.choice([255, 256, 300, 1000, 5000])
        p = rng.choice(["A" * k, ("d/" * (40 if destructive else 200)) + "x", "../" * MAX_UPS_DESTRUCTIVE + "A" * k, "pub/" + "B" * k,
                        "\xe9" * 128, ("../" if not destructive else "./") * 300 + "etc/passwd", "/" + "/" * 300 + ".."])
    elif r < 0.97 and not destructive:
        p = rng.choice(SYSTEM_TARGETS + ["../" * 40 + "etc/passwd", "/../../../../../../../../etc/passwd", "//etc/passwd", "/./etc/../etc/passwd"])
    else:
        p = rng.choice(["\x7f", "\x01\x02", "a\tb", "a\nb", "a\rb", "\xff\xfe", "con", "nul", "a:b", "C:\\", "\\\\host\\share", " ", "  x  "])
    if destructive:
        if count_ups(p) > max_ups or p.lstrip("/\\").startswith(("etc", "proc")):
            p = "../" * max(0, max_ups) + "etc/passwd" if max_ups > 0 else "new-%d" % rng.randrange(40)
    if len(p) > 9000:
        p = p[:9000]
    return p


def count_ups(p):
    """Conservative count of segments that could act as a parent reference under any lossy decoder
    ('/' and '\\' both separate): two dots anywhere in the segment, also overlong / %-encoded ones."""
    def dots(s):
        return s.count(".") + s.count("\xc0\xae") + s.count("\xe0\x80\xae") + s.count("\x80\x80\xae") + s.lower().count("%2e") + s.lower().count("%c0%ae")
    return sum(1 for s in re.split(r"[/\\]", p) if dots(s) >= 2)


FAULT_ERRNOS = ["ENOENT", "EACCES", "EPERM", "ENOTDIR", "EISDIR", "EEXIST", "ENOSPC", "ENOTEMPTY", "EIO", "ELOOP", "ENAMETOOLONG"]


FAULT_CALL = {"STOR": "open", "APPE": "open", "RETR": "open", "RNTO": "os.rename", "MKD": "os.mkdir", "RMD": "os.rmdir",
              "DELE": "os.remove", "LIST": "os.listdir", "NLST": "os.listdir", "CWD": "os.listdir", "SIZE": "stat", "MDTM": "stat"}


def fault_plan(rng, verb=None):
    """Harness control line: the k-th filesystem call (audited call or stat-style probe; optionally only
    calls of one kind, chosen to be the decisive call of the coming verb) the server makes under the
    scratch top while processing the NEXT command fails with this errno."""
    call = FAULT_CALL.get((verb or "").upper())
    if call and rng.random() < 0.5:
        return "XFAULT %d %s %s" % (rng.choice([1, 1, 1, 2]), rng.choice(FAULT_ERRNOS), call)
    return "XFAULT %d %s" % (rng.choice([1, 1, 2, 2, 3, 4]), rng.choice(FAULT_ERRNOS))


def leftover_state(rng, which, budget):
    """State left behind by earlier commands (read-write user; ends with CWD /)."""
    k = rng.randrange(1000)
    if which == 4:  # the working directory is removed or renamed under the session's feet, then used
        gone = rng.choice([["RMD /stale-%d" % k], ["RNFR /stale-%d" % k, "RNTO /moved-%d" % k],
                           ["RNFR /stale-%d" % k, "RNTO /home/sub/moved-%d" % k], ["RMD /stale-%d/in" % k, "RMD /stale-%d" % k]])
        use = [["PASV", "LIST"], ["PASV", "NLST"], ["PASV", "STOR f.txt"], ["MKD sub"], ["SIZE f.txt"], ["PASV", "RETR in"], ["RMD in"],
               ["DELE f.txt"], ["CDUP"], ["CWD .."], ["CWD ."], ["PWD"], ["RNFR in", "RNTO ../out-%d" % k], ["MDTM ."], ["MKD ../peer-%d" % k],
               ["PASV", "LIST .."], ["CWD in"], ["RNFR .", "RNTO ../self-%d" % k]]
        rng.shuffle(use)
        cmds = ["MKD /stale-%d/in" % k, "CWD /stale-%d" % k] + (["CWD in"] if rng.random() < 0.3 else []) + gone
        for u in use[:rng.randrange(3, 8)]:
            if rng.random() < 0.12:
                u = u[:-1] + [fault_plan(rng, u[-1].split(" ")[0])] + u[-1:]
            cmds += u
        return cmds + ["CWD /"]
    # which == 5: rename state across failures, and a failed command's leftovers feeding the next one
    esc = hostile_path(rng, "rw", [], True, budget)
    return rng.choice([
        ["RNFR readme.txt", "RNTO " + esc, "RNTO /renamed-%d" % k, "PASV", "LIST /"],
        ["RNFR " + esc, "RNTO /stolen-%d" % k, "SIZE /stolen-%d" % k],
        ["RNFR /home/notes.txt", "PASV", "RNTO /home/n-%d" % k, "RNFR /nonexistent", "RNTO " + esc],
        ["RNFR /home", fault_plan(rng), "RNTO /home-%d" % k, "CWD /home", "PASV", "LIST", "CWD /home-%d" % k, "PASV", "NLST"],
        ["PASV", "STOR " + esc, "PASV", "STOR /up-%d" % k, "PASV", "RETR " + esc, "DELE /up-%d" % k],
        ["MKD " + esc, "CWD " + hostile_path(rng, "rw", [], True, budget), "PWD", "MKD here-%d" % k, "RMD here-%d" % k],
    ]) + ["CWD /"]


def gen_sparse(rng):
    """Commands for the nearly empty home (root = base/homes/bob containing only `only/`, and
    base/homes containing only bob): ordinary MKD / RMD / DELE sequences that empty directories
    completely, so that any clean-up of 'now empty' parents that does not stop at the root shows."""
    def k():
        return rng.randrange(100)
    blocks = [
        lambda: ["RMD only"],
        lambda: ["RMD " + rng.choice(["/only", "./only/", "only/", "only/../only", "/./only", "//only"])],
        lambda: ["MKD a/b/c", "RMD a/b/c", "RMD a/b", "RMD a"],
        lambda: ["MKD a/b/c", "RMD a/b/c"],
        lambda: (lambda d: ["MKD /%s/e/f/g" % d, "RMD %s/e/f/g" % d, "RMD /%s/e/f" % d, "PWD"])("d%d" % k()),
        lambda: ["MKD x", "CWD x", "MKD y", "RMD y", "CWD /", "RMD x"],
        lambda: ["MKD x", "CWD x", "MKD y", "CWD y", "CDUP", "RMD y", "CDUP", "RMD x"],
        lambda: ["PASV", "STOR only/f.txt", "DELE only/f.txt", "RMD only"],
        lambda: ["PASV", "STOR f%d.txt" % k(), "PASV", "NLST", "DELE " + "f*.txt", "PWD"],
        lambda: ["CWD only", "PASV", "STOR last.txt", "DELE last.txt", "CWD /", "RMD only"],
        lambda: ["RNFR only", "RNTO other", "RMD other"],
        lambda: ["MKD only", "MKD only/sub", "RMD only/sub", "RMD only"],
        lambda: ["PASV", "LIST", "PASV", "NLST /", "SIZE only", "MDTM only"],
        lambda: ["CWD only", "RMD /only", "PWD", "PASV", "LIST", "CWD /"],
        lambda: ["RMD " + rng.choice([".", "/", "", "only/..", "./"])],
        # the root itself removed (allowed: it is the root), then used: anything "falling back" to a parent is outside
        lambda: ["RMD only", "RMD /", "PASV", "LIST", "PASV", "NLST", "CWD /", "CWD .", "PWD", "SIZE .", "MDTM /", "MKD back/again", "RMD back/again"],
        lambda: ["CWD only", "RMD /only", "RMD /", "PASV", "LIST", "PASV", "STOR f.txt", "MKD sub", "CDUP", "PASV", "NLST", "CWD /"],
    ]
    cmds = []
    while len(cmds) < 30:
        r = rng.random()
        if r < 0.62:
            cmds += rng.choice(blocks)()
        elif r < 0.70:
            d = "n%d" % k()
            depth = rng.randrange(1, 5)
            path = "/".join([d] + ["s"] * depth)
            cmds.append("MKD " + path)
            for j in range(depth + 1, 0, -1) if rng.random() < 0.7 else [depth + 1]:
                cmds.append("RMD " + "/".join(path.split("/")[:j]))
        else:
            destructive = rng.random() < 0.4
            verb = rng.choice(RW_VERBS if destructive else [v for v in RO_VERBS if v != "CWD"])
            arg = hostile_path(rng, "sparse", [], True if destructive else False)
            cmds += (["PASV"] if verb in TRANSFER else []) + [verb + " " + arg]
            if verb == "RNFR":
                cmds.append("RNTO " + hostile_path(rng, "sparse", [], True))
    out = []
    for c in cmds:  # fault plans in front of some of the mutating / listing commands
        if c.split(" ")[0] in ("RMD", "MKD", "DELE", "STOR", "RNTO", "LIST", "NLST", "CWD") and rng.random() < 0.07:
            out.append(fault_plan(rng, c.split(" ")[0]))
        out.append(c)
    return out


def gen_ghost(rng):
    """Commands for the home that does not exist (nor do the two directories above it): MKD with
    arguments that resolve to the root itself and to paths below it, and every other verb."""
    to_root = ["/", ".", "a/..", "./", "//", "/.", "x/y/../..", "/a/..", "././.", "a/./..", "/./", "b/../."]
    below = ["a", "a/b", "/a", "a/b/c", "/n%d" % rng.randrange(50), "./a", "a//b", "/a/b/../c", "d/"]
    cmds = []
    while len(cmds) < 26:
        r = rng.random()
        if r < 0.34:
            cmds.append("MKD " + rng.choice(to_root))
        elif r < 0.58:
            cmds.append("MKD " + rng.choice(below))
        elif r < 0.84:
            cmds += rng.choice([["PASV", "LIST"], ["PASV", "NLST /"], ["CWD /"], ["CWD a"], ["PWD"], ["CDUP"], ["PASV", "STOR f.txt"],
                                ["PASV", "STOR a/f.txt"], ["RMD /"], ["RMD a"], ["RMD a/b"], ["DELE f.txt"], ["SIZE ."], ["MDTM /"],
                                ["PASV", "RETR f.txt"], ["RNFR a", "RNTO b"], ["RNFR /", "RNTO /moved"], ["MKD a", "CWD a", "MKD ..", "MKD .", "CWD /"]])
        else:
            destructive = rng.random() < 0.5
            verb = rng.choice(RW_VERBS if destructive else [v for v in RO_VERBS if v != "CWD"])
            cmds += (["PASV"] if verb in TRANSFER else []) + [verb + " " + hostile_path(rng, "ghost", [], destructive)]
            if verb == "RNFR":
                cmds.append("RNTO " + hostile_path(rng, "ghost", [], True))
    out = []
    for c in cmds:
        if c.split(" ")[0] in ("MKD", "RMD", "STOR", "LIST", "CWD") and rng.random() < 0.06:
            out.append(fault_plan(rng, c.split(" ")[0]))
        out.append(c)
    return out


def gen_session(rng, index, nshards):
    r = rng.random()
    kind = "sparse" if r < 0.15 else "anon" if r < 0.45 else "rw"
    if rng.random() < 0.08:
        return {"case": index, "user": "ghost", "reactor": REACTORS[index % len(REACTORS)],
                "commands": ["USER " + USER3, "PASS " + PASSWORD3] + gen_ghost(rng) + ["QUIT"]}
    if kind == "sparse":
        return {"case": index, "user": kind, "reactor": REACTORS[index % len(REACTORS)],
                "commands": ["USER " + USER2, "PASS " + PASSWORD2] + gen_sparse(rng) + ["QUIT"]}
    cmds = []
    style = rng.random()
    if style < 0.08:  # unauthenticated attempts first
        for _ in range(3):
            cmds.append("%s %s" % (rng.choice(RO_VERBS + RW_VERBS), hostile_path(rng, kind, [], True)))
    if style > 0.92:  # wrong password first
        cmds += ["USER " + USER, "PASS nope", "RETR " + hostile_path(rng, kind, [], False)]
    cmds += ["USER anonymous", "PASS c54@example.invalid"] if kind == "anon" else ["USER " + USER, "PASS " + PASSWORD]
    cwd, cwd_ups = [], 0
    dirs = set(x for x in inside_names(kind) if "." not in x)
    n = 30
    pieces = dict(zip(rng.sample(range(30), 6), range(6)))  # when to run the decorated-dot probes (0-3) and
    while n > 0:                                              # the leftover-state sequences (4, 5)
        n -= 1
        if n in pieces and pieces[n] >= 4:
            if kind == "rw":
                cmds += leftover_state(rng, pieces[n], MAX_UPS_DESTRUCTIVE - cwd_ups)
                cwd = []
        elif n in pieces:
            more, cwd, cwd_ups = decorated_piece(rng, kind, index, pieces[n], cwd, cwd_ups)
            cmds += more
        r = rng.random()
        if r < 0.04:
            # no "TYPE A": ASCII-mode RETR raises TypeError in ASCIIConsumerWrapper.write on Python 3 and
            # leaves the data connection open for ever (unrelated to confinement; would stall the client)
            cmds.append(rng.choice(["PWD", "NOOP", "SYST", "FEAT", "TYPE I", "pwd", "STAT", "NOOP x", "MODE S", "STRU F"]))
            continue
        if r < 0.09 and cwd_ups < MAX_UPS_DESTRUCTIVE:
            cmds.append("CDUP")
            cwd_ups += 1
            if cwd:
                cwd.pop()
            continue
        if r < 0.16:  # plain descent so that later commands run from depth
            here = "/".join(cwd)
            sub = sorted(d for d in dirs if posixpath.dirname(d) == here)
            if sub:
                d = rng.choice(sub)
                cmds.append("CWD " + posixpath.basename(d))
                cwd = d.split("/")
                continue
        destructive = rng.random() < (0.25 if kind == "anon" else 0.45)
        verb = rng.choice(RW_VERBS if destructive else RO_VERBS)
        # SAFETY (a broken server must stay inside the scratch area): the working directory persists,
        # so CWD arguments are generated under the destructive rules too, and the parent references
        # of all CWD/CDUP so far plus those of any one destructive argument never exceed the PAD+1
        # levels between the root and the scratch top.
        budget = MAX_UPS_DESTRUCTIVE - cwd_ups
        arg = hostile_path(rng, kind, cwd, destructive or verb == "CWD", budget)
        if verb == "CWD":
            cwd_ups += count_ups(arg)
        if verb in TRANSFER and rng.random() < 0.92:
            cmds.append("PASV")
        if rng.random() < 0.03:
            verb = verb.lower()
        if rng.random() < 0.07:
            cmds.append(fault_plan(rng, verb))
        cmds.append(verb + " " + arg if not (verb in ("LIST", "NLST") and arg == "" and rng.random() < 0.5) else verb)
        if verb.upper() == "RNFR":
            if rng.random() < 0.1:
                cmds.append(fault_plan(rng, "RNTO"))
            cmds.append("RNTO " + hostile_path(rng, kind, cwd, True, budget))
        if verb.upper() == "CWD":
            s = vsegs(cwd, arg)
            if s is not None and "/".join(s) in dirs | {""}:
                cwd = s
        if verb.upper() == "MKD":
            s = vsegs(cwd, arg)
            if s:
                dirs.add("/".join(s))
    cmds.append("QUIT")
    return {"case": index, "user": kind, "reactor": REACTORS[index % len(REACTORS)], "commands": cmds}


# ---- raw-socket client ----------------------------------------------------------------------------
class Stall(Exception):
    pass


class Closed(Exception):
    pass


class Pacer:
    """Keeps the loopback port range usable (pacing only, never a verdict).  A socket closed
    gracefully by its active closer sits in TIME_WAIT for 60 s and blocks its port for bind(0);
    thousands of PASV connections per second would exhaust the ephemeral range.  The client
    therefore resets (SO_LINGER 0) every socket on which nothing more is expected, the few graceful
    closes that remain (the uploads) go through a token bucket sized from ip_local_port_range / 60 s /
    nshards, and the kernel's TIME_WAIT count is polled between sessions."""

    def __init__(self, nshards):
        try:
            with open("/proc/sys/net/ipv4/ip_local_port_range") as f:
                lo, hi = map(int, f.read().split())
        except (OSError, ValueError):
            lo, hi = 32768, 60999
        self.span = max(1000, hi - lo)
        self.rate = max(4.0, self.span / 60.0 / max(1, nshards) * 0.4)
        self.tokens = self.burst = self.rate * 5
        self.t = time.monotonic()
        self.slept = 0.0
        self.sessions = 0

    def _sleep(self, d):
        time.sleep(d)
        self.slept += d

    def graceful_close(self):
        now = time.monotonic()
        self.tokens = min(self.burst, self.tokens + (now - self.t) * self.rate)
        self.t = now
        self.tokens -= 1
        if self.tokens < 0:
            self._sleep(min(2.0, -self.tokens / self.rate))

    def between_sessions(self):
        self.sessions += 1
        if self.sessions % 10:
            return
        for _ in range(90):
            try:
                with open("/proc/net/sockstat") as f:
                    tw = int(re.search(r"\btw (\d+)", f.read()).group(1))
            except (OSError, AttributeError, ValueError):
                return
            if tw < 0.4 * self.span:
                return
            self._sleep(1.0)


PACER = Pacer(1)


def rst_close(sock):
    """Close with SO_LINGER(on, 0): a reset frees both ends at once (no TIME_WAIT anywhere).  Only
    used when nothing more is expected on the socket (EOF already read, or never used)."""
    try:
        sock.setsockopt(socket.SOL_SOCKET, socket.SO_LINGER, struct.pack("ii", 1, 0))
    except OSError:
        pass
    try:
        sock.close()
    except OSError:
        pass


def connect(port, timeout):
    """connect() with a short backoff: a transiently exhausted port range is not a verdict."""
    err = None
    for delay in (0.0, 0.1, 0.3, 1.0, 2.0, 4.0):
        if delay:
            PACER._sleep(delay)
        try:
            return socket.create_connection(("127.0.0.1", port), timeout=timeout)
        except OSError as e:
            err = e
    raise err


class Client:
    TIMEOUT = 20

    def __init__(self, port):
        self.port = port
        self.sock = connect(port, self.TIMEOUT)
        self.sock.setsockopt(socket.IPPROTO_TCP, socket.TCP_NODELAY, 1)
        self.buf = b""
        self.data = None

    def _line(self):
        while b"\r\n" not in self.buf:
            try:
                chunk = self.sock.recv(65536)
            except socket.timeout:
                raise Stall("no reply within %ds" % self.TIMEOUT)
            except OSError:
                raise Closed()
            if not chunk:
                raise Closed()
            self.buf += chunk
        line, self.buf = self.buf.split(b"\r\n", 1)
        return line

    def reply(self):
        line = self._line()
        m = re.match(rb"(\d{3})([ -])", line + b" ")
        if not m:
            return 0, line.decode("latin-1")
        code = m.group(1)
        text = [line]
        if m.group(2) == b"-":
            for _ in range(200):
                line = self._line()
                text.append(line)
                if line.startswith(code + b" ") or line == code:
                    break
        return int(code), b"\n".join(text).decode("latin-1")[:300]

    def final_reply(self):
        code, text = self.reply()
        for _ in range(5):
            if code >= 200 or code == 0:
                break
            code, text = self.reply()
        return code, text

    def drop_data(self, graceful=False):
        if self.data is not None:
            if graceful:  # the upload must end with a FIN so that the server sees a clean EOF
                PACER.graceful_close()
                try:
                    self.data.close()
                except OSError:
                    pass
            else:
                rst_close(self.data)
            self.data = None

    def command(self, line, split=None):
        """Send one command line (latin-1 str, bytes go out verbatim; optionally in two segments cut at
        `split`) and consume its complete reply sequence."""
        data = line.encode("latin-1") + b"\r\n"
        try:
            if split is not None and 0 < split < len(data):
                self.sock.sendall(data[:split])
                self.sock.sendall(data[split:])
            else:
                self.sock.sendall(data)
        except OSError:
            raise Closed()
        verb = line.split(" ", 1)[0].upper()
        if verb == "PASV":
            self.drop_data()
            code, text = self.reply()
            codes = [code]
            for delay in (0.2, 1.0, 3.0):  # the server could not listen (port range busy): pace and ask again
                if not (code == 550 and "internal server error" in text):
                    break
                PACER._sleep(delay)
                try:
                    self.sock.sendall(b"PASV\r\n")
                except OSError:
                    raise Closed()
                code, text = self.reply()
                codes.append(code)
            m = re.search(r"\((\d+),(\d+),(\d+),(\d+),(\d+),(\d+)\)", text)
            if code == 227 and m:
                try:
                    self.data = connect(int(m.group(5)) * 256 + int(m.group(6)), self.TIMEOUT)
                except OSError as e:
                    raise Stall("cannot connect PASV port: %r" % (e,))
            return codes
        code, text = self.reply()
        codes = [code]
        if verb in TRANSFER and 100 <= code < 200:
            moved = 0
            if self.data is not None:
                try:
                    if verb in ("STOR", "APPE"):
                        self.data.sendall(PAYLOAD)
                        moved = len(PAYLOAD)
                    else:
                        for _ in range(10000):
                            chunk = self.data.recv(65536)
                            if not chunk:
                                break
                            moved += len(chunk)
                except socket.timeout:
                    raise Stall("data connection silent for %ds" % self.TIMEOUT)
                except OSError:
                    pass
                self.drop_data(graceful=verb in ("STOR", "APPE"))
            code, text = self.final_reply()
            codes.append(code)
            self.moved = moved
        elif verb in TRANSFER and code == 226:
            self.drop_data()  # NLST of a missing path: the server closes the data connection
        return codes

    def close(self):
        self.drop_data()
        rst_close(self.sock)


# ---- server subprocess ------------------------------------------------------------------------------
class Server:
    def __init__(self, layout, reactor):
        self.layout = layout
        self.out = os.path.join(layout.top, "server.json")
        self.err = os.path.join(layout.top, "server.err")
        self.token = "t%d" % os.getpid()
        cfg = {"reactor": reactor, "top": layout.top, "selftest_unconfined": bool(os.environ.get("C54_SELFTEST_UNCONFINED")),
               "rw_root": layout.root, "anon_root": layout.real(ROOT_T["anon"]), "out": self.out,
               "cwd": os.path.join(layout.top, "cwd"), "user": USER, "password": PASSWORD,
               "user2": USER2, "password2": PASSWORD2, "sparse_root": layout.real(ROOT_T["sparse"]),
               "user3": USER3, "password3": PASSWORD3, "ghost_root": layout.real(ROOT_T["ghost"]), "token": self.token, "lifetime": 1500}
        script = os.path.join(os.path.dirname(os.path.abspath(__file__)), "c54_server.py")
        self.errf = open(self.err, "wb")
        self.proc = subprocess.Popen([sys.executable, "-B", "-X", "faulthandler", "-W", "ignore", script, json.dumps(cfg)],
                                     stdout=subprocess.PIPE, stderr=self.errf, stdin=subprocess.DEVNULL)
        self.port = self.euid = None
        r, _, _ = select.select([self.proc.stdout], [], [], 60)
        if r:
            line = self.proc.stdout.readline().decode("ascii", "replace")
            if line.startswith("PORT "):
                self.port, self.euid = int(line.split()[1]), int(line.split()[2])
        if self.port is not None and os.geteuid() == 0 and self.euid == 0:
            self.port = None  # never talk to a server that still runs as root
            self.kill()

    def err_tail(self):
        try:
            if not self.errf.closed:
                self.errf.flush()
            with open(self.err, "rb") as f:
                return f.read()[-600:].decode("utf-8", "replace")
        except OSError:
            return ""

    def stop(self):
        """Ask the server to dump its log and exit; returns the log or None."""
        log = None
        try:
            s = connect(self.port, 20)
            s.sendall(("XSTOP " + self.token).encode("ascii") + b"\r\n")
            try:
                while s.recv(4096):
                    pass
            except OSError:
                pass
            rst_close(s)
            self.proc.wait(timeout=30)
            with open(self.out) as f:
                log = json.load(f)
        except (OSError, ValueError, subprocess.TimeoutExpired):
            log = None
        self.kill()
        return log

    def kill(self):
        if self.proc.poll() is None:
            self.proc.kill()
        try:
            self.proc.wait(timeout=20)
        except subprocess.TimeoutExpired:
            pass
        self.proc.stdout.close()
        self.errf.close()


# ---- running and judging ------------------------------------------------------------------------------
class Play:
    """One session being played command by command (so that two sessions can be interleaved)."""

    def __init__(self, ctx, layout, port, sess):
        self.ctx, self.layout, self.sess = ctx, layout, sess
        self.R = layout.real(ROOT_T[sess["user"]])
        self.rec = {"replies": [], "cwd_before": [[]], "attempts": [], "closed_early": False}
        self.cwd, self.authed, self.k, self.done = [], False, 0, False
        self.cl = Client(port)
        try:
            code, _ = self.cl.reply()
            self.rec["replies"].append(["<greeting>", [code]])
            self.cl.command("XSID %d" % sess["case"])
        except Closed:
            self._closed()

    def _closed(self):
        self.rec["closed_early"] = True
        self.ctx.count("sessions_closed_by_server")
        self.done = True

    def step(self):
        """Send the next command; False when the session is over."""
        if self.done or self.k >= len(self.sess["commands"]):
            self.done = True
            return False
        ctx, R, rec = self.ctx, self.R, self.rec
        tline = self.sess["commands"][self.k]
        self.k += 1
        line = self.layout.real(tline)
        # every third command is delivered in two TCP segments, the split offset walking through the line
        split = (self.sess["case"] * 7 + self.k * 3) % (len(line) + 2) if self.k % 3 == 0 else None
        try:
            codes = self.cl.command(line, split)
        except Closed:
            self._closed()
            return False
        if split is not None:
            ctx.count("commands_delivered_split")
        rec["replies"].append([tline[:200], codes])
        rec["cwd_before"].append(list(self.cwd))  # mirror of the virtual cwd when this command was sent
        verb, _, arg = line.partition(" ")
        verb = verb.upper()
        ctx.count("cmd_" + verb)
        ctx.count("reply_%dxx" % (codes[-1] // 100))
        if verb == "MKD" and self.sess["user"] == "ghost":
            ctx.count("mkd_with_root_and_its_parents_missing")
            if vsegs(self.cwd, arg) == []:
                ctx.count("mkd_of_the_missing_root_itself")
        # mirror of the login state / cwd: used for counters (escape attempts) only
        if verb == "PASS" and codes[-1] == 230:
            self.authed, self.cwd = True, []
        elif verb in ("CWD", "CDUP") and codes[-1] == 250:
            seg = vsegs(self.cwd, arg if verb == "CWD" else "..")
            if seg is None:
                ctx.count("cwd_mirror_disagrees")
            else:
                self.cwd = seg
        if verb in RO_VERBS + RW_VERBS + ["RNTO"] and arg:
            a = arg.replace("\0", "")
            lex = posixpath.normpath(R + "/" + a) if a.startswith("/") else posixpath.normpath(posixpath.join(R, *self.cwd, a))
            if not (lex == R or lex.startswith(R + "/")):
                rec["attempts"].append(tline[:120])
                ctx.count("escape_attempt_commands")
                if self.authed:
                    ctx.count("escape_attempts_authenticated")
                if codes[-1] >= 500:
                    ctx.count("escape_attempts_refused_5xx")
                elif 200 <= codes[-1] < 300:
                    ctx.count("escape_attempts_answered_2xx")
        if verb in TRANSFER and len(codes) > 1 and codes[-1] == 226:
            ctx.count("transfers_completed")
            ctx.count("transfer_bytes", getattr(self.cl, "moved", 0))
        return True

    def finish(self):
        if not self.rec["closed_early"]:
            try:
                for _ in range(3):
                    self.cl.reply()
            except Closed:
                pass
        self.cl.close()
        return self.rec


def run_session(ctx, layout, port, sess, other=None):
    """Play one session — or two interleaved ones on the same server (sess["mix"] says whose turn it
    is) — and compare the tree outside the root(s) before/after.  Returns {case: record}; may raise Stall."""
    group = [sess] + ([other] if other else [])
    roots = [layout.real(ROOT_T[x["user"]]) for x in group]
    layout.build_root()
    before = layout.snapshot_outside(roots)
    plays = []
    try:
        plays = [Play(ctx, layout, port, x) for x in group]
        if other is None:
            while plays[0].step():
                pass
        else:
            for turn in sess["mix"]:
                plays[turn].step()
            for pl in plays:
                while pl.step():
                    pass
        recs = {pl.sess["case"]: pl.finish() for pl in plays}
    finally:
        for pl in plays:
            pl.cl.close()
    after = layout.snapshot_outside(roots)
    if after != before:
        diff = sorted(k for k in set(before) | set(after) if before.get(k) != after.get(k))
        recs[sess["case"]]["outside_diff"] = [[layout.templ(k), before.get(k), after.get(k)] for k in diff[:6]]
        layout.build_base()
    return recs


def classify_arg(arg, path, R):
    segs = re.split(r"/", arg)
    if ".." in segs:
        how = "dotdot"
    elif any(count_ups(x) for x in segs):
        how = "decorated-dotdot"  # e.g. '..\xff', '\xc3..', '.\x07.': an ordinary name until something re-decodes it
    elif "\0" in arg:
        how = "nul"
    elif "\\" in arg:
        how = "backslash"
    elif arg.startswith("/"):
        how = "absolute-path"
    elif any(c in arg for c in "*?["):
        how = "glob"
    else:
        how = "other"
    if path.startswith(R) and not path.startswith(R + "/") and path != R:
        how += "+shared-prefix"
    return how


def judge(ctx, layout, sessions, records, log):
    """Attribute the server's ordered log to sessions/commands and apply the oracle."""
    by_case = {s["case"]: s for s in sessions}
    conns = {}  # control connection id -> [session, command number]; shell calls are synchronous inside
    # lineReceived, so a filesystem event belongs to the most recent control line of ANY connection
    cur, cur_line, cur_idx = None, None, 0
    per_case = {}
    system = set(SYSTEM_TARGETS)

    def base(cur):
        w = {"case": cur["case"], "reactor": cur["reactor"], "user": cur["user"], "commands": cur["commands"]}
        other = by_case.get(cur.get("pair", cur.get("pair_of")))
        if other is not None:  # interleaved with another session on the same server: replay needs both
            a, b = (cur, other) if "pair" in cur else (other, cur)
            w.update({"case": a["case"], "user": a["user"], "commands": a["commands"], "mix": a["mix"],
                      "other": {"case": b["case"], "user": b["user"], "commands": b["commands"]},
                      "offending_session": "first" if cur is a else "other (interleaved)"})
        return w

    for ent in log:
        if ent[0] == "L":
            if ent[2].startswith("XSID "):
                conns[ent[1]] = [by_case.get(int(ent[2][5:])), 0]
                cur, cur_line, cur_idx = conns[ent[1]][0], None, 0
                per_case[cur["case"]] = {"inside": 0, "rmdir": 0, "events": []}
            elif ent[1] in conns:
                conns[ent[1]][1] += 1  # records[case]["replies"][n] is this command (index 0 = greeting)
                cur, cur_idx = conns[ent[1]]
                cur_line = ent[2]
            continue
        if ent[0] == "I":  # module imported while serving (after the uid drop): evidence for preload()
            ctx.count("lazy_imports_while_serving")
            ctx.seen("lazy_imports", ent[1])
            continue
        if cur is None:
            ctx.count("events_before_first_session")
            if ent[0] == "E" and ent[4]:
                ctx.violation("guard-blocked-operation-outside-any-session", "the containment guard refused %s before any session" % ent[1],
                              {"event": ent[1], "paths": [layout.templ(x) for x in ent[2]]})
            continue
        R = layout.real(ROOT_T[cur["user"]])
        pc = per_case[cur["case"]]
        if ent[0] == "S":  # os.stat/lstat/access/readlink: no such verb in the statement -> observed, NOT judged
            p = ent[2]
            if len(ent) > 3:
                ctx.count("faults_injected")
            if p == R or p.startswith(R + os.sep):
                ctx.count("stat_probes_inside_root")
            elif (R + os.sep).startswith(p.rstrip("/") + os.sep):
                ctx.count("stat_probes_of_root_ancestors")  # e.g. makedirs after the root itself was removed
            elif p.startswith(layout.top + os.sep) or p in system or p.startswith("/etc/"):
                ctx.count("stat_probes_outside_root_unjudged")
                ctx.seen("stat_probes_outside_root", "%s %s" % ((cur_line or "").split(" ", 1)[0].upper(), layout.templ(p)[-70:]))
            continue
        if ent[0] == "F":
            ctx.count("server_logged_failures")
            ctx.seen("logged_failure_types", ent[1])
            if ent[1].endswith(("ImportError", "ModuleNotFoundError")):
                ctx.inconclusive("the server failed to import a module after dropping to uid %d (extend preload()): %s" % (UNPRIV, ent[2]))
            if ent[1].endswith(".InsecurePath"):
                ctx.violation("insecure-path-reached-filepath-layer",
                              "toSegments passed an escaping path to the shell; only FilePath.child's InsecurePath stopped it "
                              "(logged as an unexpected FTP error)",
                              {**base(cur),
                               "offending_command": layout.templ(cur_line), "command_number": cur_idx,
                               "failure": [layout.templ(x) for x in ent[1:4]], "root": ROOT_T[cur["user"]]})
            continue
        _, event, paths, raw, blocked = ent
        ctx.count("fs_events")
        if isinstance(blocked, str):  # "fault:<errno>": the harness made this call fail
            ctx.count("faults_injected")
            ctx.count("faults_injected_in_" + event)
            blocked = False
        if blocked:
            ctx.count("operations_refused_by_containment_guard")
        if event in GUARD_ONLY_EVENTS:
            ctx.violation("guard-refused-" + event.replace("os.", ""), "the server tried %s (refused by the containment guard)" % event,
                          {**base(cur),
                           "offending_command": layout.templ(cur_line), "event": event, "arguments": raw})
            continue
        if event == "hook-error":
            ctx.inconclusive("audit hook raised: %s" % raw)
            continue
        verb = (cur_line or "").split(" ", 1)[0].upper()
        for p in paths:
            if p == R or p.startswith(R + os.sep):
                pc["inside"] += 1
                ctx.count("fs_events_inside_root")
                ctx.count("ev_" + event)
                ctx.count("ev_by_cmd_%s_%s" % (verb, event))
                if event == "open":
                    ctx.count("opens_inside_root")
                elif event in ("os.listdir", "os.scandir"):
                    ctx.count("listings_inside_root")
                elif event in MUTATING_EVENTS:
                    ctx.count("mutations_inside_root")
                    if event == "os.rmdir":
                        pc["rmdir"] += 1
                        if cur["user"] == "sparse":
                            ctx.count("rmdir_in_sparse_home" + ("_of_the_root_itself" if p == R else ""))
                if len(pc["events"]) < 12:
                    pc["events"].append([layout.templ(cur_line or "")[:80], event, layout.templ(p)[-60:]])
            elif (blocked or p == layout.top or p.startswith(layout.top + os.sep) or p in system or p.startswith("/etc/")
                  or not p.endswith(INTERPRETER_READS)):
                arg = (cur_line or "").partition(" ")[2]
                how = classify_arg(arg, p, R)
                where = "scratch" if (p + os.sep).startswith(layout.top + os.sep) else "system-path"
                key = "outside-root-%s-via-%s" % (event.replace("os.", ""), how) + ("" if where == "scratch" else "-system-path")
                before = records.get(cur["case"], {}).get("cwd_before", [])
                if (event == "os.mkdir" and verb == "MKD" and (R + os.sep).startswith(p + os.sep) and cur_idx < len(before)
                        and vsegs(before[cur_idx], arg) is not None):
                    # The argument is a legitimate path (the root or below, by the resolution rules) and the
                    # mkdir hits a strict ancestor of the root: os.makedirs walking above a missing root /
                    # a parent it could not stat.  findings/C54-mkd-creates-missing-ancestors-of-root.md
                    key = "mkd-creates-missing-ancestors-of-root"
                ctx.violation(key,
                              "FTP server performed %s on a path outside the shell root while processing %s" % (event, verb),
                              {**base(cur),
                               "offending_command": layout.templ(cur_line), "event": event, "path": layout.templ(p),
                               "raw_argument": [layout.templ(x) for x in raw], "root": ROOT_T[cur["user"]],
                               "expected": "every audited path is the root or inside root + '/'",
                               "operation_refused_by_containment_guard": bool(blocked),
                               "command_number": cur_idx,
                               "replies_around": records.get(cur["case"], {}).get("replies", [])[max(0, cur_idx - 4):cur_idx + 2]})
            else:
                ctx.count("fs_events_elsewhere")
                ctx.seen("elsewhere_paths", p[:100])
    for s in sessions:
        rec = records.get(s["case"])
        if rec is None:
            continue
        pc = per_case.get(s["case"])
        if pc is None:
            ctx.inconclusive("session %d never appeared in the server log" % s["case"])
            continue
        ctx.evaluated()
        ctx.count("sessions")
        ctx.count("sessions_" + s["reactor"])
        ctx.count("sessions_" + s["user"])
        if "pair" in s or "pair_of" in s:
            ctx.count("sessions_interleaved_with_another")
        if "outside_diff" in rec:
            ctx.violation("outside-tree-modified", "the tree outside the shell root changed during an FTP session",
                          {**base(s), "root": ROOT_T[s["user"]], "changed(before,after)": rec["outside_diff"],
                           "replies": rec["replies"][-10:]})
        if (rec["attempts"] and pc["inside"] > 0) or (s["user"] == "sparse" and pc["rmdir"] > 0) or (s["user"] == "ghost" and pc["inside"] > 0):
            ctx.distinct(tuple(s["commands"]))
        ctx.sample({"case": s["case"], "reactor": s["reactor"], "user": s["user"], "commands": s["commands"][:14],
                    "replies": rec["replies"][:14], "escape_attempts": len(rec["attempts"]),
                    "fs_events_inside_root": pc["inside"], "first_events": pc["events"]}, limit=3)


def run_batch(ctx, reactor, sessions):
    """One server subprocess serving `sessions` sequentially; judged after it stops."""
    layout = Layout()
    srv = None
    try:
        for delay in (0, 3, 10):  # a server that cannot start (ports busy, loaded box) gets two more chances
            if delay:
                ctx.count("server_start_retries")
                PACER._sleep(delay)
            srv = Server(layout, reactor)
            if srv.port is not None or srv.proc.poll() == EXIT_CANNOT_DROP or srv.euid == 0:
                break
            srv.kill()
        if srv.port is None:
            why = "could not drop privileges (exit %d)" % EXIT_CANNOT_DROP if srv.proc.poll() == EXIT_CANNOT_DROP else \
                "still euid 0" if srv.euid == 0 else "did not start after 3 attempts (exit %s)" % srv.proc.poll()
            ctx.inconclusive("%s server %s: %s" % (reactor, why, srv.err_tail()))
            srv.kill()
            return
        ctx.seen("reactors", reactor)
        records = {}
        partners = {s["pair_of"]: s for s in sessions if "pair_of" in s}
        for s in sessions:
            if "pair_of" in s:
                continue  # played together with its partner
            PACER.between_sessions()
            try:
                records.update(run_session(ctx, layout, srv.port, s, partners.get(s["case"])))
            except (Stall, OSError) as e:
                ctx.inconclusive("watchdog: client stalled in case %d on %s (%r): %s" % (s["case"], reactor, e, srv.err_tail()[-300:]))
                break
        log = srv.stop()
        if log is None:
            ctx.inconclusive("watchdog: %s server did not deliver its event log: %s" % (reactor, srv.err_tail()))
            return
        ctx.seen("reactor_classes", log["reactor"])
        ctx.seen("server_uid_euid_egid_groups", "%s/%s/%s/%s" % (log["uid"], log["euid"], log["egid"], log["groups"]))
        if os.geteuid() == 0 and 0 in (log["uid"], log["euid"], log["egid"]):
            ctx.inconclusive("the server reported root ids after the drop: %r" % ([log["uid"], log["euid"], log["egid"]],))
        judge(ctx, layout, sessions, records, log["log"])
    finally:
        if srv is not None:
            srv.kill()
        layout.remove()


def run(ctx):
    global PACER
    PACER = Pacer(ctx.nshards)
    groups = {}
    for i in ctx.cases(300, 14000):  # + 1/7 interleaved partners (16 000 sessions); DESIGN asked 30 k, sessions are ~2.5x longer since the depth extension
        s = gen_session(ctx.case_rng(i), i, ctx.nshards)
        groups.setdefault(s["reactor"], []).append(s)
        if i % 7 == 3:  # a second session interleaved with this one on the same server
            o = gen_session(ctx.case_rng(i, "other"), PAIR_OFFSET + i, ctx.nshards)
            o["reactor"], o["pair_of"] = s["reactor"], i
            mix = ctx.case_rng(i, "mix")
            s["pair"], s["mix"] = o["case"], [mix.randrange(2) for _ in range(len(s["commands"]) + len(o["commands"]))]
            groups[s["reactor"]].append(o)
    for reactor in REACTORS:
        todo = groups.get(reactor, [])
        batch = []
        for s in todo + [None]:
            if batch and (s is None or (len(batch) >= 400 and "pair_of" not in s)):
                run_batch(ctx, reactor, batch)
                batch = []
            batch.append(s)
    ctx.count("pacing_sleep_ms", int(PACER.slept * 1000))  # evidence only: time spent keeping the port range usable


def replay(ctx, w):
    x = w["witness"]
    s = {"case": x.get("case", 0), "user": x["user"], "reactor": x["reactor"], "commands": x["commands"]}
    group = [s]
    if "other" in x:
        o = dict(x["other"], reactor=x["reactor"], pair_of=s["case"])
        s["pair"], s["mix"] = o["case"], x["mix"]
        group.append(o)
    run_batch(ctx, s["reactor"], group)
