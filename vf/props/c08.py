"""C08 Reactor timed calls run once, on time, in time order.

Monitored objects: a minimal ReactorBase subclass (controlled `seconds`, no-op waker/doIteration)
and real SelectReactor / PollReactor / EPollReactor *instances* (never installed globally) whose
`seconds` is overridden per instance; one step = advance the controlled clock + `iterate(0)`.

Oracle (vf/engines/timermodel.py): a reference timer set keyed by call id that holds the currently
scheduled time (getTime() semantics) in exact 1/16 s ticks.  Checked relationally:
  * a call runs exactly once iff not cancelled first, never before its scheduled time, only inside
    an iteration, never in the iteration that created it;
  * when X runs no other *eligible* pending call (created before this iteration) is scheduled
    strictly earlier (ties are unordered);
  * at the end of an iteration no eligible pending call with scheduled time <= now remains;
  * getDelayedCalls() == the model's pending set after every operation (also from inside calls),
    getTime() of each == model time; cancel/reset/delay raise AlreadyCalled/AlreadyCancelled exactly
    when the model says so;
  * timeout() (top level only) is not None when something is pending and <= max(0, earliest - now).
Timed calls may raise (body operation ["raise"]): iterate() must not let the exception escape and every
other check keeps applying to the remaining calls of that iteration (that the failure is *logged* is
outside the statement: counted, not judged; any other logged failure is a violation).
False-alarm guards: ties unordered; a negative delay() may move a call created in this iteration
before running ones -> ordering is evaluated over eligible calls only; timeout() may be smaller than
necessary or non-None with nothing pending (cancelled heap top) -> only the upper bound is checked;
timeout() is never called from inside a running call (it would legitimately stage new calls into
the heap).  Auxiliary hooked-state monitor (DESIGN): after every iteration `_pendingTimedCalls`
satisfies the heap property on `.time` (skipped if the attribute does not exist).  DESIGN's second
hooked invariant (`_cancellations` == number of cancelled entries) is NOT asserted: it is
legitimately off by one after a compaction that leaves a cancelled call in the staging list.
"""
from vf.engines import explore, timermodel as tm

LEVEL = "exploration"
ENGINE = "E1-explore"
TECHNIQUE = "runtime monitoring: reference timer-set model (exact rational times), relational order/once/on-time checks"
RULE = ("random histories (families generic / in-call bodies / >50-cancellation bursts forcing heap compaction, with calls that "
        "schedule-and-cancel new calls from inside the compacting iteration and lone callLater().cancel() pairs afterwards) of up to "
        "~260 operations over <= 60 (burst: 90) calls with dyadic times, run on a minimal ReactorBase subclass and on real "
        "Select/Poll/EPoll reactor instances; plus exhaustive histories (quick depth 4, thorough depth 5) over 3 calls, "
        "delays {0,1,2}, advances {0,1,2} with in-call bodies.  Distinct = (target kind, history); non-trivial = at least "
        "one call ran and at least one cancel/reset/delay took effect or a call was scheduled from inside a call.  "
        "Timed calls raise in a share of the histories (0/10/30 % of the bodies); the raising bodies join the exhaustive "
        "enumeration in the thorough tier only.")
ASSUMPTIONS = ["trusted base: the ~60-line reference timer set in vf/engines/timermodel.py",
               "all times are multiples of 1/16 s so the implementation's float arithmetic is exact",
               "real reactor instances are driven with iterate(0) and a per-instance `seconds`; no I/O is registered"]
SHARDS = {"quick": 4, "thorough": 16}
FLOORS = {"run_checks": 2000, "pending_checks": 10000, "timeout_bounded": 500, "end_of_step_checks": 2000,
          "eff_cancel": 500, "eff_reset": 200, "eff_delay": 200, "eff_negative_delay": 50, "op_call_in": 200,
          "refused_AlreadyCalled": 50, "refused_AlreadyCancelled": 50, "compactions": 20, "compactions_with_cancelled_call_in_staging": 20, "ties_at_run": 100,
          "heap_checks": 2000, "explore_states": 500, "raised_calls": 500,
          "raised_calls_logged": 500}
READY = True

KINDS = ["mini", "mini", "mini", "mini", "mini", "select", "poll", "epoll"]


def make_target(kind):
    from twisted.internet.base import ReactorBase

    if kind == "mini":
        class MiniReactor(ReactorBase):
            def installWaker(self):
                pass

            def doIteration(self, delay):
                pass

        return tm.ReactorTarget(MiniReactor(), "mini ReactorBase subclass")
    if kind == "select":
        from twisted.internet.selectreactor import SelectReactor as R
    elif kind == "poll":
        from twisted.internet.pollreactor import PollReactor as R
    else:
        from twisted.internet.epollreactor import EPollReactor as R
    return tm.ReactorTarget(R(), R.__name__)


class Run(tm.TimerRun):
    """Adds the hooked heap-property monitor and the compaction counter to the shared driver."""

    def step(self, a, chk=False):
        r = self.t.r
        c0 = getattr(r, "_cancellations", None)
        staged0 = self.stats.get("eff_cancel_of_call_created_in_this_run", 0)
        tm.TimerRun.step(self, a, chk)
        heap = getattr(r, "_pendingTimedCalls", None)
        if c0 is not None and c0 > 50 and getattr(r, "_cancellations", None) == 0:
            self.stat("compactions")
            if self.stats.get("eff_cancel_of_call_created_in_this_run", 0) > staged0:
                self.stat("compactions_with_cancelled_call_in_staging")
        if heap is None or self.bad:
            return
        try:
            for i in range(1, len(heap)):
                if heap[i].time < heap[(i - 1) // 2].time:
                    self.fail("internal-heap-property", "_pendingTimedCalls is not a heap on .time after runUntilCurrent",
                              index=i, times=[c.time for c in heap][:80])
                    return
        except AttributeError:
            return
        self.stat("heap_checks")


CAP = [None]  # the LogCapture of the current shard (failures logged by the reactor are monitor events)


def scan_log(ctx, run):
    """Raising timed calls are logged by the reactor; anything else that is logged is a violation.
    (That every raise is logged is not part of the statement: counted as raised_calls_logged, unjudged.)"""
    cap = CAP[0]
    if cap is None or not cap.events:
        return
    for e in cap.events:
        f = e.get("log_failure")
        if f is None:
            continue
        if f.check(tm.Boom):
            ctx.count("raised_calls_logged")
        else:
            run.fail("logged-failure", "the reactor logged an unexpected failure: %s: %s"
                     % (getattr(f.type, "__name__", "?"), f.getErrorMessage()[:200]))
    del cap.events[:]


def run_history(ctx, kind, history, max_calls):
    t = make_target(kind)
    try:
        run = Run(ctx, t, max_calls)
        run.run(history)
    finally:
        t.dispose()
    scan_log(ctx, run)
    run.flush()
    ctx.evaluated()
    ctx.seen("reactor_types", t.label)
    if run.nontrivial():
        ctx.distinct((kind, repr(history)))
    return run


# ---- exhaustive short histories (E1) ----------------------------------------------------------------
BODIES = [[], [["cancel", ["a", 1]]], [["reset", ["a", 0], 0]], [["delay", ["a", 2], -2 * tm.U]], [["call", 0, []]],
          [["reset", "self", tm.U]], [["call", 0, []], ["raise"]]]


class World:
    def __init__(self, ctx):
        self.t = make_target("mini")
        self.run = Run(ctx, self.t, 3, history=[])
        self.nbodies = len(BODIES) - (1 if ctx.quick else 0)  # the raising body is enumerated in the thorough tier only

    def actions(self):
        n = len(self.run.recs)
        acts = [("adv", a, True) for a in (0, 1, 2)]
        if n < 3:
            acts += [("call", d, b) for d in (0, 1, 2) for b in range(self.nbodies)]
        for i in range(n):
            acts.append(("cancel", i))
            acts += [("reset", i, d) for d in (0, 2)]
            acts += [("delay", i, d) for d in (1, -1)]
        return acts

    def apply(self, a):
        if a[0] == "call":
            op = ["call", a[1] * tm.U, BODIES[a[2]]]
        elif a[0] == "adv":
            op = ["adv", a[1] * tm.U, a[2]]
        elif a[0] == "cancel":
            op = ["cancel", ["a", a[1]]]
        else:
            op = [a[0], ["a", a[1]], a[2] * tm.U]
        self.run.history.append(op)
        self.run.exec_op(op)

    def state(self):
        ids = {id(r.dc): r.cid for r in self.run.recs}
        s = self.t.struct()
        if s is not None:
            s = tuple(tuple((ids.get(e[0]),) + e[1:] for e in part) for part in s)
        return (self.run.model_state(), s, getattr(self.t.r, "_cancellations", None), self.run.bad)

    def finish(self):
        pass


def explore_short(ctx):
    depth = 4 if ctx.quick else 5

    def on_node(w, hist):
        ctx.evaluated()
        scan_log(ctx, w.run)
        w.run.flush()
        if w.run.nontrivial():
            if ctx.n_distinct < 30000:  # bound shard-report size; the rest is only counted
                ctx.distinct(("mini-exh", repr(w.run.history)))
            else:
                ctx.count("exhaustive_nontrivial_not_hashed")

    explore.dfs(ctx, lambda: World(ctx), depth, shard_depth=2, on_node=on_node, prune=ctx.quick)


def run(ctx):
    from vf.engines.logcap import LogCapture

    with LogCapture() as cap:
        CAP[0] = cap
        try:
            _run(ctx)
        finally:
            CAP[0] = None


def _run(ctx):
    explore_short(ctx)
    for i in ctx.cases(3000, 300000):
        rng = ctx.case_rng("hist", i)
        kind = KINDS[i % len(KINDS)]
        history, max_calls = tm.gen_history(rng)
        r = run_history(ctx, kind, history, max_calls)
        if i < 2 * ctx.nshards:
            ctx.sample({"target": kind, "history_len": len(history), "history_head": history[:12], "events_head": r.events[:25],
                        "stats": r.stats})


def replay(ctx, w):
    x = w["witness"]
    label = x.get("target", "mini")
    kind = {"SelectReactor": "select", "PollReactor": "poll", "EPollReactor": "epoll"}.get(label, "mini")
    run_history(ctx, kind, x["history"], x.get("max_calls", 60))
