"""C04 DeferredList, gatherResults and race fire once with correctly ordered results.

Monitor (API boundary): a recorder callback on the aggregate (how often it fired, with what, and
after which harness step), a recorder added to every input AFTER the aggregate was built (what
later callbacks see), cancel() calls per input (a Deferred subclass overriding the public cancel()).
Values and exceptions carry unique ids.

Oracle: direct specification functions over the *timeline* of input completions (index, ok, token):
  DeferredList   -> [(ok, value)] in input order at the n-th completion; with fireOnOneCallback
                    (value, index) at the first success; with fireOnOneErrback FirstError(failure,
                    index) at the first failure; consumeErrors -> later callbacks of a failed input
                    see None, otherwise the untouched result;
  gatherResults  -> values in input order at the n-th completion, or the first failure;
  race           -> (index, value) of the first success and cancel() reached every other input that
                    was still unfired (and not the winner); FailureGroup with the failures in input
                    order when all fail;
  cancel of an unfired aggregate -> cancel() reaches every unfired input.
The timeline is what the harness did: its own firings, plus - when a cancellation is due - the
cancelled inputs completing in index order with what their canceller produces (CancelledError, a
success, or a failure).  The aggregate must have fired exactly when the spec says (checked after
every harness step) and exactly once at the end.

Input cancellers: none / do nothing (-> CancelledError), fire a success, fire a failure, RAISE (the
input stays un-fired; the aggregate must carry on with the other inputs and nothing may come out of
aggregate.cancel() - DeferredList documents "log and continue", the log event is counted), or fire
ANOTHER un-fired input re-entrantly (that input completes first, inside the cancellation).  A race
that is cancelled while an input survives its cancellation fires with CancelledError (it is itself a
cancelled Deferred without a result).

Guards: empty lists are not generated; inputs that were already fired when the aggregate was
built are a tie - any of them may count as "first" (the code takes the lowest index); cancel() of
an already fired input is not required (it is a no-op); for race what later callbacks on the inputs
see is not judged (the statement is silent); gatherResults may deliver the first failure wrapped in
FirstError (index then checked) or bare.
"""
import itertools

LEVEL = "exploration"
ENGINE = "core"
TECHNIQUE = "runtime monitoring: specification functions over the completion timeline, checked after every firing step"
RULE = ("exhaustive: every (kind, n, success/failure assignment, pre-fired subset, firing permutation of the "
        "rest) for n = 1..5 (quick) / 1..6 (thorough) and the 11 kinds (DeferredList x 8 flag combinations, "
        "gatherResults x consumeErrors, race); for n <= 4 (quick) / 5 (thorough) each also with cancel() of the "
        "aggregate injected before every "
        "firing step and after the last, for 5 input-canceller behaviours (none -> CancelledError, canceller "
        "fires a success, fires a failure, raises, fires another un-fired input re-entrantly); race additionally "
        "for each canceller behaviour without injected cancellation.  Random: n <= 16 with per-input canceller behaviours and up to two cancellations. "
        "A case is distinct by its full description; non-trivial = n >= 2.")
ASSUMPTIONS = ["trusted base: the specification functions spec_dl/spec_gather/spec_race in this module",
               "cancel() calls are observed by a Deferred subclass overriding the public cancel()"]
SHARDS = {"quick": 4, "thorough": 16}
FLOORS = {"aggregate_firings_checked": 5000, "step_checks": 20000, "later_callback_checks": 5000,
          "consumed_errors_seen_as_none": 500, "first_error_results": 500, "fire_on_one_callback_results": 500,
          "race_winner_results": 200, "race_failure_groups": 50, "race_stragglers_cancelled": 200,
          "aggregate_cancellations_propagated": 1000, "canceller_success_after_decided": 50, "prefired_tie_cases": 50,
          "raising_cancellers_invoked": 2000, "canceller_exceptions_logged_by_deferredlist": 1000,
          "cancellers_firing_another_input": 2000}
READY = True

DL_KINDS = [("dl", foc, foe, ce) for foc in (0, 1) for foe in (0, 1) for ce in (0, 1)]
KINDS = DL_KINDS + [("gather", 0, 1, 0), ("gather", 0, 1, 1), ("race", 0, 0, 0)]
CMODES = ("default", "succ", "fail", "raise", "fireother", "noop")
RACE_CANCELLER_RAISES = "race-input-canceller-exception-aborts-race"
_T = {}
DISTINCT_CAP = 40000   # per shard: keeps the merged hash set small


def _tw():
    if not _T:
        from twisted.internet import defer
        from twisted.python.failure import Failure

        class In(defer.Deferred):
            cancel_calls = 0

            def cancel(self):
                self.cancel_calls += 1
                defer.Deferred.cancel(self)

        _T.update(defer=defer, Failure=Failure, In=In)
    return _T


class Boom(Exception):
    def __init__(self, tag):
        Exception.__init__(self, tag)
        self.tag = tag


# ---- specification ------------------------------------------------------------------------------
def spec_dl(tl, n, foc, foe):
    """-> (number of completions after which it fires, result token) or None."""
    for k, (i, ok, tok) in enumerate(tl):
        if ok and foc:
            return k + 1, ("single", tok, i)
        if not ok and foe:
            return k + 1, ("firsterror", tok, i)
        if k + 1 == n:
            return n, ("list", [(o, t) for (_, o, t) in sorted(tl)])
    return None


def spec_gather(tl, n):
    for k, (i, ok, tok) in enumerate(tl):
        if not ok:
            return k + 1, ("firsterror", tok, i)
        if k + 1 == n:
            return n, ("values", [t for (_, _, t) in sorted(tl)])
    return None


def spec_race(tl, n):
    for k, (i, ok, tok) in enumerate(tl):
        if ok:
            return k + 1, ("winner", i, tok)
        if k + 1 == n:
            return n, ("group", [t for (_, _, t) in sorted(tl)])
    return None


def spec(kind, tl, n):
    if kind[0] == "dl":
        return spec_dl(tl, n, kind[1], kind[2])
    if kind[0] == "gather":
        return spec_gather(tl, n)
    return spec_race(tl, n)


def acceptable(kind, tl, n, nprefix):
    """Set of acceptable results: a decision taken among the pre-fired prefix is a tie."""
    s = spec(kind, tl, n)
    if s is None:
        return None, []
    k, res = s
    if k > nprefix or res[0] in ("list", "values", "group"):
        return k, [res]
    out = []
    for (i, ok, tok) in tl[:nprefix]:
        if kind[0] == "dl":
            if ok and kind[1]:
                out.append(("single", tok, i))
            if not ok and kind[2]:
                out.append(("firsterror", tok, i))
        elif kind[0] == "gather":
            if not ok:
                out.append(("firsterror", tok, i))
        elif ok:
            out.append(("winner", i, tok))
    return k, out


# ---- one case -------------------------------------------------------------------------------------
def cancel_outcome(mode, i):
    if mode == "succ":
        return (True, ("cv", i))
    if mode == "fail":
        return (False, ("cE", i))
    return (False, "CANCELLED")


class Case:
    """case = {kind, n, ok:[bool], pre:[idx], order:[idx], cancel_at:[step,...], cmodes:[mode]}"""

    def __init__(self, ctx, case):
        self.ctx, self.case = ctx, case
        self.kind = tuple(case["kind"])
        self.n = case["n"]
        self.bad = False

    def violation(self, key, what, **extra):
        if self.bad:
            return
        self.bad = True
        w = {"case": self.case, "timeline": list(self.tl), "aggregate_firings": list(self.agg_seen),
             "later_callbacks_saw": {str(k): v for k, v in self.later.items()}, "cancel_calls": [d.cancel_calls for d in self.ds]}
        w.update(extra)
        self.ctx.violation(key, what, w)

    def token(self, x):
        """Normalise a real result to a comparable token."""
        F = _tw()["Failure"]
        defer = _tw()["defer"]
        if isinstance(x, F):
            v = x.value
            if isinstance(v, defer.CancelledError):
                return "CANCELLED"
            if isinstance(v, Boom):
                return v.tag if self.excs.get(v.tag) is v else ("foreign-boom", v.tag)
            if isinstance(v, defer.FirstError):
                return ("firsterror", self.token(v.subFailure), v.index)
            if isinstance(v, defer.FailureGroup):
                return ("group", [self.token(f) for f in v.failures])
            return ("exc", type(v).__name__, str(v)[:60])
        if x is None:
            return "NONE"
        if isinstance(x, list):
            return [self.token(e) for e in x]
        if isinstance(x, tuple) and len(x) == 2 and isinstance(x[0], bool):
            return (x[0], self.token(x[1]))
        return x

    def agg_token(self, x):
        F = _tw()["Failure"]
        k = self.kind[0]
        t = self.token(x)
        if isinstance(x, F):
            if isinstance(t, tuple) and t and t[0] in ("firsterror", "group"):
                return t
            if k == "gather":   # bare first failure is acceptable for gatherResults
                return ("barefailure", t)
            return ("failure", t)
        if k == "dl":
            if isinstance(x, list):
                return ("list", t)
            if isinstance(x, tuple) and len(x) == 2:
                return ("single", self.token(x[0]), x[1])
        elif k == "gather":
            if isinstance(x, list):
                return ("values", t)
        elif isinstance(x, tuple) and len(x) == 2:
            return ("winner", x[0], self.token(x[1]))
        return ("other", repr(x)[:80])

    # -- model bookkeeping: a completion enters the timeline
    def complete(self, i, ok, tok):
        self.done[i] = (ok, tok)
        self.tl.append((i, ok, tok))
        if self.kind[0] == "race" and ok and self.winner_decided is False:
            self.winner_decided = True
            for j in range(self.n):
                if j != i and self.done[j] is None:
                    self.must_cancel.add(j)
                    self.ctx.count("race_stragglers_cancelled")
                    if self.case["cmodes"][j] == "succ":
                        self.ctx.count("canceller_success_after_decided")
                    self.cancel_input(j)

    def cancel_input(self, j):
        """Model of cancel() on the un-fired input j: what its canceller does, then CancelledError if still un-fired."""
        mode = self.case["cmodes"][j]
        first = j not in self.canceller_ran
        self.canceller_ran.add(j)
        if mode == "raise":
            # the canceller raises: the input stays un-fired (Deferred.cancel lets the exception out); the
            # aggregate has to carry on with the others, as DeferredList.cancel documents ("log and continue")
            self.cancellers_raised.add(j)
            self.ctx.count("raising_cancellers_invoked")
            return
        if mode == "fireother" and first:
            # the canceller fires ANOTHER input (the lowest un-fired one) re-entrantly and leaves its own alone
            others = [m for m in range(self.n) if m != j and self.done[m] is None]
            if others:
                m = others[0]
                self.ctx.count("cancellers_firing_another_input")
                self.complete(m, self.case["ok"][m], ("v", m) if self.case["ok"][m] else ("E", m))
            if self.done[j] is not None:      # the cascade (race winner rule) already cancelled j itself
                return
            return self.complete(j, False, "CANCELLED")
        ok2, tok2 = cancel_outcome(mode if mode != "fireother" else "default", j)
        self.complete(j, ok2, tok2)

    def run(self):
        tw = _tw()
        defer, In = tw["defer"], tw["In"]
        ctx, case, n, kind = self.ctx, self.case, self.n, self.kind
        self.excs = {}
        self.tl = []
        self.done = [None] * n
        self.winner_decided = False
        self.must_cancel = set()
        self.canceller_ran = set()
        self.forced = None
        self.cancellers_raised = set()
        real_ran = set()
        self.agg_seen = []
        self.later = {i: [] for i in range(n)}
        self.ds = []
        self.step = 0
        for i in range(n):
            mode = case["cmodes"][i]
            if mode == "default":
                d = In()
            elif mode == "noop":
                d = In(lambda d: None)
            elif mode == "succ":
                d = In(lambda d, i=i: d.callback(("cv", i)))
            elif mode == "fail":
                d = In(lambda d, i=i: d.errback(self.exc(("cE", i))))
            elif mode == "raise":
                d = In(lambda d, i=i: self.raise_(Boom(("canceller-raised", i))))
            else:
                def fire_other(d, i=i):
                    if i in real_ran:
                        return
                    real_ran.add(i)
                    others = [m for m in range(n) if m != i and not self.ds[m].called]
                    if others:
                        self.fire_real(others[0])
                d = In(fire_other)
            self.ds.append(d)
        pre = list(case["pre"])
        for i in pre:
            self.fire_real(i)
        # model: pre-fired inputs complete first, in index order (ties, see acceptable())
        for i in pre:
            self.done[i] = "prefired"
        for i in sorted(pre):
            self.complete(i, case["ok"][i], ("v", i) if case["ok"][i] else ("E", i))
        nprefix = len(pre)
        # build the aggregate
        try:
            if kind[0] == "dl":
                agg = defer.DeferredList(list(self.ds), fireOnOneCallback=bool(kind[1]), fireOnOneErrback=bool(kind[2]), consumeErrors=bool(kind[3]))
            elif kind[0] == "gather":
                agg = defer.gatherResults(list(self.ds), consumeErrors=bool(kind[3]))
            else:
                agg = defer.race(list(self.ds))
        except BaseException as e:  # noqa
            self.tl_prefix = nprefix
            return self.violation("aggregate-constructor-raised", "building the aggregate raised", error=repr(e)[:200])
        agg.addBoth(lambda r: self.agg_seen.append((self.step, self.agg_token(r))))
        for i in range(n):
            self.ds[i].addBoth(lambda r, i=i: self.later[i].append(self.token(r)))
        self.check_step(nprefix, "after construction")
        cancels = list(case["cancel_at"])
        for pos in range(len(case["order"]) + 1):
            while cancels and cancels[0] == pos and not self.bad:
                cancels.pop(0)
                self.step += 1
                self.do_cancel(agg, nprefix)
            if self.bad or pos == len(case["order"]):
                break
            i = case["order"][pos]
            self.step += 1
            if self.done[i] is not None:
                ctx.count("scheduled_firings_skipped_already_cancelled")
                continue
            self.complete(i, case["ok"][i], ("v", i) if case["ok"][i] else ("E", i))
            try:
                self.fire_real(i)
            except BaseException as e:  # noqa
                return self.violation("input-could-not-be-fired", "firing a not-yet-completed input raised", input=i, error=repr(e)[:200])
            self.check_step(nprefix, "after firing input %d" % i)
        if self.bad:
            return
        self.final_checks(nprefix)

    def exc(self, tag):
        e = self.excs[tag] = Boom(tag)
        return e

    def raise_(self, e):
        raise e

    def fire_real(self, i):
        if self.case["ok"][i]:
            self.ds[i].callback(("v", i))
        else:
            self.ds[i].errback(self.exc(("E", i)))

    def do_cancel(self, agg, nprefix):
        ctx = self.ctx
        decided = self.forced is not None or spec(self.kind, self.tl, self.n) is not None
        before = [d.cancel_calls for d in self.ds]
        unfired = [j for j in range(self.n) if self.done[j] is None]
        if not decided:
            for j in unfired:
                if self.done[j] is None:   # (may have been completed by a nested rule: race winner, canceller firing it)
                    self.cancel_input(j)
            if self.kind[0] == "race" and spec(self.kind, self.tl, self.n) is None:
                # an input survived its cancellation (canceller raised): race's own Deferred, being cancelled
                # without a result, fires with CancelledError like any cancelled Deferred
                self.forced = (len(self.tl), [("failure", "CANCELLED")])
        try:
            agg.cancel()
        except BaseException as e:  # noqa
            key = "aggregate-cancel-raised"
            if self.kind[0] == "race" and self.cancellers_raised and isinstance(e, Boom) and e.tag[0] == "canceller-raised":
                key = RACE_CANCELLER_RAISES
            return self.violation(key, "cancel() of the aggregate raised", error=repr(e)[:200])
        if not decided:
            missed = [j for j in unfired if self.ds[j].cancel_calls == before[j]]
            if missed:
                return self.violation("aggregate-cancel-not-propagated", "cancelling the unfired aggregate did not cancel every unfired input", not_cancelled=missed)
            ctx.count("aggregate_cancellations_propagated")
        else:
            ctx.count("cancel_of_fired_aggregate")
            touched = [j for j in unfired if self.ds[j].cancel_calls != before[j] and j not in self.must_cancel]
            if touched:
                return self.violation("fired-aggregate-cancel-reached-inputs", "cancel() of an already fired aggregate cancelled inputs", inputs=touched)
        self.check_step(nprefix, "after cancelling the aggregate")

    def check_step(self, nprefix, when):
        """The aggregate has fired iff the spec says so for the timeline so far; value acceptable."""
        if self.bad:
            return
        ctx = self.ctx
        ctx.count("step_checks")
        k, acc = self.forced or acceptable(self.kind, self.tl, self.n, nprefix)
        name = {"dl": "deferredlist", "gather": "gatherresults", "race": "race"}[self.kind[0]]
        if k is None:
            if self.agg_seen:
                self.violation("%s-fired-early" % name, "the aggregate fired before the specification allows (%s)" % when, expected="not fired yet")
            return
        if not self.agg_seen:
            if self.kind[0] == "race" and self.cancellers_raised:
                # causal signature: an input's canceller raised while race was cancelling the losers
                return self.violation(RACE_CANCELLER_RAISES, "race did not fire after an input's canceller raised while the losers were being cancelled (%s)" % when,
                                      expected=acc, raising_cancellers=sorted(self.cancellers_raised))
            return self.violation("%s-not-fired-when-due" % name, "the aggregate has not fired although the specification says it has (%s)" % when, expected=acc)
        if len(self.agg_seen) > 1:
            return self.violation("%s-fired-more-than-once" % name, "the aggregate's callbacks ran more than once", expected=acc)
        got = self.agg_seen[0][1]
        if got[0] == "barefailure":
            ok = any(a[0] == "firsterror" and a[1] == got[1] for a in acc)
        else:
            ok = got in acc
        if not ok:
            return self.violation(self.classify_result(got, acc, name), "aggregate result differs from the specification (%s)" % when, expected=acc, observed=got)
        # race: stragglers cancelled, winner left alone
        if self.kind[0] == "race" and got[0] == "winner":
            missed = [j for j in sorted(self.must_cancel) if self.ds[j].cancel_calls == 0]
            if missed:
                return self.violation("race-straggler-not-cancelled", "race did not cancel an unfired loser after the first success", not_cancelled=missed)
            if not self.case["cancel_at"] and self.ds[got[1]].cancel_calls:
                return self.violation("race-cancelled-the-winner", "race called cancel() on the winning input", winner=got[1])

    def classify_result(self, got, acc, name):
        exp = acc[0] if acc else ("nothing",)
        if got[0] == exp[0] == "list":
            if sorted(map(repr, got[1])) == sorted(map(repr, exp[1])):
                return "deferredlist-results-at-wrong-index"
            return "deferredlist-result-list-mismatch"
        if got[0] == exp[0] == "values":
            return "gatherresults-values-out-of-input-order" if sorted(map(repr, got[1])) == sorted(map(repr, exp[1])) else "gatherresults-values-mismatch"
        if got[0] == exp[0] == "single":
            return "fire-on-one-callback-wrong-index-or-value"
        if got[0] == exp[0] == "firsterror":
            return "first-error-wrong-index-or-failure"
        if got[0] == exp[0] == "winner":
            return "race-wrong-winner-index-or-value"
        if got[0] == exp[0] == "group":
            return "race-failure-group-order-or-content"
        return "%s-result-of-wrong-shape" % name

    def final_checks(self, nprefix):
        ctx = self.ctx
        if len(self.tl) != self.n:
            return self.violation("harness-inconsistency", "timeline incomplete", n=self.n)
        self.check_step(nprefix, "at the end")
        if self.bad:
            return
        ctx.count("aggregate_firings_checked")
        got = self.agg_seen[0][1]
        ctx.count({"single": "fire_on_one_callback_results", "firsterror": "first_error_results", "barefailure": "first_error_results",
                   "winner": "race_winner_results", "group": "race_failure_groups", "list": "list_results", "values": "gather_value_results",
                   "failure": "race_cancelled_with_surviving_input_results"}[got[0]])
        if nprefix > 1 and len(acceptable(self.kind, self.tl, self.n, nprefix)[1]) > 1:
            ctx.count("prefired_tie_cases")
        if self.kind[0] == "race":
            return
        for i in range(self.n):
            ok, tok = self.done[i]
            ctx.count("later_callback_checks")
            if ok:
                want = [tok]
            elif self.kind[3]:
                want = ["NONE"]
                ctx.count("consumed_errors_seen_as_none")
            else:
                want = [tok]
            if self.later[i] != want:
                key = "consume-errors-later-callback-sees-failure" if (not ok and self.kind[3]) else \
                    ("failure-consumed-without-consume-errors" if not ok else "later-callback-success-value-changed")
                return self.violation(key, "a callback added to an input after the aggregate was built saw the wrong result", input=i, expected=want, observed=self.later[i])


def run_case(ctx, case):
    c = Case(ctx, case)
    c.run()
    ctx.evaluated()
    if case["n"] >= 2:
        if ctx.n_distinct < DISTINCT_CAP:
            ctx.distinct(sorted(case.items()))
        else:
            ctx.count("distinct_cases_beyond_hash_cap")   # enumerated cases are distinct by construction
    return c


# ---- enumeration ------------------------------------------------------------------------------------
def enumerate_cases(maxn):
    for n in range(1, maxn + 1):
        idx = list(range(n))
        for okbits in itertools.product((True, False), repeat=n):
            for r in range(n + 1):
                for pre in itertools.combinations(idx, r):
                    rest = [i for i in idx if i not in pre]
                    for order in itertools.permutations(rest):
                        yield n, list(okbits), list(pre), list(order)


def _log_sink(ctx):
    """DeferredList.cancel logs exceptions of user cancellers: count them (and keep them off stderr)."""
    from twisted.logger import globalLogBeginner

    def sink(event):
        if event.get("log_failure") is not None and "user supplied canceller" in str(event.get("log_format", "")):
            ctx.count("canceller_exceptions_logged_by_deferredlist")

    globalLogBeginner.beginLoggingTo([sink], redirectStandardIO=False, discardBuffer=True)


def run(ctx):
    _log_sink(ctx)
    maxn = 4 if ctx.quick else 5
    k = 0
    for n, ok, pre, order in enumerate_cases(maxn + 1):
        k += 1
        if not ctx.owns(k):
            continue
        for kind in KINDS:
            base = {"kind": list(kind), "n": n, "ok": ok, "pre": pre, "order": order}
            modes = CMODES[:5] if kind[0] == "race" else CMODES[:1]
            for m in modes:   # no injected cancellation
                c = run_case(ctx, dict(base, cancel_at=[], cmodes=[m] * n))
            if k % 97 == 0:
                ctx.sample({"case": c.case, "timeline": c.tl, "aggregate": c.agg_seen, "later_callbacks_saw": {str(i): v for i, v in c.later.items()},
                            "cancel_calls": [d.cancel_calls for d in c.ds]}, limit=4)
            for pos in range(len(order) + 1 if n <= maxn else 0):   # n = maxn + 1: without injected cancellation
                for m in CMODES[:5]:
                    run_case(ctx, dict(base, cancel_at=[pos], cmodes=[m] * n))
    ctx.exhaustive = True
    ctx.seen("kinds", [list(k) for k in KINDS])
    for i in ctx.cases(6000, 300000):
        rng = ctx.case_rng("rand", i)
        n = rng.randint(2, 16)
        idx = list(range(n))
        pre = [j for j in idx if rng.random() < rng.choice((0.0, 0.2, 0.6))]
        order = [j for j in idx if j not in pre]
        rng.shuffle(order)
        pfail = rng.choice((0.1, 0.5, 0.9, 1.0, 0.0))
        cancels = sorted(rng.randint(0, len(order)) for _ in range(rng.choice((0, 1, 1, 2))))
        case = {"kind": list(rng.choice(KINDS)), "n": n, "ok": [rng.random() >= pfail for _ in idx], "pre": pre, "order": order,
                "cancel_at": cancels, "cmodes": [rng.choice(CMODES) for _ in idx]}
        run_case(ctx, case)
        ctx.count("random_cases")
        ctx.maxi("n", n)


def replay(ctx, w):
    run_case(ctx, w["witness"]["case"])
