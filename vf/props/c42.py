"""C42 IMAP4 client parses what the IMAP4 server serializes.

Monitor: a generated nested list x is serialized by the real server-side
`imap4.collapseNestedLists` and the bytes are parsed by the real client-side
`imap4.parseNestedParens`; the parsed structure is compared with x in which ints are replaced by
their decimal text (None stays None, byte strings stay byte-for-byte, nesting identical).

Guards: the statement is about *parenthesized* lists, so the deciding cases are x = [inner]: the
serialization is "(...)".  (parseNestedParens strips surrounding whitespace of its whole input, so a
bare top-level literal ending in CR/LF would lose bytes; that is outside the statement and only
counted as `unparenthesized_toplevel_differs`.)  bool is not used as an int.  Classification is by
counterfactual: if the same structure with every backslash replaced by '/' round-trips, the
mechanism is the backslash handling (DESIGN 6-20); anything else keeps a stage key.
"""
LEVEL = "exploration"
ENGINE = "core"
TECHNIQUE = "runtime monitoring: structural equality of parseNestedParens(collapseNestedLists(x)) with x"
RULE = ("all ordered pairs of items from a hostile token table (quotes, backslash runs, CR, LF, braces, "
        "parens, NIL-like, empty, 8-bit, ints, None, nested) as [[a, b]]; all byte strings of length <= 2 "
        "over a 12-byte hostile alphabet; random nested lists of depth <= 4 with byte strings of length "
        "0/1/small/999..1001/5000 over all byte values weighted to the hostile ones; long items of 9999, 10000, "
        "10001, 65536, 100000 and 1000000 octets (with and without CR/LF, alone, nested, and two in one list: "
        "literal headers with 4..7 digit counts).  Distinct = the "
        "structure; non-trivial = contains a byte string that needs quoting or a literal, or nesting.")
ASSUMPTIONS = ["top level is one parenthesized list (the statement's 'parenthesized nested list')"]
SHARDS = {"quick": 4, "thorough": 16}
FLOORS = {"structures_compared": 15000, "literals_emitted": 2000, "quoted_strings_emitted": 15000,
          "nested_lists_emitted": 5000, "items_with_quote_char": 1000, "nil_like_strings": 200,
          "long_item_cases": 30, "items_of_10000_octets_or_more": 25}
READY = True

HOSTILE = b'"\\\r\n{}()[] \t\x00\x80\xffNILnil0123%*'
TOKENS = [b"", b"a", b" ", b'"', b'""', b"\\", b"\\\\", b'\\"', b'"\\', b"a\\", b"\\a", b"a\\b", b"NIL", b"nil", b"Nil",
          b"{3}", b"{3}\r\nabc", b"{", b"}", b"(", b")", b"[", b"]", b"()", b"\r", b"\n", b"\r\n", b"a\r\n", b"\r\na",
          b" a ", b"\t", b"\x00", b"\x80\xff", b"a b", b"12", b"-1", b'a"b', b"a'b", None, 0, 7, -5, 10 ** 30,
          [], [b"x"], [None], [[]], [b"\\"], [b"a", [b"b"]]]


def gen_bytes(rng):
    r = rng.random()
    if r < 0.08:
        return rng.choice([t for t in TOKENS if isinstance(t, bytes)])
    if r < 0.10:
        n = rng.choice((999, 1000, 1001, 1002))
    elif r < 0.105:
        n = 5000
    else:
        n = rng.choice((0, 1, 1, 2, 3, 4, 6, 9, 14))
    mode = rng.random()
    out = bytearray()
    for _ in range(n):
        if mode < 0.5 and rng.random() < 0.6 or n > 100 and rng.random() < 0.98:
            out.append(rng.randrange(0x61, 0x7B))
        elif rng.random() < 0.7:
            out.append(rng.choice(HOSTILE))
        else:
            out.append(rng.randrange(256))
    if n > 100 and rng.random() < 0.5:  # a long string that is *not* a literal only because of its length
        for _ in range(rng.randrange(1, 4)):
            out[rng.randrange(n)] = rng.choice(b'"\\ (){')
    return bytes(out)


def gen_item(rng, depth):
    r = rng.random()
    if r < 0.62:
        return gen_bytes(rng)
    if r < 0.70:
        return None
    if r < 0.80:
        return rng.choice((0, 1, -1, 42, 1000, -2 ** 31, 2 ** 63, 10 ** 40, rng.randrange(-10 ** 6, 10 ** 6)))
    if depth >= 4:
        return gen_bytes(rng)
    return [gen_item(rng, depth + 1) for _ in range(rng.choice((0, 1, 1, 2, 3, 5)))]


def expected(x):
    if isinstance(x, list):
        return [expected(i) for i in x]
    if isinstance(x, int):
        return str(x).encode("ascii")
    return x


def subst_backslash(x):
    if isinstance(x, list):
        return [subst_backslash(i) for i in x]
    if isinstance(x, bytes):
        return x.replace(b"\\", b"/")
    return x


def walk(x):
    for i in x:
        if isinstance(i, list):
            yield from walk(i)
        yield i


def verdict(imap4, x):
    """None if the round trip holds, else (stage, details)."""
    try:
        wire = imap4.collapseNestedLists(x)
    except Exception as e:
        return "serializer-raises", {"exception": repr(e)}
    try:
        got = imap4.parseNestedParens(wire)
    except Exception as e:
        return "parser-raises:" + type(e).__name__, {"wire": wire, "exception": repr(e)[:300]}
    exp = expected(x)
    if got != exp:
        return "structure-differs", {"wire": wire, "parsed": got, "expected": exp}
    return None


def to_json(x):
    if isinstance(x, list):
        return [to_json(i) for i in x]
    if isinstance(x, bytes):
        return {"hex": x.hex()}
    return x


def from_json(x):
    if isinstance(x, list):
        return [from_json(i) for i in x]
    if isinstance(x, dict):
        return bytes.fromhex(x["hex"])
    return x


LONG_LENGTHS = (9999, 10000, 10001, 65536, 100000, 1000000)


def long_case(n, content, layout):
    item = (b"line one\r\nline two\n" + b"x\\\"(){" if content == "crlf" else b"") .ljust(n, b"a")[:n]
    if layout == "alone":
        return [item]
    if layout == "nested":
        return [b"x", [None, [item], 7], b"tail"]
    return [item, 5, item[:-1] + b"\r", b"z"]


def check(ctx, imap4, inner, long_params=None):
    x = [inner]
    ctx.evaluated()
    trivial = True
    for i in walk(x):
        if isinstance(i, bytes):
            if b"\r" in i or b"\n" in i or len(i) > 1000:
                ctx.count("literals_emitted")
            else:
                ctx.count("quoted_strings_emitted")
            if b'"' in i:
                ctx.count("items_with_quote_char")
            if b"\\" in i:
                ctx.count("items_with_backslash")
            if len(i) >= 10000:
                ctx.count("items_of_10000_octets_or_more")
            if i.upper() == b"NIL":
                ctx.count("nil_like_strings")
            trivial = False
        elif isinstance(i, list):
            ctx.count("nested_lists_emitted")
        elif i is None:
            ctx.count("none_items")
        else:
            ctx.count("int_items")
    if not trivial or len(inner) > 0:
        ctx.distinct(repr(x))
    v = verdict(imap4, x)
    ctx.count("structures_compared")
    if v is None:
        return
    stage, det = v
    key = "imap-nested-" + stage
    what = "parseNestedParens(collapseNestedLists(x)) != x: " + stage
    if any(isinstance(i, bytes) and b"\\" in i for i in walk(x)) and verdict(imap4, subst_backslash(x)) is None:
        key = "imap-backslash-not-unescaped"
        what = ("the server escapes backslash as two backslashes in quoted strings, the client parser only "
                "un-escapes backslash-quote (doubled backslashes stay doubled; a string ending in a backslash "
                "swallows its closing quote)")
        det["counterfactual"] = "same structure with every backslash replaced by '/' round-trips"
        det["stage"] = stage
    if long_params is not None:  # megabyte items are re-generated on replay instead of being stored
        det["long_case"] = list(long_params)
        for k in ("wire", "parsed", "expected"):
            if k in det:
                det[k] = repr(det[k])[:300]
    else:
        det["structure"] = to_json(x)
    det["structure_repr"] = repr(x)[:600]
    ctx.violation(key, what, det)


def run(ctx):
    from twisted.mail import imap4

    k = 0
    # -- all ordered pairs of hostile tokens
    for a in TOKENS:
        for b in TOKENS:
            k += 1
            if ctx.owns(k):
                check(ctx, imap4, [a, b])
                ctx.count("token_pairs")
    # -- all byte strings of length <= 2 over a hostile alphabet, alone and followed by an atom
    alpha = b'"\\\r\n{}() aN\x00'
    for s in [b""] + [bytes((c,)) for c in alpha] + [bytes((c, d)) for c in alpha for d in alpha]:
        k += 1
        if ctx.owns(k):
            check(ctx, imap4, [s])
            check(ctx, imap4, [s, 5, s])
            ctx.count("short_strings")
    # -- long items: literal headers with 4..7 digit octet counts
    for n in LONG_LENGTHS:
        for content in ("crlf", "plain"):
            for layout in ("alone", "nested", "two"):
                k += 1
                if ctx.owns(k):
                    check(ctx, imap4, long_case(n, content, layout), long_params=(n, content, layout))
                    ctx.count("long_item_cases")
    # -- random nested structures
    for i in ctx.cases(30000, 1500000):
        rng = ctx.case_rng(i)
        inner = [gen_item(rng, 1) for _ in range(rng.choice((0, 1, 2, 2, 3, 4, 6)))]
        check(ctx, imap4, inner)
        if i % 8 == 0:
            # outside the statement: the same items without the enclosing parentheses (recorded only)
            try:
                if imap4.parseNestedParens(imap4.collapseNestedLists(inner)) != expected(inner):
                    ctx.count("unparenthesized_toplevel_differs")
            except Exception:
                ctx.count("unparenthesized_toplevel_differs")
            ctx.count("unparenthesized_toplevel_tried")
        if i < 4 * ctx.nshards:
            ctx.sample({"structure": repr([inner])[:300], "wire": _safe(lambda: imap4.collapseNestedLists([inner]))})


def _safe(f):
    try:
        return f()
    except Exception as e:
        return "raised " + repr(e)


def replay(ctx, w):
    from twisted.mail import imap4

    wit = w["witness"]
    if "long_case" in wit:
        check(ctx, imap4, long_case(*wit["long_case"]), long_params=tuple(wit["long_case"]))
        return
    x = from_json(wit["structure"])
    check(ctx, imap4, x[0])
