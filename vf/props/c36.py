"""C36 SSH channels respect flow control and flush before closing.

Monitored: two real `SSHConnection`s (A, B) whose transports are stubs: `sendPacket` is the monitor
hook and enqueues the message for the peer; the scheduler decides when each message is delivered
(`packetReceived` on the peer; FIFO per direction).  Channels are real `SSHChannel` subclasses that
record `dataReceived/extReceived/closeReceived/closed`.  All sizes (initial window, max packet) are
read from the CHANNEL_OPEN / OPEN_CONFIRMATION messages on the wire, never from object attributes.

Oracle (independent account, per channel and direction S -> R):
  * at every CHANNEL_DATA / EXTENDED_DATA message S sends: length <= R's advertised max packet and
    length <= (R's initial window + WINDOW_ADJUSTs already *delivered* to S - bytes S sent so far)
                                                           -> `data-exceeds-window` / `data-exceeds-max-packet`
  * the bytes S sends per stream (normal, ext type 1, ext type 2) are a prefix of what S's
    application wrote to that stream, and what R's channel receives is a prefix of what S sent
                                                           -> `sent-not-prefix-of-written` / `received-not-prefix-of-sent`
  * when S sends CHANNEL_CLOSE, every byte its application wrote has been sent
                                                           -> `close-before-buffered-data-sent` (or the narrow key below)
  * X never sends CLOSE unless its application asked for it or it has received the peer's CLOSE
    (i.e. a conforming sender is never answered with "too much data")  -> `conforming-sender-refused`
  * after everything has been delivered: every stream of S is received completely, provided R's
    application did not close first (R stops replenishing once it has closed, which is legitimate)
                                                           -> `stream-incomplete-at-quiescence`
Re-entrancy: in half of the cases the channel's startWriting() hook synchronously calls write /
writeExtended / loseConnection (a producer that produces the moment it is resumed) and so
does the stopWriting() hook; the model records each call when it happens, so the
oracle is unchanged ("written in order" = order of the calls).
False-alarm guards: nothing is asserted about how writes are split into messages or about the timing
of WINDOW_ADJUST; the application never writes after its own loseConnection(); completeness is only
demanded at quiescence and only when the receiver did not initiate a close; an application-level
`adjustWindow` (documented API) is allowed to over-grant.

Narrow keys for defects of the unchanged tree:
  `ssh-close-before-second-ext-buffer` - CLOSE emitted in the middle of the extended-data flush of a
      WINDOW_ADJUST: close had been requested, the adjust already sent some buffered extended data,
      no normal data is unsent, and extended data (a later buffered entry) is still unsent at the CLOSE.
  `window-overrun-from-stopwriting-hook` - a data message exceeds the granted window and, within the
      same top-level step, this channel's stopWriting() hook had sent data (the hook saw a window that
      the interrupted write() was about to use).
  `ext-flush-stopwriting-hook-write-overtakes-pending-entries` - an extended-data stream is sent out
      of order and, earlier in the history, this channel's stopWriting() hook wrote data while a
      WINDOW_ADJUST for the channel was being processed (the flush keeps the not-yet-flushed
      entries in a local list, so re-entrant writes are queued ahead of them).
  `receiver-window-1-never-replenished` - a stream is incomplete at quiescence, the receiver's
      advertised window size is 1 and the sender has used up everything it was granted (such a
      receiver never replenishes on its own: `localWindowLeft < localWindowSize // 2` is `x < 0`).
"""
import struct

LEVEL = "exploration"
ENGINE = "E2-netsim"
TECHNIQUE = "runtime monitoring: independent per-direction window/packet account on the messages between two real SSHConnections + written==received per stream at quiescence"
RULE = ("random histories (write / writeExtended type 1,2 / writeSequence / loseConnection / explicit "
        "adjustWindow / deliver-next-message in either direction; in half of the cases the channels' "
        "startWriting()/stopWriting() hooks synchronously write more data or close - scripted, replayable) over 1-2 channels opened in both "
        "directions, advertised windows from {1,2,3,5,16,100,1000,32768,131072,1048576} and max packets "
        "from {1,2,3,7,64,1000,32768}; then everything is delivered.  A case is distinct by its exact "
        "history + sizes; non-trivial = at least one write had to be buffered (window exhausted).")
ASSUMPTIONS = ["trusted base: the stub transport delivers messages FIFO per direction, unmodified",
               "the application does not write after calling loseConnection() on its channel",
               "sizes are taken from the OPEN/CONFIRMATION messages (what the peer advertised)"]
SHARDS = {"quick": 4, "thorough": 16}
FLOORS = {"data_messages_checked": 5000, "window_adjusts_delivered": 500, "close_messages_checked": 200,
          "streams_complete_at_quiescence": 500, "writes_buffered": 500, "bytes_received": 100000,
          "hook_actions_start_write": 50, "hook_actions_start_close": 10, "hook_actions_stop_write": 50,
          "hook_actions_stop_ext": 50}
READY = True

KNOWN_EXT = "ssh-close-before-second-ext-buffer"
KNOWN_W1 = "receiver-window-1-never-replenished"
KNOWN_STOP = "window-overrun-from-stopwriting-hook"
KNOWN_FLUSH = "ext-flush-stopwriting-hook-write-overtakes-pending-entries"

WINDOWS = (1, 2, 3, 5, 16, 100, 1000, 32768, 131072, 1048576)
PACKETS = (1, 2, 3, 7, 64, 1000, 32768)
MSG = {90: "OPEN", 91: "CONFIRM", 92: "OPEN_FAILURE", 93: "ADJUST", 94: "DATA", 95: "EXT", 96: "EOF", 97: "CLOSE"}


class Stub:
    """Transport stub: monitor hook + FIFO towards the peer."""

    def __init__(self, name, world):
        self.name = name
        self.world = world
        self.transport = self
        self.q = []

    def sendPacket(self, num, payload):
        self.world.on_send(self.name, num, payload)
        self.q.append((num, payload))

    def sendUnimplemented(self):
        self.world.problem("unimplemented-message", "a connection answered UNIMPLEMENTED", {"side": self.name})

    def logPrefix(self):
        return "stub-" + self.name

    def getPeer(self):
        return None

    def getHost(self):
        return None


def make_classes():
    from twisted.conch.ssh import channel, connection

    class Chan(channel.SSHChannel):
        name = b"test"
        world = None
        tag = None  # (channel index, side name)

        def dataReceived(self, data):
            self.world.on_recv(self.tag, 0, data)

        def extReceived(self, dataType, data):
            self.world.on_recv(self.tag, dataType, data)

        def closeReceived(self):
            self.world.log.append(("closeReceived",) + self.tag)
            channel.SSHChannel.closeReceived(self)

        def closed(self):
            self.world.log.append(("closed",) + self.tag)

        def startWriting(self):
            self.world.on_hook(self.tag, "start")

        def stopWriting(self):
            self.world.on_hook(self.tag, "stop")

        def openFailed(self, reason):
            self.world.problem("open-failed", "channel open failed", {"reason": repr(reason)})

    class Conn(connection.SSHConnection):
        world = None
        side = None

        def channel_test(self, windowSize, maxPacket, data):
            lw, lp = struct.unpack(">2L", data)
            c = Chan(localWindow=lw, localMaxPacket=lp, remoteWindow=windowSize, remoteMaxPacket=maxPacket, conn=self)
            c.world = self.world
            self.world.accepted.append((self.side, c))
            return c

    return Chan, Conn


class Dir:
    """Account for one channel direction S -> R."""

    def __init__(self):
        self.window = None  # R's advertised window still unused according to what S has been told
        self.maxpkt = None
        self.win_size = None
        self.written = {0: bytearray(), 1: bytearray(), 2: bytearray()}
        self.sent = {0: bytearray(), 1: bytearray(), 2: bytearray()}
        self.recv = {0: bytearray(), 1: bytearray(), 2: bytearray()}
        self.close_requested = False  # by S's application
        self.close_sent = False
        self.peer_close_delivered = False  # S has received R's CLOSE
        self.adjusts_sent_by_receiver = 0
        self.stop_hook_wrote_in_adjust = False
        self.broken = False

    def unsent(self, s):
        return len(self.written[s]) - len(self.sent[s])


class World:
    def __init__(self, ctx, sizes, hooks=(), rng_bytes=None):
        Chan, Conn = make_classes()
        self.ctx = ctx
        self.rng_bytes = rng_bytes
        # scripted re-entrant application behaviour: what the channel's startWriting()/stopWriting()
        # hook does, synchronously, the next times it is called
        self.hooks = {}
        self.in_stop_hook = []  # stack of (idx, side) whose stopWriting() hook is running
        self.stop_hook_sent = set()  # (idx, side) whose stopWriting() hook sent data during the current top-level step
        for idx, side, kind, action in hooks:
            self.hooks.setdefault((idx, side, kind), []).append(tuple(action))
        self.sizes = sizes
        self.log = []
        self.problems = []
        self.accepted = []
        self.conn = {}
        self.stub = {}
        for n in "AB":
            c = Conn()
            c.world, c.side = self, n
            self.stub[n] = c.transport = Stub(n, self)
            self.conn[n] = c
        self.chan = {}  # (idx, side) -> channel object
        self.dirs = {}  # (idx, sender side) -> Dir
        self.in_adjust = None  # (idx, side, ext bytes sent before) while a WINDOW_ADJUST is processed
        self.dead = False
        for idx, (opener, wa, pa, wb, pb) in enumerate(sizes):
            other = "B" if opener == "A" else "A"
            ch = Chan(localWindow=wa, localMaxPacket=pa)
            ch.world, ch.tag = self, (idx, opener)
            self.dirs[(idx, "A")], self.dirs[(idx, "B")] = Dir(), Dir()
            self.conn[opener].openChannel(ch, struct.pack(">2L", wb, pb))
            self.run_all()
            self.chan[(idx, opener)] = ch
            side, acc = self.accepted.pop()
            acc.tag = (idx, other)
            self.chan[(idx, other)] = acc

    @staticmethod
    def peer(n):
        return "B" if n == "A" else "A"

    def problem(self, key, what, detail):
        self.problems.append((key, what, detail))

    # ---- monitor hooks ---------------------------------------------------------------------
    def on_send(self, side, num, payload):
        ctx = self.ctx
        self.log.append((side, "send", MSG.get(num, num), len(payload)))
        ctx.count("messages_" + str(MSG.get(num, num)))
        if num == 90:  # opener advertises what it will accept: governs peer -> opener
            _, rest = payload[4:4 + struct.unpack(">L", payload[:4])[0]], payload[4 + struct.unpack(">L", payload[:4])[0]:]
            cid, win, pkt = struct.unpack(">3L", rest[:12])
            d = self.dirs[(len(self.chan) // 2, self.peer(side))]
            d.window, d.maxpkt, d.win_size = win, pkt, win
        elif num == 91:
            _, cid, win, pkt = struct.unpack(">4L", payload[:16])
            d = self.dirs[(len(self.chan) // 2, self.peer(side))]
            d.window, d.maxpkt, d.win_size = win, pkt, win
        elif num in (94, 95):
            if num == 94:
                (cid,) = struct.unpack(">L", payload[:4])
                stream, body = 0, payload[8:]
            else:
                cid, stream = struct.unpack(">2L", payload[:8])
                body = payload[12:]
            d = self.dirs[(cid, side)]
            ctx.count("data_messages_checked")
            ctx.count("bytes_sent", len(body))
            w = {"channel": cid, "sender": side, "stream": stream, "message_len": len(body), "window_available": d.window, "max_packet": d.maxpkt}
            if len(body) > d.maxpkt:
                self.problem("data-exceeds-max-packet", "a data message is larger than the peer's maximum packet size", w)
            if (cid, side) in self.in_stop_hook:
                self.stop_hook_sent.add((cid, side))
            if len(body) > d.window:
                if (cid, side) in self.stop_hook_sent:
                    self.problem(KNOWN_STOP, "the stopWriting() hook runs before the window used by the interrupted write is accounted for: "
                                 "data written from the hook plus the interrupted write exceed the peer's window", w)
                else:
                    self.problem("data-exceeds-window", "a data message exceeds the window the peer has granted so far", w)
            d.window -= len(body)
            if d.close_sent:
                self.problem("data-after-close", "data message sent after CHANNEL_CLOSE", w)
            d.sent[stream] += body
            if d.written[stream][:len(d.sent[stream])] != d.sent[stream]:
                if stream and d.stop_hook_wrote_in_adjust:
                    self.ctx.count("known_" + KNOWN_FLUSH)
                    self.problem(KNOWN_FLUSH, "while a window adjust flushes the buffered extended-data entries, data written from the stopWriting() "
                                 "hook is queued ahead of the entries not yet flushed (same stream out of order)", w)
                else:
                    self.problem("sent-not-prefix-of-written", "bytes sent on a stream are not a prefix of what the application wrote", w)
                d.broken = True
        elif num == 93:
            cid, n = struct.unpack(">2L", payload[:8])
            self.dirs[(cid, self.peer(side))].adjusts_sent_by_receiver += 1
        elif num == 97:
            (cid,) = struct.unpack(">L", payload[:4])
            d = self.dirs[(cid, side)]
            ctx.count("close_messages_checked")
            d.close_sent = True
            unsent = {s: d.unsent(s) for s in (0, 1, 2)}
            w = {"channel": cid, "sender": side, "unsent_bytes_by_stream": unsent, "close_requested_by_app": d.close_requested,
                 "peer_close_received": d.peer_close_delivered}
            if not d.close_requested and not d.peer_close_delivered:
                self.problem("conforming-sender-refused", "CLOSE sent although neither the application asked for it nor the peer had closed "
                             "(the receiver refused data of a sender that respected its window)", w)
            elif any(unsent.values()) and not d.peer_close_delivered:
                ia = self.in_adjust
                ext_sent = len(d.sent[1]) + len(d.sent[2])
                if (ia is not None and ia[0] == cid and ia[1] == side and ext_sent > ia[2] and unsent[0] == 0
                        and d.close_requested and (unsent[1] or unsent[2])):
                    ctx.count("known_close_before_second_ext")
                    self.problem(KNOWN_EXT, "with extended data of two types buffered and a close pending, a window adjust sends the "
                                 "first buffered entry, then CLOSE; the remaining extended data is dropped", w)
                else:
                    self.problem("close-before-buffered-data-sent", "CHANNEL_CLOSE sent while written data was still buffered", w)
                d.broken = True

    def on_recv(self, tag, stream, data):
        idx, side = tag
        d = self.dirs[(idx, self.peer(side))]
        self.ctx.count("bytes_received", len(data))
        d.recv[stream] += data
        if d.sent[stream][:len(d.recv[stream])] != d.recv[stream]:
            self.problem("received-not-prefix-of-sent", "the receiving channel got bytes that are not a prefix of the sent stream",
                         {"channel": idx, "receiver": side, "stream": stream})
            d.broken = True

    # ---- actions ---------------------------------------------------------------------------
    def deliver(self, src):
        self.stop_hook_sent.clear()
        num, payload = self.stub[src].q.pop(0)
        dst = self.peer(src)
        if num == 93:
            cid, n = struct.unpack(">2L", payload[:8])
            d = self.dirs[(cid, dst)]
            d.window += n
            self.ctx.count("window_adjusts_delivered")
            self.in_adjust = (cid, dst, len(d.sent[1]) + len(d.sent[2]))
        elif num == 97:
            (cid,) = struct.unpack(">L", payload[:4])
            self.dirs[(cid, dst)].peer_close_delivered = True
        try:
            self.conn[dst].packetReceived(num, payload)
        except Exception as e:  # noqa: BLE001
            self.problem("exception-in-packetReceived-" + type(e).__name__, "packetReceived raised", {"message": MSG.get(num, num), "error": repr(e)[:200]})
            self.dead = True
        self.in_adjust = None

    def run_all(self):
        n = 0
        limit = 1000 + 8 * sum(len(d.written[s]) for d in self.dirs.values() for s in (0, 1, 2))
        while (self.stub["A"].q or self.stub["B"].q) and not self.dead:
            for s in "AB":
                if self.stub[s].q:
                    self.deliver(s)
                    n += 1
            if n > limit:
                self.problem("message-storm", "delivery did not terminate", {"delivered": n})
                break
        return n

    def apply(self, act):
        self.stop_hook_sent.clear()
        kind = act[0]
        if kind == "deliver":
            if self.stub[act[1]].q:
                self.deliver(act[1])
            return
        self.app(act)

    def on_hook(self, tag, kind):
        idx, side = tag
        script = self.hooks.get((idx, side, kind))
        if (idx, side) not in self.chan or not script or self.dead:
            return  # (hooks are inert while the channels are being opened)
        action = script.pop(0)
        self.ctx.count("hook_actions_%s_%s" % (kind, action[0]))
        self.log.append(("hook", kind, idx, side) + action)
        if kind == "stop":
            self.in_stop_hook.append((idx, side))
            ia = self.in_adjust
            if ia is not None and ia[:2] == (idx, side) and action[0] in ("write", "ext"):
                self.dirs[(idx, side)].stop_hook_wrote_in_adjust = True  # sticky: the queue order is decided now, seen later
        try:
            self.app((action[0], idx, side) + action[1:], in_hook=True)
        finally:
            if kind == "stop":
                self.in_stop_hook.pop()

    in_stop_hook = ()
    stop_hook_sent = ()

    def app(self, act, in_hook=False):
        """One application call on a channel; the model records it at the moment it happens, so
        'written in order' is the order of the write() calls, re-entrant ones included."""
        kind, idx, side = act[0], act[1], act[2]
        ch, d = self.chan[(idx, side)], self.dirs[(idx, side)]
        if d.close_requested and kind != "adjust":
            return  # the application never writes (or closes again) after its own loseConnection()
        rng_bytes = self.rng_bytes
        try:
            if kind == "write":
                data = rng_bytes(act[3])
                d.written[0] += data
                ch.write(data)
            elif kind == "seq":
                parts = [rng_bytes(n) for n in act[3]]
                d.written[0] += b"".join(parts)
                ch.writeSequence(parts)
            elif kind == "ext":
                data = rng_bytes(act[4])
                d.written[act[3]] += data
                ch.writeExtended(act[3], data)
            elif kind == "close":
                d.close_requested = True
                ch.loseConnection()
            elif kind == "adjust":
                self.conn[side].adjustWindow(ch, act[3])
        except Exception as e:  # noqa: BLE001
            if in_hook:
                raise
            self.problem("exception-in-channel-api-" + type(e).__name__, "%s raised" % kind, {"action": list(act), "error": repr(e)[:200]})
            self.dead = True
        if kind in ("write", "seq", "ext") and any(d.unsent(s) for s in (0, 1, 2)):
            self.ctx.count("writes_buffered")
            self.buffered = True

    buffered = False

    def quiescence(self):
        ctx = self.ctx
        for (idx, side), d in sorted(self.dirs.items()):
            r = self.dirs[(idx, self.peer(side))]  # the receiver's own direction: did R's app close first?
            if d.broken or self.dead:
                continue
            for s in (0, 1, 2):
                if not d.written[s]:
                    continue
                if bytes(d.recv[s]) == bytes(d.written[s]):
                    ctx.count("streams_complete_at_quiescence")
                    continue
                if r.close_requested:
                    ctx.count("streams_cut_by_receiver_close")
                    continue
                w = {"channel": idx, "sender": side, "stream": s, "written": len(d.written[s]), "sent": len(d.sent[s]),
                     "received": len(d.recv[s]), "receiver_window_size": d.win_size, "receiver_max_packet": d.maxpkt,
                     "window_adjusts_sent_by_receiver": d.adjusts_sent_by_receiver, "sender_close_sent": d.close_sent}
                if d.win_size == 1 and d.window == 0 and not d.close_sent:
                    ctx.count("known_window1_stall")
                    self.problem(KNOWN_W1, "a receiver that advertised a window of 1 byte never sends WINDOW_ADJUST after consuming it "
                                 "(localWindowLeft < localWindowSize // 2 is 0 < 0); the sender is blocked forever", w)
                else:
                    self.problem("stream-incomplete-at-quiescence", "all messages delivered, receiver did not close, but written data never arrived", w)
                break


def gen_case(rng):
    nch = 1 if rng.random() < 0.6 else 2
    sizes = []
    for i in range(nch):
        small = rng.random() < 0.6
        pick_w = (lambda: rng.choice(WINDOWS[:7])) if small else (lambda: rng.choice(WINDOWS))
        sizes.append((("A", "B")[i], pick_w(), rng.choice(PACKETS), pick_w(), rng.choice(PACKETS)))
    hist = []
    closed = set()
    n = rng.randint(3, 40)
    p_deliver = rng.choice((0.15, 0.4, 0.7))
    # keep the number of window round trips per case bounded: writes of at most ~40 windows
    scale = min(rng.choice((4, 40, 400, 40000)), 40 * min(min(s[1], s[3]) for s in sizes))
    for _ in range(n):
        if rng.random() < p_deliver:
            hist.append(("deliver", rng.choice("AB")))
            continue
        idx, side = rng.randrange(nch), rng.choice("AB")
        r = rng.random()
        if (idx, side) in closed:
            if r < 0.3:
                hist.append(("deliver", side))
            continue
        size = rng.choice((0, 1, 2, 3, rng.randint(0, scale), rng.randint(0, scale)))
        if r < 0.35:
            hist.append(("write", idx, side, size))
        elif r < 0.45:
            hist.append(("seq", idx, side, [rng.randint(0, max(1, size // 2)) for _ in range(rng.randint(0, 3))]))
        elif r < 0.8:
            hist.append(("ext", idx, side, rng.choice((1, 2)), size))
        elif r < 0.9:
            hist.append(("close", idx, side))
            closed.add((idx, side))
        else:
            hist.append(("adjust", idx, side, rng.choice((1, 2, 3, 10, 100))))
    return sizes, hist


def gen_hooks(rng, sizes):
    """Re-entrant application scripts: (channel, side, 'start'|'stop', action).  Both hooks may write
    normal / extended data or close (startWriting: a producer that produces as soon as it is resumed;
    stopWriting: an application that flushes a last record when told to stop)."""
    hooks = []
    scale = min(rng.choice((3, 30, 300)), 40 * min(min(s[1], s[3]) for s in sizes))
    for idx in range(len(sizes)):
        for side in "AB":
            if rng.random() < 0.7:
                for _ in range(rng.randint(1, 4)):
                    r = rng.random()
                    n = rng.choice((1, 2, 3, rng.randint(0, scale)))
                    hooks.append((idx, side, "start", ("write", n) if r < 0.5 else ("ext", rng.choice((1, 2)), n) if r < 0.8 else ("close",)))
            if rng.random() < 0.35:
                for _ in range(rng.randint(1, 3)):
                    r = rng.random()
                    n = rng.choice((1, 2, 3, rng.randint(0, scale)))
                    hooks.append((idx, side, "stop", ("write", n) if r < 0.4 else ("ext", rng.choice((1, 2)), n) if r < 0.8 else ("close",)))
    return hooks


def run_case(ctx, sizes, hist, data_seed, hooks=()):
    import random

    drng = random.Random(data_seed)
    w = World(ctx, sizes, hooks, drng.randbytes)
    for act in hist:
        if w.dead or w.problems:
            break
        w.apply(tuple(act))
    if not w.problems:
        w.run_all()
    if not w.problems:
        w.quiescence()
    return w


def check_case(ctx, sizes, hist, data_seed, hooks=()):
    w = run_case(ctx, sizes, hist, data_seed, hooks)
    ctx.evaluated()
    if hooks:
        ctx.count("cases_with_reentrant_hooks")
    if w.buffered:
        ctx.distinct((tuple(sizes), tuple(map(repr, hist)), tuple(map(repr, hooks))))
    done = set()
    for key, what, detail in w.problems:
        if key in done:
            continue
        done.add(key)
        ctx.violation(key, what, {"sizes(opener,openerWindow,openerMaxPkt,acceptorWindow,acceptorMaxPkt)": [list(s) for s in sizes],
                                  "history": [list(a) for a in hist], "hooks(channel,side,when,action)": [list(h) for h in hooks],
                                  "data_seed": data_seed, "detail": detail,
                                  "message_log_tail": w.log[-25:]})
    return w


def run(ctx):
    for i in ctx.cases(6000, 300000):
        rng = ctx.case_rng(i)
        sizes, hist = gen_case(rng)
        hooks = gen_hooks(ctx.case_rng(i, "hooks"), sizes) if i % 2 else []
        w = check_case(ctx, sizes, hist, "%s:%d" % (ctx.seed, i), hooks)
        if i < 2:
            ctx.sample({"sizes": sizes, "history": hist, "message_log_head": w.log[:30]})


def replay(ctx, w):
    x = w["witness"]
    sizes = [tuple(s) for s in x["sizes(opener,openerWindow,openerMaxPkt,acceptorWindow,acceptorMaxPkt)"]]
    hooks = [(h[0], h[1], h[2], tuple(h[3])) for h in x.get("hooks(channel,side,when,action)", [])]
    check_case(ctx, sizes, [tuple(a) for a in x["history"]], x["data_seed"], hooks)
