"""C23 HTTP11ClientProtocol response handling — connection loss at every byte position.

Monitored (API boundary only): firings of the Deferred returned by HTTP11ClientProtocol.request
(value / failure type), the body protocol's makeConnection / dataReceived / connectionLost calls,
exceptions escaping dataReceived / connectionLost / deliverBody, failures logged meanwhile.
Fault enumeration: for every generated response, the connection is lost after each prefix
response[:k], k = 0..len (all k for responses up to 400 bytes, header region + boundaries + random
positions for longer ones), each with several segmentations and body-delivery policies.

Oracle: a lenient reference reader (this module; RFC 9112 response framing with the request
method as context, LF-only line ends, obs-fold, duplicate equal Content-Length, chunk extensions,
trailers, interim 1xx) applied to the bytes *actually handed to the protocol*:
  * the Deferred fires exactly once: nothing received -> ResponseNeverReceived; final header block
    incomplete or malformed -> ResponseFailed (not ResponseNeverReceived); complete -> a response
    with the reference status code;
  * body protocol: bytes delivered == reference body bytes of the received prefix; connectionLost
    exactly once, nothing after it: ResponseDone iff the body is complete (Content-Length reached,
    last chunk + trailers + CRLF, or HEAD/204/304), PotentialDataLoss for a close-delimited body,
    any other failure for a truncated or malformed one.
The generator's own description of each response and h11 (client role) are cross-checked against
the reference reader on the complete message; a disagreement there is a harness problem and
reported INCONCLUSIVE, never as a violation.

Scenario families on top of the truncation enumeration (each judged only as far as the statement goes):
  two-split  the complete message cut in two at every offset (each framing byte alone at a segment edge);
  flush      the transport honours the parser's pause, holds the following segments and hands them over
             synchronously from inside resumeProducing(); deliverBody() is called after the dataReceived()
             that carried the headers has returned (Content-Length, chunked and close-delimited bodies);
  tx         the request body producer's Deferred is still pending / already .called but its chain waits on
             an unfired Deferred / fired and pause()d while the response arrives, released before, in the
             middle, after the loss or never: the request Deferred must fire exactly once; if it fires with a
             response all body rules apply; which failure it gets otherwise is not judged;
  reentry    the application calls abort() between segments or from the response callback, and
             loseConnection / stopProducing / pauseProducing+resumeProducing / abort() from inside the body
             protocol's dataReceived or connectionLost: same oracle on the bytes delivered;
  raises     the body protocol's dataReceived / connectionLost (or the producer's stopProducing) raise an
             Exception or a BaseException-only class: exactly-once firing, connectionLost at most once and
             nothing after it are judged, the rest is counted (the statement is silent on broken consumers);
  pair       a second request on the same protocol object after a complete first response (persistent or
             closing connection; issued after dataReceived returned or from inside the first body protocol's
             connectionLost(ResponseDone)), the second response truncated at random points: full oracle on
             the second exchange (a documented RequestNotSent refusal is accepted as the failure);
  edges      Content-Length 10^19..10^30, header lines of 8-16 KB, 60-150 header lines, chunk-size lines of
             1000-1023 bytes (the decoder's limit is 1024).

Guards: only clear-cut malformations are generated (non-numeric status code, bad version token,
conflicting / non-numeric Content-Length, header line without colon, bad chunk size, chunk data not
followed by CRLF); the failure type for a truncated body is not prescribed beyond "not ResponseDone,
not PotentialDataLoss"; the simulator honours the transport pause the parser requests (one policy
deliberately keeps delivering a few segments to exercise buffering — the statement allows any
segmentation); when the client closes (response complete, parse error) nothing more is delivered.
"""
import random

LEVEL = "fault_enumeration"
ENGINE = "E2-netsim"
TECHNIQUE = "runtime monitoring: lenient reference response reader on the delivered prefix vs. request Deferred and body-protocol events"
RULE = ("responses from a structured generator (GET/HEAD/POST requests, persistent or not; 0-2 interim 1xx, half of them carrying Content-Length / Transfer-Encoding / Connection headers of their own; HTTP/1.0/1.1; "
        "reason present/empty/missing; CRLF or LF-only line ends; folded headers; Content-Length plain/duplicate/list/"
        "folded/zero-padded, chunked with extensions, padded sizes and trailers (half of them also carrying a Content-Length: true/wrong/0/00/0,0/huge — Transfer-Encoding wins), close-delimited, HEAD/204/304 with stray "
        "framing headers; 25% serialised by h11; clear-cut malformed variants; trailing bytes) x connection loss at every "
        "byte position x segmentations (whole, random, byte-wise) x body-delivery policy (immediate, after return, late "
        "despite pause, after loss, never).  Distinct by (response bytes, k, segment lengths, policy, request method); "
        "non-trivial = k > 0.")
ASSUMPTIONS = ["trusted base: the lenient reference response reader in this module, cross-checked per response with the generator's description and with h11 (client role)",
               "the in-memory transport models a TCP transport: honours pauseProducing, delivers nothing after loseConnection, connectionLost exactly once",
               "while the request is still being transmitted (family tx) only exactly-once firing and, for a delivered response, the body rules are judged"]
SHARDS = {"quick": 4, "thorough": 16}
FLOORS = {"runs": 20000, "truncation_points": 5000, "deferred_response": 5000, "deferred_response_failed": 2000, "deferred_never_received": 200,
          "body_lost_ResponseDone": 1500, "body_lost_PotentialDataLoss": 500, "body_lost_truncated": 1500, "body_bytes_compared": 20000,
          "interim_skipped": 500, "policy_immediate": 1000, "policy_after-return": 1000, "policy_ignore-pause": 500, "policy_after-loss": 1000,
          "h11_crosschecks": 50, "responses_with_framing_headers_on_interim": 20, "malformed_head_runs": 300, "head_or_nobody_runs": 1000,
          "family_two-split": 5000, "family_tx": 1000, "tx_called-waiting": 150, "tx_fired-paused": 150, "tx_unfired": 150,
          "family_reentry": 1000, "reentry_abort": 200, "reentry_pause-resume": 50, "family_raises": 500, "raise_runs": 300,
          "family_pair": 500, "second_exchanges_checked": 300, "edge_responses": 8,
          "responses_chunked_plus_content_length": 12, "family_flush": 1000, "reentrant_flushes_from_resumeProducing": 500,
          "flush_with_cl": 50, "flush_with_chunked": 50, "flush_with_close": 50}
READY = True

NOBODY_CODES = (204, 304)


# --------------------------------------------------------------------------- reference reader
def _decimal(b):
    b = b.strip(b" \t")
    return int(b) if b.isdigit() else None


def ref_chunked(b):
    """-> (payload so far, state) with state in complete / incomplete / malformed.  RFC 9112 7.1."""
    pos = 0
    out = bytearray()
    n = len(b)
    while True:
        i = b.find(b"\r\n", pos)
        if i < 0:
            return bytes(out), "incomplete"
        line = b[pos:i]
        size_part = line.split(b";", 1)[0]
        if not size_part or any(c not in b"0123456789abcdefABCDEF" for c in size_part):
            return bytes(out), "malformed"
        size = int(size_part, 16)
        pos = i + 2
        if size == 0:
            while True:
                j = b.find(b"\r\n", pos)
                if j < 0:
                    return bytes(out), "incomplete"
                if j == pos:
                    return bytes(out), "complete"
                pos = j + 2
        out += b[pos:pos + size]
        if n < pos + size:
            return bytes(out), "incomplete"
        pos += size
        tail = b[pos:pos + 2]
        if len(tail) < 2:
            return bytes(out), "incomplete" if b"\r\n".startswith(tail) else "malformed"
        if tail != b"\r\n":
            return bytes(out), "malformed"
        pos += 2


def ref_parse(data, method):
    """Reference reading of the bytes a client received in answer to `method`."""
    res = {"any": len(data) > 0, "head": "incomplete", "code": None, "interim": 0, "body": b"", "body_state": None, "framing": None}
    pos = 0
    while True:
        lines = []
        while True:
            i = data.find(b"\n", pos)
            if i < 0:
                # an incomplete head may already be malformed, but then the outcome is the same: failure
                return res
            line = data[pos:i]
            pos = i + 1
            if line.endswith(b"\r"):
                line = line[:-1]
            if not line and lines:
                break
            lines.append(line)
        parts = lines[0].split(b" ", 2)
        if len(parts) < 2 or not parts[1].isdigit():
            res["head"] = "malformed"
            return res
        v = parts[0]
        if v != b"HTTP/1.1":
            ok = v.count(b"/") == 1 and v.split(b"/")[1].count(b".") == 1 and all(x.isdigit() for x in v.split(b"/")[1].split(b"."))
            if not ok:
                res["head"] = "malformed"
                return res
        code = int(parts[1])
        headers = []
        for l in lines[1:]:
            if l[:1] in (b" ", b"\t"):
                if not headers:
                    res["head"] = "malformed"
                    return res
                headers[-1] += l
            else:
                headers.append(l)
        fields = []
        for h in headers:
            if b":" not in h:
                res["head"] = "malformed"
                return res
            n, val = h.split(b":", 1)
            fields.append((n.strip().lower(), val.strip()))
        if 100 <= code < 200:
            res["interim"] += 1
            continue
        break
    res["code"] = code
    rest = data[pos:]
    if method == b"HEAD" or code in NOBODY_CODES:
        res.update(head="complete", framing="none", body=b"", body_state="complete")
        return res
    te = [v for n, v in fields if n == b"transfer-encoding"]
    cl = [v for n, v in fields if n == b"content-length"]
    if te:
        if te[0].lower() != b"chunked":
            res["head"] = "malformed"
            return res
        body, st = ref_chunked(rest)
        res.update(head="complete", framing="chunked", body=body, body_state=st)
        return res
    if cl:
        vals = {_decimal(x) for x in b",".join(cl).split(b",")}
        if None in vals or len(vals) != 1:
            res["head"] = "malformed"
            return res
        n = vals.pop()
        res.update(head="complete", framing="content-length", body=rest[:n], body_state="complete" if len(rest) >= n else "incomplete")
        return res
    res.update(head="complete", framing="close", body=rest, body_state="close-delimited")
    return res


# ------------------------------------------------------------------------------------ generator
def _rand_body(rng):
    r = rng.random()
    n = 0 if r < 0.1 else 1 if r < 0.15 else rng.randint(2, 40) if r < 0.7 else rng.randint(41, 300) if r < 0.95 else rng.randint(300, 1500)
    b = bytearray(rng.randrange(256) for _ in range(n))
    if n >= 8 and rng.random() < 0.4:  # framing look-alikes inside the payload
        tok = rng.choice([b"\r\n0\r\n\r\n", b"\r\n\r\n", b"\n\n", b"0\r\n", b"HTTP/1.1 200 OK\r\n"])[: n - 1]
        p = rng.randint(0, n - len(tok))
        b[p:p + len(tok)] = tok
    return bytes(b)


def _chunked_encode(rng, body, malformed, long_line=False):
    out = bytearray()
    pos = 0
    sizes = []
    while pos < len(body):
        k = rng.randint(1, max(1, min(len(body) - pos, rng.choice([1, 3, 16, 64, 400]))))
        sizes.append(k)
        pos += k
    bad_at = rng.randrange(len(sizes)) if (malformed in ("bad-chunk-size", "chunk-no-crlf") and sizes) else None
    pos = 0
    good = bytearray()
    for i, k in enumerate(sizes):
        hx = ("%x" if rng.random() < 0.6 else "%X") % k
        if rng.random() < 0.2:
            hx = "0" * rng.randint(1, 3) + hx
        ext = rng.choice(["", "", "", ";ext", ";a=b", ';q="x y"', ";a=b;c=d"])
        if long_line and i == 0:
            # chunk-size line of 1000..1023 bytes: just below the decoder's 1024-byte limit
            ext = ";x=" + "y" * (rng.choice([1000, 1022, 1023, 1023]) - len(hx) - 3)
        if bad_at == i and malformed == "bad-chunk-size":
            out += rng.choice([b"0x5", b"-1", b"5g", b"", b" 5", b"+5", b"5 "]) + b"\r\n"
            return bytes(out), bytes(good), False
        out += hx.encode() + ext.encode() + b"\r\n" + body[pos:pos + k]
        good += body[pos:pos + k]
        if bad_at == i and malformed == "chunk-no-crlf":
            out += rng.choice([b"XY", b"\n\r", b"\rX", b"ab\r\n"])
            out += b"0\r\n\r\n"
            return bytes(out), bytes(good), False
        out += b"\r\n"
        pos += k
    if malformed in ("bad-chunk-size", "chunk-no-crlf") and bad_at is None:
        out += b"zz\r\n"
        return bytes(out), bytes(good), False
    out += rng.choice([b"0", b"0", b"000", b"0;last=1"]) + b"\r\n"
    for _ in range(rng.choice([0, 0, 0, 1, 2])):
        out += rng.choice([b"X-Trailer: v", b"Checksum: abc123", b"X-T:"]) + b"\r\n"
    out += b"\r\n"
    return bytes(out), bytes(good), True


def gen_response(rng):
    """-> description dict incl. raw bytes and, for the complete message, expected body/state."""
    method = rng.choice([b"GET", b"GET", b"GET", b"HEAD", b"POST"])
    r = rng.random()
    code = rng.choice(NOBODY_CODES) if r < 0.12 else rng.choice([200, 200, 200, 201, 206, 301, 404, 500, 503])
    nobody = method == b"HEAD" or code in NOBODY_CODES
    framing = rng.choice(["cl", "cl", "chunked", "chunked", "close"])
    body = _rand_body(rng)
    malformed = None
    if rng.random() < 0.10:
        malformed = rng.choice(["bad-status-code", "bad-version", "conflicting-cl", "non-numeric-cl", "header-no-colon", "bad-chunk-size", "chunk-no-crlf"])
        if malformed in ("conflicting-cl", "non-numeric-cl"):
            framing, nobody_ok = "cl", False
            if nobody:
                method, code, nobody = b"GET", 200, False
        if malformed in ("bad-chunk-size", "chunk-no-crlf"):
            framing = "chunked"
            if nobody:
                method, code, nobody = b"GET", 200, False
    edge = None
    if malformed is None and rng.random() < 0.07:
        edge = rng.choice(["huge-content-length", "long-header-line", "many-headers", "long-chunk-size-line"])
        if edge in ("huge-content-length", "long-chunk-size-line"):
            if nobody:
                method, code, nobody = b"GET", 200, False
            framing = "cl" if edge == "huge-content-length" else "chunked"
            if edge == "long-chunk-size-line" and not body:
                body = b"payload"
    eol = b"\r\n" if rng.random() < 0.8 else b"\n"
    version = b"HTTP/1.1" if rng.random() < 0.8 else rng.choice([b"HTTP/1.0", b"HTTP/1.1", b"HTTP/2.0", b"ICY/1.0"])
    reason = rng.choice([b" OK", b" OK", b"", b" ", b" Not Found", b" Multi Word Reason ", b" \xe9"])
    raw = bytearray()
    n_interim = rng.choice([0, 0, 0, 0, 0, 1, 1, 1, 2])
    n_framed_interim = 0
    for _ in range(n_interim):
        ie = eol if rng.random() < 0.8 else (b"\n" if eol == b"\r\n" else b"\r\n")
        raw += b"HTTP/1.1 " + rng.choice([b"100 Continue", b"102 Processing", b"103 Early Hints", b"100", b"199 "]) + ie
        for _ in range(rng.choice([0, 0, 1, 2])):
            raw += rng.choice([b"Link: </s.css>; rel=preload", b"X-Interim: 1", b"Server: i"]) + ie
        if rng.random() < 0.5:
            # framing / connection-control headers carried by the interim response itself: a 1xx response
            # never has a body and its header fields must not influence how the final response is framed
            pool = [rng.choice([b"Content-Length: 0", b"Content-Length: %d" % rng.choice([1, 5, 7, 1000]), b"content-length: 3"]),
                    b"Transfer-Encoding: chunked", b"Connection: close", b"Connection: keep-alive", b"Keep-Alive: timeout=5",
                    b"Upgrade: h2c", b"Trailer: X-T", b"TE: trailers", b"Proxy-Connection: close"]
            picks = rng.sample(pool, rng.choice([1, 1, 2, 3]))
            if rng.random() < 0.6 and pool[0] not in picks:
                picks[0] = pool[0]
            for hline in picks:
                raw += hline + ie
            n_framed_interim += 1
        raw += ie
    status_code = b"%d" % code
    if malformed == "bad-status-code":
        status_code = rng.choice([b"2xx", b"abc", b"", b"20O", b"-200x"])
    if malformed == "bad-version":
        version = rng.choice([b"HTTP/1", b"HTTP/x.y", b"HTTP1.1", b"HTTP/1.1.1", b"HTTP/"])
    raw += version + b" " + status_code + reason + eol
    hdrs = []
    for _ in range(rng.choice([0, 1, 2, 3, 4])):
        name, val = rng.choice([(b"Server", b"ref/1.0"), (b"Date", b"Mon, 01 Jan 2024 00:00:00 GMT"), (b"X-Foo", b"bar baz"), (b"Content-Type", b"text/plain; charset=utf-8"),
                                (b"Set-Cookie", b"a=b; Path=/"), (b"X-Empty", b""), (b"x-lower", b"\xe9\xff"), (b"Connection", b"keep-alive"), (b"Connection", b"close"),
                                (b"ETag", b'"x:y"')])
        style = rng.random()
        if style < 0.15 and b" " in val:
            a, b2 = val.split(b" ", 1)
            hdrs.append(name + b": " + a + eol + rng.choice([b" ", b"\t", b"   "]) + b2)  # obs-fold
        elif style < 0.3:
            hdrs.append(name + b":" + val)
        elif style < 0.4:
            hdrs.append(name + b":  " + val + b"  ")
        else:
            hdrs.append(name + b": " + val)
    if edge == "long-header-line":
        hdrs.append(b"X-Long: " + b"v" * rng.choice([8000, 15000, 16000, 16300]))
    elif edge == "many-headers":
        hdrs += [b"X-N%d: %d" % (i, i) for i in range(rng.choice([60, 150]))]
    n = len(body)
    fr = []
    conflicting_framing = False
    if framing == "cl":
        st = rng.random()
        if edge == "huge-content-length":
            fr = [b"Content-Length: %d" % rng.choice([10 ** 19, 2 ** 64 + n, 10 ** 30])]
        elif malformed == "conflicting-cl":
            fr = rng.choice([[b"Content-Length: %d" % n, b"Content-Length: %d" % (n + 1)], [b"Content-Length: %d, %d" % (n, n + 2)]])
        elif malformed == "non-numeric-cl":
            fr = [b"Content-Length: " + rng.choice([b"12a", b"-5", b"+5", b"abc", b"1.0", b"0x10", b""])]
        elif st < 0.5:
            fr = [b"Content-Length: %d" % n]
        elif st < 0.6:
            fr = [b"Content-Length: %d" % n, b"content-length: %d" % n]
        elif st < 0.7:
            fr = [b"Content-Length: %d, %d" % (n, n)]
        elif st < 0.78:
            fr = [b"Content-Length: %d,0%d" % (n, n)]
        elif st < 0.86:
            fr = [b"Content-Length:" + eol + b" %d" % n]
        elif st < 0.93:
            fr = [b"CONTENT-LENGTH:   00%d  " % n]
        else:
            fr = [b"Content-Length:%d" % n]
    elif framing == "chunked":
        fr = [rng.choice([b"Transfer-Encoding: chunked", b"Transfer-Encoding: chunked", b"transfer-encoding: Chunked", b"Transfer-Encoding:chunked"])]
        if rng.random() < 0.5:
            # conflicting framing: RFC 9112 6.3 — Transfer-Encoding overrides any Content-Length, whatever its value
            fr.append(b"Content-Length: " + rng.choice([b"%d" % (n + 7), b"%d" % n, b"0", b"0", b"00", b"0, 0", b"0,0", b"1", b"%d" % (10 ** 20)]))
            if rng.random() < 0.2:
                fr.append(fr[-1])
            conflicting_framing = True
    if nobody and rng.random() < 0.6:
        fr = fr if rng.random() < 0.7 else []
    elif nobody:
        fr = []
    allh = hdrs + fr
    rng.shuffle(allh)
    if malformed == "header-no-colon":
        allh.insert(rng.randint(0, len(allh)), rng.choice([b"NoColonHere", b"HTTP/1.1 200 OK", b"garbage line"]))
    for h in allh:
        raw += h + eol
    raw += eol
    hdr_end = len(raw)
    exp_body, complete_state = b"", "complete"
    if nobody:
        pass
    elif framing == "cl":
        raw += body
        exp_body = body
        if edge == "huge-content-length":
            complete_state = "incomplete"
    elif framing == "chunked":
        enc, good, ok = _chunked_encode(rng, body, malformed, long_line=(edge == "long-chunk-size-line"))
        raw += enc
        exp_body, complete_state = good, ("complete" if ok else "malformed")
    else:
        raw += body
        exp_body, complete_state = body, "close-delimited"
    msg_end = len(raw)
    if (framing != "close" or nobody) and edge != "huge-content-length":
        if rng.random() < 0.12:
            raw += rng.choice([b"HTTP/1.1 200 OK\r\nContent-Length: 2\r\n\r\nhi", b"\r\n", b"garbage", b"0\r\n\r\n"])
    head_malformed = malformed in ("bad-status-code", "bad-version", "conflicting-cl", "non-numeric-cl", "header-no-colon")
    return {"method": method, "code": code, "framing": "none" if nobody else framing, "malformed": malformed, "raw": bytes(raw), "hdr_end": hdr_end,
            "msg_end": msg_end, "exp_body": exp_body, "complete_state": complete_state, "head_malformed": head_malformed, "interim": n_interim,
            "framed_interim": n_framed_interim, "edge": edge, "conflicting_framing": conflicting_framing and not nobody,
            "persistent": rng.random() < 0.3, "source": "generator"}


def gen_h11_response(rng):
    """A canonical response serialised by h11 (server role)."""
    import h11

    method = rng.choice([b"GET", b"GET", b"HEAD", b"POST"])
    code = rng.choice([200, 200, 404, 204, 304, 201])
    http10 = rng.random() < 0.25
    c = h11.Connection(h11.SERVER)
    c.receive_data(method + b" / " + (b"HTTP/1.0" if http10 else b"HTTP/1.1") + b"\r\nHost: h\r\n" + (b"Content-Length: 0\r\n" if method == b"POST" else b"") + b"\r\n")
    while True:
        e = c.next_event()
        if e is h11.NEED_DATA or isinstance(e, h11.EndOfMessage):
            break
    raw = bytearray()
    n_interim = 0
    framed_interim = 0
    if rng.random() < 0.25 and not http10:
        ih = [(b"X-Interim", b"1")]
        if rng.random() < 0.5:
            ih.append(rng.choice([(b"Content-Length", b"0"), (b"Content-Length", b"4"), (b"Connection", b"close"), (b"Keep-Alive", b"timeout=5")]))
            framed_interim = 1
        raw += c.send(h11.InformationalResponse(status_code=rng.choice([100, 102, 103]), headers=ih))
        n_interim = 1
    body = _rand_body(rng)
    nobody = method == b"HEAD" or code in NOBODY_CODES
    headers = [(b"Server", b"h11"), (b"X-Foo", b"bar")]
    use_cl = rng.random() < 0.5
    if use_cl and code not in NOBODY_CODES:
        headers.append((b"Content-Length", b"%d" % len(body)))
    raw += c.send(h11.Response(status_code=code, headers=headers, reason=rng.choice([b"OK", b"", b"Whatever"])))
    hdr_end = len(raw)
    if not nobody:
        pos = 0
        while pos < len(body):
            k = rng.randint(1, max(1, len(body) - pos))
            raw += c.send(h11.Data(data=body[pos:pos + k]))
            pos += k
    raw += c.send(h11.EndOfMessage())
    framing = "none" if nobody else "cl" if use_cl else "close" if http10 else "chunked"
    return {"method": method, "code": code, "framing": framing, "malformed": None, "raw": bytes(raw), "hdr_end": hdr_end, "msg_end": len(raw),
            "exp_body": b"" if nobody else body, "complete_state": "close-delimited" if framing == "close" else "complete", "head_malformed": False,
            "interim": n_interim, "framed_interim": framed_interim, "persistent": rng.random() < 0.3, "source": "h11"}


def h11_client_view(desc):
    """(code, body, ended) as h11 in the client role reads the complete message, or None if it refuses."""
    import h11

    c = h11.Connection(h11.CLIENT, max_incomplete_event_size=1 << 20)
    try:
        c.send(h11.Request(method=desc["method"], target=b"/", headers=[(b"Host", b"h")] + ([(b"Content-Length", b"0")] if desc["method"] == b"POST" else [])))
        c.send(h11.EndOfMessage())
        c.receive_data(desc["raw"][:desc["msg_end"]])
        if desc["framing"] == "close":
            c.receive_data(b"")
        code, body, ended = None, bytearray(), False
        for _ in range(100000):
            e = c.next_event()
            if e is h11.NEED_DATA or e is h11.PAUSED:
                break
            if isinstance(e, h11.Response):
                code = e.status_code
            elif isinstance(e, h11.Data):
                body += e.data
            elif isinstance(e, h11.EndOfMessage):
                ended = True
                break
            elif isinstance(e, h11.ConnectionClosed):
                break
        return code, bytes(body), ended
    except h11.ProtocolError:
        return None


# -------------------------------------------------------------------------------------- harness
_LOGGING_BEGUN = [False]


def _attach_log_observer(obs):
    """Make `obs` a global log observer.  The first call *begins* logging with it, which also switches off twisted's
    temporary stderr printer of critical events: a shard that prints a traceback per provoked failure fills its
    stdout pipe and then blocks until the runner gets round to reading it (shards would run one after the other)."""
    from twisted.logger import globalLogBeginner, globalLogPublisher

    if not _LOGGING_BEGUN[0]:
        _LOGGING_BEGUN[0] = True
        globalLogBeginner.beginLoggingTo([obs], redirectStandardIO=False, discardBuffer=True)
    else:
        globalLogPublisher.addObserver(obs)



class Boom(BaseException):
    """An application error that is not an Exception (pattern: call-outs guarded by `except Exception` only)."""


class Ex:
    """One request/response exchange as the application sees it."""

    def __init__(self, desc, policy, budget):
        self.desc, self.policy, self.budget = desc, policy, budget
        self.fired = []
        self.body = None
        self.resp = None
        self.delivered = False
        self.received = bytearray()
        self.tx = None
        self.queue = []
        self.nfed = 0


class Harness:
    def __init__(self):
        from twisted.internet import error
        from twisted.internet.protocol import Protocol
        from twisted.logger import globalLogPublisher
        from twisted.python.failure import Failure
        from twisted.web import _newclient
        from twisted.web.http import PotentialDataLoss
        from twisted.web.http_headers import Headers
        from vf.engines.logcap import LogCapture
        from vf.engines.netsim import SimTransport

        self.nc, self.Failure, self.error, self.Headers, self.SimTransport = _newclient, Failure, error, Headers, SimTransport
        self.PotentialDataLoss = PotentialDataLoss
        self.log = LogCapture()
        self.pub = globalLogPublisher
        _attach_log_observer(self.log)

        class Body(Protocol):
            def __init__(s, hooks=None):
                s.data = bytearray()
                s.lost = []
                s.made = 0
                s.after_lost = 0
                s.calls = 0
                s.hooks = hooks or {}

            def makeConnection(s, transport):
                s.made += 1
                Protocol.makeConnection(s, transport)

            def dataReceived(s, data):
                if s.lost:
                    s.after_lost += 1
                s.data += data
                s.calls += 1
                hk = s.hooks.get("data")
                if hk is not None and s.calls == hk[0]:
                    hk[1](s)

            def connectionLost(s, reason):
                s.lost.append(reason)
                hk = s.hooks.get("lost")
                if hk is not None and len(s.lost) == 1:
                    hk(s, reason)

        self.Body = Body
        self._P = None

        class HoldingTransport(SimTransport):
            """With .on_resume set: a transport that holds what arrives while the protocol has it paused and hands it
            over synchronously from inside resumeProducing() (TLS transports behave like this)."""

            on_resume = None

            def resumeProducing(s):
                SimTransport.resumeProducing(s)
                if s.on_resume is not None:
                    s.on_resume()

        self.HoldingTransport = HoldingTransport

    def close(self):
        try:
            self.pub.removeObserver(self.log)
        except ValueError:
            pass

    def producer(self, kind="done", raise_in=None):
        """A 5-byte body producer.  kind: how the Deferred returned by startProducing looks —
        done (fired), unfired, called-waiting (.called is True but its chain waits on an unfired Deferred),
        fired-paused (fired, then pause()d).  .release() lets the chain run."""
        if self._P is None:
            from twisted.internet.defer import Deferred, succeed
            from twisted.web.iweb import IBodyProducer
            from zope.interface import implementer

            @implementer(IBodyProducer)
            class P:
                length = 5

                def __init__(s, kind, raise_in):
                    s.kind, s.raise_in = kind, raise_in
                    s.stopped = 0
                    s.released = False

                def startProducing(s, consumer):
                    consumer.write(b"hello")
                    kind = s.kind
                    if kind == "done":
                        s._release = lambda: None
                        return succeed(None)
                    if kind == "unfired":
                        d = Deferred()
                        s._release = lambda: d.callback(None)
                        return d
                    if kind == "called-waiting":
                        inner = Deferred()
                        d = succeed(None)
                        d.addCallback(lambda _: inner)
                        s._release = lambda: inner.callback(None)
                        return d
                    d = succeed(None)  # fired-paused
                    d.pause()
                    s._release = d.unpause
                    return d

                def release(s):
                    if not s.released:
                        s.released = True
                        s._release()

                def pauseProducing(s):
                    pass

                def resumeProducing(s):
                    pass

                def stopProducing(s):
                    s.stopped += 1
                    if s.raise_in == "stopProducing":
                        raise RuntimeError("producer.stopProducing raises")

            self._P = P
        return self._P(kind, raise_in)

    def run(self, desc, segs, policy, budget, loss_kind, scn=None):
        """scn (all optional): tx=[kind, release, mid_at]; reentry=[where, action, at]; raises=[where, exc, at];
        second={desc, segs, policy, where}."""
        scn = scn or {}
        nc = self.nc
        del self.log.events[:]
        proto = nc.HTTP11ClientProtocol()
        t = self.HoldingTransport()
        proto.makeConnection(t)
        escaped = []
        notes = {"abort_fired": 0, "aborts": 0, "second_started": False, "resumes": 0, "in_data_received": 0, "reentrant_flushes": 0, "cur": None}
        exs = []
        want_resume = []

        def make_hooks(ex):
            hooks = {}
            re_, ra = scn.get("reentry"), scn.get("raises")

            def action(name):
                def act(b, *a):
                    if name == "loseConnection":
                        b.transport.loseConnection()
                    elif name == "stopProducing":
                        b.transport.stopProducing()
                    elif name == "pause-resume":
                        b.transport.pauseProducing()
                        want_resume.append(b)
                    elif name == "abort":
                        notes["aborts"] += 1
                        proto.abort().addCallback(lambda _: notes.__setitem__("abort_fired", notes["abort_fired"] + 1))
                    elif name == "resume":
                        b.transport.resumeProducing()
                return act

            first = ex is exs[0]
            if re_ is not None and first:
                where, name, at = re_
                if where == "body-data":
                    hooks["data"] = (at, action(name))
                elif where == "body-lost":
                    hooks["lost"] = action(name)
            if ra is not None and first:
                where, exc, at = ra
                cls = Boom if exc == "BaseException" else RuntimeError

                def boom(b, *a):
                    raise cls("application code raises in %s" % where)

                if where == "body-data":
                    hooks["data"] = (at, boom)
                elif where == "body-lost":
                    hooks["lost"] = boom
            return hooks

        def deliver(ex):
            ex.delivered = True
            try:
                ex.resp.deliverBody(ex.body)
            except BaseException as e:
                escaped.append("deliverBody: %s: %s" % (type(e).__name__, e))

        def start(ex):
            d = ex.desc
            prod = None
            method = d["method"]
            tx = scn.get("tx") if not exs else None
            if tx is not None:
                method = b"POST" if method != b"HEAD" else method
                ra = scn.get("raises")
                prod = self.producer(tx[0], "stopProducing" if ra is not None and ra[0] == "stopProducing" else None)
                ex.tx = prod
            elif method == b"POST":
                prod = self.producer()
            exs.append(ex)
            ex.body = self.Body(make_hooks(ex))
            req = nc.Request(method, b"/", self.Headers({b"host": [b"h"]}), prod, persistent=d["persistent"])

            def on_resp(r):
                ex.fired.append(("response", r))
                ex.resp = r
                re_ = scn.get("reentry")
                if re_ is not None and re_[0] == "response-cb" and ex is exs[0]:
                    if re_[1] == "abort":
                        notes["aborts"] += 1
                        proto.abort().addCallback(lambda _: notes.__setitem__("abort_fired", notes["abort_fired"] + 1))
                    elif re_[1] == "loseConnection":
                        t.loseConnection()
                if ex.policy == "immediate":
                    deliver(ex)
                return None

            def on_fail(f):
                ex.fired.append(("failure", f))
                return None

            proto.request(req).addCallbacks(on_resp, on_fail)
            if tx is not None and tx[1] == "before":
                prod.release()

        def feed(ex, segs):
            ex.queue = list(segs)
            notes["cur"] = ex
            pump(ex)
            if ex.tx is not None and scn["tx"][1] == "mid":
                ex.tx.release()
            if ex.policy == "ignore-pause" and ex.resp is not None and not ex.delivered:
                deliver(ex)

        def flush_held():
            # called from inside transport.resumeProducing(): deliver the held segments now, unless we are inside the
            # dataReceived() call of an outer delivery (which then simply goes on)
            ex = notes.get("cur")
            if ex is not None and not notes["in_data_received"] and ex.queue and not t.reading_paused:
                before = len(ex.queue)
                pump(ex)
                if len(ex.queue) < before:
                    notes["reentrant_flushes"] += 1

        if scn.get("flush"):
            t.on_resume = flush_held

        def pump(ex):
            while ex.queue:
                seg = ex.queue[0]
                n = ex.nfed
                if want_resume and t.reading_paused:
                    b = want_resume.pop()
                    notes["resumes"] += 1
                    b.transport.resumeProducing()
                if t.disconnecting:
                    break
                if not ex.queue or ex.queue[0] is not seg:
                    continue  # a re-entrant flush (resume above) already took it
                if t.reading_paused:
                    if ex.policy == "ignore-pause" and ex.budget > 0:
                        ex.budget -= 1
                    else:
                        break
                if ex.tx is not None and scn["tx"][1] == "mid" and n == scn["tx"][2]:
                    ex.tx.release()
                re_ = scn.get("reentry")
                if re_ is not None and re_[0] == "between" and n == re_[2] and ex is exs[0] and not notes["aborts"]:
                    notes["aborts"] += 1
                    proto.abort().addCallback(lambda _: notes.__setitem__("abort_fired", notes["abort_fired"] + 1))
                    if t.disconnecting:
                        break
                ex.queue.pop(0)
                ex.nfed += 1
                ex.received += seg
                notes["in_data_received"] += 1
                try:
                    proto.dataReceived(seg)
                except BaseException as e:
                    escaped.append("dataReceived: %s: %s" % (type(e).__name__, e))
                finally:
                    notes["in_data_received"] -= 1
                if ex.policy == "after-return" and ex.resp is not None and not ex.delivered:
                    deliver(ex)

        ex1 = Ex(desc, policy, budget)
        sec = scn.get("second")
        ex2 = None
        if sec is not None and sec["where"] == "in-body-lost":
            def start_second(b, reason):
                if reason.check(nc.ResponseDone) and not notes["second_started"]:
                    notes["second_started"] = True
                    start(ex2)
            ex2 = Ex(sec["desc"], sec["policy"], 2)
            scn_hooks_second = start_second
        start(ex1)
        if sec is not None and sec["where"] == "in-body-lost":
            ex1.body.hooks["lost"] = scn_hooks_second
        feed(ex1, segs)
        if sec is not None:
            if sec["where"] == "after-return" and proto.state == "QUIESCENT":
                ex2 = Ex(sec["desc"], sec["policy"], 2)
                notes["second_started"] = True
                start(ex2)
            if notes["second_started"]:
                feed(ex2, sec["segs"])
            else:
                ex2 = None
        reason = self.Failure(self.error.ConnectionDone("closed") if loss_kind == 0 else self.error.ConnectionLost("reset"))
        try:
            proto.connectionLost(reason)
        except BaseException as e:
            escaped.append("connectionLost: %s: %s" % (type(e).__name__, e))
        for ex in exs:
            if ex.policy == "after-loss" and ex.resp is not None and not ex.delivered:
                deliver(ex)
        if ex1.tx is not None and scn["tx"][1] == "after-loss":
            try:
                ex1.tx.release()
            except BaseException as e:
                escaped.append("release: %s: %s" % (type(e).__name__, e))
        if escaped or any(not ex.fired for ex in exs):
            # anomaly: collect now, so that an "Unhandled error in Deferred" is logged within the run that caused it
            import gc

            del proto, t, reason
            gc.collect()
        logged = self.log.failures()
        return {"ex1": ex1, "ex2": ex2, "escaped": escaped, "logged": logged, "notes": notes, "scn": scn}


def check(ctx, h, ex, k, segs, out, which="first"):
    """Judge one exchange.  Scenario families restrict the judgement to what the statement covers:
    tx (request still being transmitted): exactly-once always; a response is judged fully, a failure's type is not;
    raises (application code raises): exactly-once, connectionLost at most once, nothing after it."""
    desc, policy = ex.desc, ex.policy
    received, fired, body = bytes(ex.received), ex.fired, ex.body
    scn = out["scn"]
    escaped, logged = out["escaped"], out["logged"]
    nc = h.nc
    ref = ref_parse(received, desc["method"])
    ctx.count("runs")
    ctx.count("policy_" + policy)
    tx = scn.get("tx") if which == "first" else None
    tx_live = tx is not None and tx[1] != "before"
    raises = scn.get("raises")
    wit = {"method": desc["method"], "persistent": desc["persistent"], "response": desc["raw"], "response_latin1": desc["raw"].decode("latin-1"),
           "source": desc["source"], "framing": desc["framing"], "malformed": desc["malformed"], "exchange": which,
           "scenario": {x: scn[x] for x in ("tx", "reentry", "raises", "flush") if scn.get(x) is not None},
           "lost_after_k": k, "segment_lengths": [len(s) for s in segs][:60], "policy": policy, "bytes_delivered_to_protocol": len(received),
           "reference": {x: ref[x] for x in ("head", "code", "interim", "framing", "body_state")}, "reference_body_length": len(ref["body"]),
           "deferred": [(kind, type(v.value).__name__ if kind == "failure" else "code %s" % v.code) for kind, v in fired],
           "body_protocol": {"made": body.made, "bytes": len(body.data), "lost": [type(r.value).__name__ for r in body.lost], "data_after_lost": body.after_lost}}
    if scn.get("second") is not None:
        s2 = scn["second"]
        wit["second"] = {"response_latin1": s2["desc"]["raw"].decode("latin-1"), "method": s2["desc"]["method"], "persistent": s2["desc"]["persistent"],
                         "k2": s2["k2"], "segment_lengths": [len(x) for x in s2["segs"]][:60], "policy": s2["policy"], "where": s2["where"],
                         "started": out["notes"]["second_started"]}

    def bad(key, what, **kw):
        w = dict(wit)
        w.update(kw)
        ctx.violation(key, what, w)
        return False

    if raises is not None:
        # the application raised on purpose: its own exception may be logged or (BaseException) escape
        escaped = [e for e in escaped if "application code raises" not in e and "producer.stopProducing raises" not in e]
        logged = [l for l in logged if "application code raises" not in l[1] and "producer.stopProducing raises" not in l[1]]
        if out["escaped"] != escaped:
            ctx.count("app_exception_escaped_unjudged")
    stranded = any("'NoneType' object has no attribute 'errback'" in e for e in escaped) or \
        any(l[0] == "AttributeError" and "'NoneType' object has no attribute 'chainDeferred'" in l[1] for l in logged)
    if tx_live and not fired and stranded:
        return bad("transmitting-parse-error-strands-request-deferred",
                   "an unparseable response arrives while the request body is still being produced: the parser is dropped without "
                   "connecting its Deferred to the request Deferred, which then never fires (connectionLost raises AttributeError)",
                   escaped=escaped[:3], logged=logged[:3])
    if (out["notes"]["aborts"] and ref["framing"] == "close" and ex.delivered and not body.lost
            and any(l[0] == "RuntimeError" and "finishResponse method in state ABORTING" in l[1] for l in logged)):
        return bad("abort-close-delimited-body-never-finished",
                   "abort() while a close-delimited body is being received: the end-of-body notification has no handler in state "
                   "ABORTING, the RuntimeError is logged and the body protocol never gets connectionLost", logged=logged[:2])
    if escaped:
        return bad("exception-escaped", "an exception escaped the protocol", escaped=escaped[:3])
    if logged:
        return bad("logged-failure", "a failure was logged while handling the response: %s" % (logged[0][0],), logged=logged[:3])
    if len(fired) == 0:
        return bad("deferred-never-fired", "the request Deferred did not fire although the connection was lost")
    if len(fired) > 1:
        return bad("deferred-fired-twice", "the request Deferred's callbacks ran more than once")
    kind, val = fired[0]
    ctx.count("interim_skipped", ref["interim"])
    if raises is not None:
        ctx.count("raise_runs")
        if len(body.lost) > 1:
            return bad("body-connectionlost-count", "body protocol connectionLost called %d times" % len(body.lost))
        if body.after_lost:
            return bad("body-data-after-connectionlost", "dataReceived on the body protocol after its connectionLost")
        if kind == "response" and ref["head"] != "complete":
            return bad("response-before-headers-complete", "the Deferred fired with a response although the final header block is %s" % ref["head"])
        return True
    if tx_live:
        ctx.count("tx_runs")
        ctx.count("tx_" + tx[0])
        if kind == "failure":
            ctx.seen("tx_failure_kinds", type(val.value).__name__)
            ctx.count("tx_failures_unjudged")
            return True
    if which == "second" and not ref["any"] and kind == "failure" and val.check(nc.RequestNotSent):
        ctx.count("second_request_not_sent")  # documented refusal of request(): a failure, which is all the statement asks
        return True
    if not ref["any"]:
        if kind != "failure" or not val.check(nc.ResponseNeverReceived):
            return bad("never-received-mismatch", "no byte was received but the Deferred did not fail with ResponseNeverReceived",
                       failure=type(val.value).__name__ if kind == "failure" else None)
        ctx.count("deferred_never_received")
        return True
    if ref["head"] != "complete":
        if ref["head"] == "malformed":
            ctx.count("malformed_head_runs")
        if kind != "failure":
            return bad("response-before-headers-complete", "the Deferred fired with a response although the final header block is %s" % ref["head"])
        if not val.check(nc.ResponseFailed) or val.check(nc.ResponseNeverReceived):
            return bad("wrong-failure-type", "bytes were received, the header block is %s: expected ResponseFailed (not ResponseNeverReceived)" % ref["head"],
                       failure=type(val.value).__name__)
        ctx.count("deferred_response_failed")
        return True
    if kind != "response":
        return bad("failure-after-complete-headers", "the final header block arrived completely and well-formed but the Deferred failed",
                   failure=type(val.value).__name__, failure_text=val.getErrorMessage()[:200])
    if val.code != ref["code"]:
        return bad("status-code-mismatch", "response.code differs from the reference status code", got=val.code)
    ctx.count("deferred_response")
    if ref["framing"] == "none":
        ctx.count("head_or_nobody_runs")
    if not ex.delivered:
        ctx.count("no_body_protocol_runs")
        return True
    if body.made != 1:
        return bad("body-makeconnection-count", "body protocol makeConnection called %d times" % body.made)
    if bytes(body.data) != ref["body"]:
        n = 0
        while n < min(len(body.data), len(ref["body"])) and body.data[n] == ref["body"][n]:
            n += 1
        return bad("body-bytes-mismatch", "bytes delivered to the body protocol differ from the body bytes received",
                   delivered_length=len(body.data), first_difference_at=n)
    ctx.count("body_bytes_compared", len(ref["body"]))
    if body.after_lost:
        return bad("body-data-after-connectionlost", "dataReceived on the body protocol after its connectionLost")
    if len(body.lost) != 1:
        return bad("body-connectionlost-count", "body protocol connectionLost called %d times (expected exactly once)" % len(body.lost))
    reason = body.lost[0]
    state = ref["body_state"]
    if state == "complete":
        if not reason.check(nc.ResponseDone):
            return bad("complete-body-not-ResponseDone", "the whole body arrived but connectionLost got %s" % type(reason.value).__name__)
        ctx.count("body_lost_ResponseDone")
    elif state == "close-delimited":
        if not reason.check(h.PotentialDataLoss):
            return bad("close-delimited-not-PotentialDataLoss", "close-delimited body: connectionLost got %s" % type(reason.value).__name__)
        ctx.count("body_lost_PotentialDataLoss")
    else:
        if reason.check(nc.ResponseDone, h.PotentialDataLoss):
            return bad("truncated-body-reported-%s" % type(reason.value).__name__,
                       "the body is %s but connectionLost got %s" % (state, type(reason.value).__name__))
        ctx.seen("truncated_reason_types", type(reason.value).__name__)
        ctx.count("body_lost_truncated")
    if out["notes"]["aborts"] and out["notes"]["abort_fired"] != out["notes"]["aborts"]:
        ctx.count("abort_deferred_not_fired_unjudged")
    return True


# ----------------------------------------------------------------------------------- workload
POLICIES = ["immediate"] * 7 + ["after-return"] * 4 + ["ignore-pause"] * 3 + ["after-loss"] * 3 + ["never"] * 3
DELIVERING = ["immediate", "immediate", "after-return", "ignore-pause"]
TX_KINDS = ["unfired", "called-waiting", "fired-paused"]
TX_RELEASE = ["before", "mid", "mid", "after-loss", "never"]
REENTRY = [("between", "abort"), ("between", "abort"), ("body-data", "loseConnection"), ("body-data", "stopProducing"), ("body-data", "pause-resume"), ("body-data", "abort"),
           ("body-data", "resume"), ("body-lost", "loseConnection"), ("body-lost", "abort"), ("body-lost", "stopProducing"),
           ("response-cb", "abort"), ("response-cb", "loseConnection")]
RAISES = [("body-data", "Exception"), ("body-data", "BaseException"), ("body-lost", "Exception"), ("body-lost", "BaseException"), ("stopProducing", "Exception")]


def split_random(rng, data):
    from vf.engines.netsim import random_split

    return random_split(rng, data) if data else []


def selfcheck(ctx, desc):
    """Generator description and h11 vs. the reference reader, on the complete message.  False = harness problem."""
    full = desc["raw"][:desc["msg_end"]]
    ref = ref_parse(full, desc["method"])
    if desc["head_malformed"]:
        ok = ref["head"] == "malformed"
    else:
        ok = ref["head"] == "complete" and ref["body"] == desc["exp_body"] and ref["body_state"] == desc["complete_state"] and ref["code"] == desc["code"] \
            and ref["interim"] == desc["interim"]
    if not ok:
        ctx.inconclusive("harness: generator description and reference reader disagree on %r (malformed=%s): %r" % (full[:200], desc["malformed"], {x: ref[x] for x in ("head", "code", "body_state", "interim")}))
        return False
    if desc["malformed"] is None and len(full) < 20000:
        v = h11_client_view(desc)
        if v is None:
            ctx.count("h11_refused")
        else:
            ctx.count("h11_crosschecks")
            code, body, ended = v
            if code != ref["code"] or body != ref["body"] or (ended != (ref["body_state"] in ("complete", "close-delimited"))):
                ctx.inconclusive("harness: h11 and the reference reader disagree on %r: h11=(%s, %d bytes, ended=%s) ref=(%s, %d bytes, %s)"
                                 % (full[:200], code, len(body), ended, ref["code"], len(ref["body"]), ref["body_state"]))
                return False
    return True


def positions(rng, desc):
    n = len(desc["raw"])
    if n <= 400:
        return list(range(n + 1))
    ks = set(range(min(n, desc["hdr_end"] + 40, 500) + 1))
    ks.update(range(max(0, desc["hdr_end"] - 20), min(n, desc["hdr_end"] + 40) + 1))
    ks.update(range(max(0, desc["msg_end"] - 12), n + 1))
    ks.update(rng.randrange(n + 1) for _ in range(60))
    return sorted(ks)


def one(ctx, h, desc, rng, k, segs, policy, scn=None, family="base"):
    out = h.run(desc, segs, policy, rng.randint(1, 4), rng.randrange(2), scn)
    ctx.evaluated()
    if k > 0:
        sig = None if not scn else repr({x: (v if x != "second" else (v["desc"]["raw"], v["k2"], v["where"], v["policy"])) for x, v in scn.items()})
        ctx.distinct((desc["raw"], k, tuple(len(s) for s in segs), policy, desc["method"], desc["persistent"], sig))
    ctx.count("family_" + family)
    check(ctx, h, out["ex1"], k, segs, out)
    if out["ex2"] is not None:
        ctx.count("second_exchanges_checked")
        s2 = scn["second"]
        check(ctx, h, out["ex2"], s2["k2"], s2["segs"], out, which="second")
    return out


def variants_for(rng, prefix):
    k = len(prefix)
    v = [[prefix] if prefix else []]
    if k > 1:
        v.append(split_random(rng, prefix))
    return v


def run_response(ctx, h, desc, rng, sample=False):
    if not selfcheck(ctx, desc):
        return
    ctx.count("responses")
    if desc.get("framed_interim"):
        ctx.count("responses_with_framing_headers_on_interim")
    if desc.get("conflicting_framing"):
        ctx.count("responses_chunked_plus_content_length")
    if desc.get("edge"):
        ctx.count("edge_responses")
        ctx.seen("edges", desc["edge"])
    ctx.count("responses_" + desc["source"])
    ctx.seen("framings", desc["framing"] + ("/" + desc["malformed"] if desc["malformed"] else ""))
    raw = desc["raw"]
    n = len(raw)
    plan = [(k, None) for k in positions(rng, desc)]
    # the loss-free ends (whole message, whole message + trailing bytes) under every delivery policy
    for k in sorted({desc["msg_end"], n}):
        plan += [(k, p) for p in ("immediate", "after-return", "ignore-pause", "after-loss", "never")]
    for k, forced in plan:
        if forced is None:
            ctx.count("truncation_points")
        prefix = raw[:k]
        variants = variants_for(rng, prefix)
        if 1 < k <= 120 and rng.random() < 0.15:
            variants.append([prefix[i:i + 1] for i in range(k)])
        for segs in variants:
            policy = forced or rng.choice(POLICIES)
            out = one(ctx, h, desc, rng, k, segs, policy)
            if sample and k == n and segs is variants[0]:
                ex = out["ex1"]
                ctx.sample({"method": desc["method"], "response": raw[:300], "lost_after_k": k, "policy": policy,
                            "deferred": [(kd, type(v.value).__name__ if kd == "failure" else "code %s" % v.code) for kd, v in ex.fired],
                            "body_bytes": len(ex.body.data), "body_lost": [type(r.value).__name__ for r in ex.body.lost]})
    # ---- every two-piece split of the complete message (each boundary byte alone on one side)
    if n <= 170:
        for cut in range(1, n):
            one(ctx, h, desc, rng, n, [raw[:cut], raw[cut:]], rng.choice(DELIVERING), family="two-split")
    # ---- a transport that holds segments while paused and hands them over from inside resumeProducing(), with
    #      deliverBody() called after the dataReceived() that carried the headers has returned
    if desc["framing"] != "none":
        he = desc["hdr_end"]
        for j in range(9):
            k = rng.choice([n, n, desc["msg_end"], rng.randrange(he, n + 1)])
            prefix = raw[:k]
            if j % 3 == 0:
                segs = [prefix[:he]] + ([prefix[he:]] if k > he else [])
            elif j % 3 == 1:
                segs = [prefix[:he]] + split_random(rng, prefix[he:])
            else:
                segs = split_random(rng, prefix)
            out = one(ctx, h, desc, rng, k, segs, "after-return", {"flush": True}, family="flush")
            ctx.count("reentrant_flushes_from_resumeProducing", out["notes"]["reentrant_flushes"])
            if out["notes"]["reentrant_flushes"]:
                ctx.count("flush_with_" + desc["framing"])
    # ---- the request is still being transmitted while the response arrives (body producer's Deferred pending,
    #      .called-but-waiting, or fired-and-paused), released before / in the middle / after the loss / never
    if desc["method"] != b"HEAD":
        for _ in range(11):
            k = rng.choice([n, desc["msg_end"], desc["hdr_end"], rng.randrange(n + 1), rng.randrange(n + 1)])
            segs = rng.choice(variants_for(rng, raw[:k]))
            tx = [rng.choice(TX_KINDS), rng.choice(TX_RELEASE), rng.randint(0, max(0, len(segs)))]
            one(ctx, h, desc, rng, k, segs, rng.choice(POLICIES), {"tx": tx}, family="tx")
    # ---- re-entrant calls by the application from inside the call-outs
    for _ in range(10):
        k = rng.choice([n, n, desc["msg_end"], rng.randrange(desc["hdr_end"], n + 1)])
        segs = rng.choice(variants_for(rng, raw[:k]))
        where, action = rng.choice(REENTRY)
        one(ctx, h, desc, rng, k, segs, rng.choice(DELIVERING), {"reentry": [where, action, rng.randint(1, 3)]}, family="reentry")
        ctx.count("reentry_" + action)
    # ---- application call-outs that raise (Exception and BaseException-only)
    for _ in range(6):
        k = rng.choice([n, rng.randrange(desc["hdr_end"], n + 1)])
        segs = rng.choice(variants_for(rng, raw[:k]))
        where, exc = rng.choice(RAISES)
        scn = {"raises": [where, exc, rng.randint(1, 2)]}
        if where == "stopProducing":
            if desc["method"] == b"HEAD":
                continue
            scn["tx"] = [rng.choice(TX_KINDS), rng.choice(["never", "after-loss"]), 0]
        one(ctx, h, desc, rng, k, segs, rng.choice(DELIVERING), scn, family="raises")
    # ---- a second request on the same protocol after this response (state left over from the first exchange)
    if desc["malformed"] is None and desc["framing"] != "close" and n == desc["msg_end"] and not desc.get("edge"):
        for _ in range(8):
            d2 = gen_response(rng)
            if len(d2["raw"]) > 3000:
                continue
            d1 = dict(desc, persistent=rng.random() < 0.8)
            k2 = rng.choice([len(d2["raw"]), d2["msg_end"], 0, rng.randrange(len(d2["raw"]) + 1), rng.randrange(len(d2["raw"]) + 1)])
            segs2 = rng.choice(variants_for(rng, d2["raw"][:k2]))
            scn = {"second": {"desc": d2, "segs": segs2, "k2": k2, "policy": rng.choice(POLICIES), "where": rng.choice(["after-return", "in-body-lost"])}}
            one(ctx, h, d1, rng, n, rng.choice(variants_for(rng, raw)), rng.choice(["immediate", "after-return"]), scn, family="pair")


def run(ctx):
    # reference reader self-test
    assert ref_chunked(b"3\r\nabc\r\n0\r\n\r\n") == (b"abc", "complete")
    assert ref_chunked(b"3\r\nabc\r\n0\r\n") == (b"abc", "incomplete")
    assert ref_chunked(b"3\r\nab") == (b"ab", "incomplete")
    assert ref_chunked(b"3\r\nabc\r") == (b"abc", "incomplete")
    assert ref_chunked(b"3\r\nabcX") == (b"abc", "malformed")
    assert ref_chunked(b"0x3\r\nabc") == (b"", "malformed")
    assert ref_chunked(b"1;e=1\r\na\r\n00\r\nT: v\r\n\r\n") == (b"a", "complete")
    r = ref_parse(b"HTTP/1.1 100 Continue\r\n\r\nHTTP/1.1 200 OK\nContent-Length:\n 2\n\nabc", b"GET")
    assert (r["head"], r["code"], r["interim"], r["body"], r["body_state"]) == ("complete", 200, 1, b"ab", "complete"), r
    assert ref_parse(b"HTTP/1.1 200 OK\r\nContent-Length: 5\r\n\r\nab", b"HEAD")["body_state"] == "complete"
    assert ref_parse(b"HTTP/1.1 200 OK\r\nContent-Length: 5, 6\r\n\r\nab", b"GET")["head"] == "malformed"
    assert ref_parse(b"HTTP/1.1 200 OK\r\n\r\nab", b"GET")["body_state"] == "close-delimited"
    assert ref_parse(b"HTTP/1.1 200 OK\r\nX: y\r\n", b"GET")["head"] == "incomplete"
    h = Harness()
    try:
        for i in ctx.cases(360, 18000):
            rng = ctx.case_rng(i)
            desc = gen_h11_response(rng) if rng.random() < 0.25 else gen_response(rng)
            run_response(ctx, h, desc, rng, sample=i < 2 * ctx.nshards)
    finally:
        h.close()


def _segs(data, lengths):
    out, pos = [], 0
    for n in lengths:
        out.append(data[pos:pos + n])
        pos += n
    if pos < len(data):
        out.append(data[pos:])
    return out


def replay(ctx, w):
    x = w["witness"]

    def unb(m):
        return (m[2:] if m.startswith("b:") else m).encode()

    raw = x["response_latin1"].encode("latin-1")
    desc = {"method": unb(x["method"]), "persistent": x["persistent"], "raw": raw, "source": x["source"], "framing": x["framing"], "malformed": x["malformed"]}
    scn = dict(x.get("scenario") or {})
    k = x["lost_after_k"]
    segs = _segs(raw[:k], x["segment_lengths"])
    policy = x["policy"]
    if x.get("second"):
        s2 = x["second"]
        raw2 = s2["response_latin1"].encode("latin-1")
        d2 = {"method": unb(s2["method"]), "persistent": s2["persistent"], "raw": raw2, "source": "replay", "framing": "?", "malformed": None}
        scn["second"] = {"desc": d2, "segs": _segs(raw2[:s2["k2"]], s2["segment_lengths"]), "k2": s2["k2"], "policy": s2["policy"], "where": s2["where"]}
        if x.get("exchange") == "second":
            # the witness describes the second exchange; the first one is not recorded in full: replay is approximate
            ctx.inconclusive("replay of a second-exchange witness needs the first response; re-run with VERIF_SEED=%s" % w.get("seed"))
            return
    h = Harness()
    try:
        out = h.run(desc, segs, policy, 4, 0, scn or None)
        ctx.evaluated()
        ctx.distinct((raw, k))
        check(ctx, h, out["ex1"], k, segs, out)
        if out["ex2"] is not None:
            check(ctx, h, out["ex2"], scn["second"]["k2"], scn["second"]["segs"], out, which="second")
    finally:
        h.close()
